"""C07 translator: regenerates coq/theories/Generated/Gen_Repro.v from /repo's working tree.

Three tables, all fail closed:
  gen_sites          every use, in the built-in templates and support templates of c/cpp/py/html, of a template global
                     that can carry ambient data (now_utc, T.source_file_path not reduced to .name, `| pickle` of a
                     pydsdl object, nunavut.platform_version, type_to_include_path(resolve), get_nested_namespaces()
                     without a sort filter, includes/imports with an explicit sort argument) and whether it sits
                     under `{% if nunavut.embed_auditing_info %}` / in the true arm of `a if nunavut.embed_auditing_info
                     else b` (a small Jinja block-structure scanner; an unknown tag or unbalanced block fails closed)
  gen_src_facts      boolean facts about the Python sources read with `ast` (sorted() in IncludeGenerator /
                     filter_imports / get_templates, the gating inside _create_platform_version, the single clock read,
                     the threading of embed_auditing_info)
  gen_set_iters      every iteration over a set-typed name in the Python sources (+ whether it goes through sorted())
  gen_ambient_reads  every read of clock / cwd / absolute paths / environment / platform / object identity
Unknown set iterations and ambient reads are emitted as SetUnknown / RdUnknown, which the theorems of
Properties/C07.v reject.
"""
from __future__ import annotations

import ast
import os
import re
import typing

from . import gen

OUT = os.path.join(gen.GEN_DIR, 'Gen_Repro.v')
LANGS = [('c', 'LC'), ('cpp', 'LCpp'), ('py', 'LPy'), ('html', 'LHtml')]
SRC = 'src/nunavut'


class Unsupported(Exception):
    pass


# ------------------------------------------------------------------------------------------------------------------
# Jinja block-structure scanner
# ------------------------------------------------------------------------------------------------------------------
TOKEN_RE = re.compile(r'\{#.*?#\}|\{%.*?%\}|\{\{.*?\}\}', re.S)
OPENERS = {'if': 'endif', 'for': 'endfor', 'macro': 'endmacro', 'block': 'endblock', 'call': 'endcall',
           'filter': 'endfilter', 'ifuses': 'endifuses', 'ifnuses': 'endifuses', 'with': 'endwith',
           'autoescape': 'endautoescape'}
SIMPLE = {'include', 'from', 'import', 'extends', 'do', 'assert', 'break', 'continue'}
AUDIT_RE = re.compile(r'^nunavut\.embed_auditing_info(\s+and\s+.*)?$', re.S)
INLINE_RE = re.compile(r'\sif\s+nunavut\.embed_auditing_info\s+else\s', re.S)

# (the list of ambient-capable template names is DERIVED: derive_inventory / build_ambient below)


def _line_of(text: str, pos: int) -> int:
    return text.count('\n', 0, pos) + 1


def scan_template(text: str, name: str, amb: typing.Optional[list] = None, inv: typing.Optional[dict] = None,
                  names_out: typing.Optional[set] = None) -> typing.List[typing.Tuple[str, bool, int]]:
    """-> [(kind, gated, line)]; raises Unsupported on anything the scanner does not understand"""
    sites = []
    stack: typing.List[typing.List[typing.Any]] = []   # [tag, in_audit_true_branch]
    raw = False
    for m in TOKEN_RE.finditer(text):
        tok = m.group(0)
        if tok.startswith('{#'):
            continue
        line = _line_of(text, m.start())
        inner = tok[2:-2].strip()
        inner = inner.lstrip('-+').rstrip('-+').strip()
        is_stmt = tok.startswith('{%')
        if is_stmt:
            head = inner.split(None, 1)
            tag = head[0] if head else ''
            rest = head[1].strip() if len(head) > 1 else ''
            if raw:
                if tag == 'endraw':
                    raw = False
                continue
            if tag == 'raw':
                raw = True
                continue
            if tag in OPENERS:
                stack.append([tag, tag == 'if' and AUDIT_RE.match(rest) is not None])
            elif tag == 'set':
                if '=' not in rest:       # block set ... endset
                    stack.append(['set', False])
            elif tag in ('elif', 'else'):
                if not stack or stack[-1][0] not in ('if', 'for', 'ifuses', 'ifnuses'):
                    raise Unsupported('%s:%d: %s without open block' % (name, line, tag))
                stack[-1][1] = False       # only the first branch of `if nunavut.embed_auditing_info` is gated
            elif tag.startswith('end'):
                if not stack:
                    raise Unsupported('%s:%d: %s without open block' % (name, line, tag))
                top = stack.pop()
                want = 'endset' if top[0] == 'set' else OPENERS[top[0]]
                if tag != want:
                    raise Unsupported('%s:%d: %s closes %s' % (name, line, tag, top[0]))
            elif tag in SIMPLE:
                pass
            else:
                raise Unsupported('%s:%d: unknown tag %r' % (name, line, tag))
            if tag.startswith('end'):
                continue
            expr = rest
        else:
            if raw:
                continue
            expr = inner
        block_gated = any(f[1] for f in stack)
        cur_tag = tag if is_stmt else ''
        if names_out is not None:
            names_out.update(referenced_names(cur_tag, expr))
        if inv is not None:
            for kind in _pair_api_sites(inv, cur_tag, expr):
                sites.append((kind, block_gated, line))
        # an `if nunavut.embed_auditing_info` statement's own condition is not a use
        if amb is not None:
            expr = re.sub(r'\.\s*__class__\s*\.\s*__name__\b', '.CLASSNAME', expr)     # the class name: not ambient
        for kind, rx in (amb or []):
            for u in rx.finditer(STRING_RE.sub(lambda mm: '"' + ' ' * (len(mm.group(0)) - 2) + '"', expr) if amb is not None else expr):
                gated = block_gated
                if not gated:
                    im = INLINE_RE.search(expr)
                    # `A if nunavut.embed_auditing_info else B`: a use inside A is gated (A must not contain another `if`)
                    if im and u.end() <= im.start() and ' if ' not in expr[:im.start()] and ' else ' not in expr[:im.start()]:
                        gated = True
                sites.append((kind, gated, line))
    if raw or stack:
        raise Unsupported('%s: unbalanced blocks at end of file (%r)' % (name, [f[0] for f in stack]))
    return sites


def template_group(fname: str, is_support: bool) -> str:
    if is_support:
        return 'GSupport'
    low = fname.lower()
    if low.startswith('namespace'):
        return 'GNs'
    return 'GType'



# ------------------------------------------------------------------------------------------------------------------
# What a template can reach: derived from the environment, not from a hand list
# ------------------------------------------------------------------------------------------------------------------
JINJA_KEYWORDS = {'and', 'or', 'not', 'in', 'is', 'if', 'else', 'true', 'false', 'none', 'True', 'False', 'None', 'loop', 'caller',
                  'varargs', 'kwargs', 'self', 'super', 'recursive', 'ignore', 'missing', 'with', 'without', 'context', 'as', 'import',
                  'scoped', 'required', '_'}


def _dict_keys(tree: ast.AST, name: str) -> typing.Set[str]:
    for n in ast.walk(tree):
        if isinstance(n, ast.Assign) and len(n.targets) == 1 and ast.unparse(n.targets[0]) == name and isinstance(n.value, ast.Dict):
            return {k.value for k in n.value.keys if isinstance(k, ast.Constant)}
    raise Unsupported('cannot find %s' % name)


def _pydsdl_test_names() -> typing.Set[str]:
    """the tests DSDLCodeGenerator._create_instance_tests_for_type registers (class name + its lower-case short form)"""
    import pydsdl
    out: typing.Set[str] = set()

    def rec(root: type) -> None:
        out.add(root.__name__)
        low = root.__name__.lower()
        if len(low) > 4 and low.endswith('type'):
            out.add(low[:-4])
        elif len(low) > 5 and low.endswith('field'):
            out.add(low[:-5])
        else:
            out.add(low)
        for d in root.__subclasses__():
            rec(d)
    rec(pydsdl.SerializableType)
    rec(pydsdl.Attribute)
    return out


def _path_members(tree: ast.AST, cls_name: str) -> typing.Dict[str, typing.Tuple[str, bool]]:
    """public methods/properties of a class whose return annotation mentions a Path: name -> (kind, yields (object, path) pairs)"""
    out = {}
    cls = find_def(tree, cls_name)
    for m in cls.body:
        if isinstance(m, ast.FunctionDef) and not m.name.startswith('_') and m.returns is not None:
            ann = ast.unparse(m.returns)
            if re.search(r'\bPath\b|\bPurePath\b', ann):
                out[m.name] = ('KAbsSrc' if 'source' in m.name else 'KOutPath', bool(re.search(r'Tuple|ItemsView', ann)))
    return out


DEPS_PIN = [('src/nunavut/_dependencies.py', 'DependencyBuilder.transitive'),
            ('src/nunavut/_dependencies.py', 'DependencyBuilder._build_dependency_list'),
            ('src/nunavut/_dependencies.py', 'DependencyBuilder._extract_data_types'),
            ('src/nunavut/_dependencies.py', 'DependencyBuilder._extract_dependent_types')]


def deps_walk_pinned() -> bool:
    """the transitive dependency walk (fields, arrays -> element type, service halves, recursion into every composite found) has the
    shape it had when it was reviewed (tools/translators/pins/c07_deps.txt; the same four functions C08 pins)"""
    from . import shape_pin
    try:
        cur = '\n'.join('## %s:%s\n%s' % (p, q, shape_pin.normalized_dump(p, q)) for p, q in DEPS_PIN) + '\n'
        return cur == open(os.path.join(os.path.dirname(os.path.abspath(__file__)), 'pins', 'c07_deps.txt'), encoding='utf-8').read()
    except (OSError, KeyError, SyntaxError, AssertionError):
        return False


def pickle_roots_complete(fn: ast.FunctionDef) -> bool:
    """every PurePath reachable in the pickled object is relativised only if the directories the Pickler relativises against come
    from ALL composite types reachable from x: `root_parents` is sorted({t.source_file_path_to_root.parent for t in
    DependencyBuilder(x).transitive().composite_types} | {x.source_file_path_to_root.parent}) and the walk behind transitive() is
    the pinned one"""
    deps_name = None
    for n in ast.walk(fn):
        if isinstance(n, ast.Assign) and len(n.targets) == 1 and isinstance(n.targets[0], ast.Name) \
                and ast.unparse(n.value) == 'DependencyBuilder(x).transitive().composite_types':
            deps_name = n.targets[0].id
    if deps_name is None:
        return False
    want = 'sorted({t.source_file_path_to_root.parent for t in %s} | {x.source_file_path_to_root.parent})' % deps_name
    ok = any(isinstance(n, ast.Assign) and ast.unparse(n.targets[0]) == 'root_parents' and ast.unparse(n.value) == want for n in ast.walk(fn))
    return ok and deps_walk_pinned()


def derive_inventory(trees: typing.Dict[str, ast.Module]) -> dict:
    envt = trees[os.path.join('jinja', 'environment.py')]
    jj = trees[os.path.join('jinja', '__init__.py')]
    inv: dict = {'globals': {}, 'filters': {}, 'tests': set(), 'attrs': {}, 'pair_attrs': set(), 'namespaces': set()}
    # -- globals: keys stored into self.globals, the reserved namespaces/names, Jinja's default namespace, generate(T=...)
    for n in ast.walk(envt):
        if isinstance(n, ast.Assign) and len(n.targets) == 1 and isinstance(n.targets[0], ast.Subscript) \
                and ast.unparse(n.targets[0].value) == 'self.globals':
            k = n.targets[0].slice
            if isinstance(k, ast.Constant):
                inv['globals'][k.value] = 'KClock' if re.search(r'datetime|time', ast.unparse(n.value)) else None
        if isinstance(n, ast.Assign) and len(n.targets) == 1 and isinstance(n.targets[0], ast.Name) \
                and n.targets[0].id in ('RESERVED_GLOBAL_NAMESPACES', 'RESERVED_GLOBAL_NAMES') and isinstance(n.value, ast.Set):
            for e in n.value.elts:
                if isinstance(e, ast.Constant):
                    inv['globals'].setdefault(e.value, None)
                    if n.targets[0].id == 'RESERVED_GLOBAL_NAMESPACES':
                        inv['namespaces'].add(e.value)
        # attributes of the `nunavut` namespace: setattr(nunavut_namespace, "key", value)
        if is_call_to(n, 'setattr') and len(n.args) == 3 and isinstance(n.args[1], ast.Constant) and 'namespace' in ast.unparse(n.args[0]):
            v = ast.unparse(n.args[2])
            kind = 'KPlatform' if '_create_platform_version' in v else ('KTmplSets' if 'get_template_sets' in v else None)
            if kind:
                inv['attrs'][n.args[1].value] = kind
    inv['globals'].update({k: None for k in _dict_keys(parse(os.path.join('jinja', 'jinja2', 'defaults.py')), 'DEFAULT_NAMESPACE')})
    # language globals: Language.get_globals (prefix + key of the named types / values of properties.yaml) and the
    # _validate_globals overrides of the language classes (constant keys)
    inv['global_prefixes'] = set()
    for rel, tree in trees.items():
        for fn in [n for n in ast.walk(tree) if isinstance(n, ast.FunctionDef) and n.name in ('get_globals', '_validate_globals')]:
            for n in ast.walk(fn):
                if isinstance(n, ast.Assign) and len(n.targets) == 1 and isinstance(n.targets[0], ast.Subscript) \
                        and ast.unparse(n.targets[0].value) == 'globals_map':
                    k = n.targets[0].slice
                    if isinstance(k, ast.Constant) and isinstance(k.value, str):
                        inv['globals'][k.value] = None
                    elif isinstance(k, ast.JoinedStr) and k.values and isinstance(k.values[0], ast.Constant):
                        inv['global_prefixes'].add(k.values[0].value)
                    else:
                        raise Unsupported('%s %s: computed global name' % (rel, fn.name))
    for n in ast.walk(jj):
        if isinstance(n, ast.Call) and isinstance(n.func, ast.Attribute) and n.func.attr == 'generate':
            for k in n.keywords:
                if k.arg:
                    inv['globals'][k.arg] = None
    # -- filters / tests / uses-queries by naming convention, classified by what their bodies do
    for rel, name, fn in template_functions(trees):
        short = name.split('.')[-1]
        body = ast.unparse(fn)
        params = [a.arg for a in fn.args.args]
        if short.startswith('filter_'):
            kind = None
            if re.search(r'\bpickle\.|Pickler\b|\byaml\.dump', body):
                kind = 'KPickle'                                 # serialises the whole object it is given
                # ... unless its Pickler reduces every path to one relative to the root namespace (b86b49b): a
                # reducer_override that tests isinstance(obj, pathlib.PurePath), calls relative_to and returns a PurePosixPath
                for ro in [n for n in ast.walk(fn) if isinstance(n, ast.FunctionDef) and n.name == 'reducer_override']:
                    src = ast.unparse(ro)
                    rets = [ast.unparse(r.value) for r in ast.walk(ro) if isinstance(r, ast.Return) and r.value is not None]
                    if re.search(r'isinstance\(\w+, pathlib\.PurePath\)', src) and '.relative_to(' in src \
                            and any(r.startswith('(pathlib.PurePosixPath,') for r in rets) and pickle_roots_complete(fn):
                        kind = None
            elif 'resolve' in params:
                kind = 'KAbsSrc:args'                            # absolute only when called with an argument
            elif 'sort' in params:
                kind = 'KIncUnsorted:args'
            inv['filters'][short[len('filter_'):]] = kind
        elif short.startswith('is_'):
            inv['tests'].add(short[len('is_'):])
        else:
            inv['globals'].setdefault('uses_queries', None)
    inv['filters'].update({k: None for k in _dict_keys(parse(os.path.join('jinja', 'jinja2', 'filters.py')), 'FILTERS')
                           if k not in inv['filters']})
    inv['tests'] |= _dict_keys(parse(os.path.join('jinja', 'jinja2', 'tests.py')), 'TESTS')
    inv['tests'] |= _pydsdl_test_names()
    # extension tags add no names; ifuses/ifnuses take a string
    # -- attributes that carry a path: the Namespace API and pydsdl.CompositeType
    for name, (kind, pairs) in _path_members(trees['_namespace.py'], 'Namespace').items():
        inv['attrs'][name] = kind
        if pairs:
            inv['pair_attrs'].add(name)
    import importlib.util
    spec = importlib.util.find_spec('pydsdl')
    comp = ast.parse(open(os.path.join(os.path.dirname(spec.origin), '_serializable', '_composite.py'), encoding='utf-8').read())
    for name, (kind, pairs) in _path_members(comp, 'CompositeType').items():
        inv['attrs'].setdefault(name, 'KAbsSrc')
    return inv


def build_ambient(inv: dict) -> list:
    amb = []
    for g, kind in sorted(inv['globals'].items()):
        if kind:
            amb.append((kind, re.compile(r'(?<![\w.])%s\b' % re.escape(g))))
    for a, kind in sorted(inv['attrs'].items()):
        if a in inv['pair_attrs']:
            continue                                             # handled by _pair_api_sites (the path half may be dropped)
        if kind in ('KAbsSrc', 'KOutPath'):
            amb.append((kind, re.compile(r'\.\s*%s\b(?!\s*(\(\s*\))?\s*\.\s*(name|stem|suffix)\b)' % re.escape(a))))
        else:
            amb.append((kind, re.compile(r'\.\s*%s\b' % re.escape(a))))
    for f, kind in sorted(inv['filters'].items()):
        if kind == 'KPickle':
            amb.append(('KPickle', re.compile(r'\|\s*%s\b' % re.escape(f))))
        elif kind == 'KAbsSrc:args':
            amb.append(('KAbsSrc', re.compile(r'\b%s\s*\(' % re.escape(f))))
        elif kind == 'KIncUnsorted:args':
            amb.append(('KIncUnsorted', re.compile(r'\|\s*%s\s*\(' % re.escape(f))))
    # internals and computed attribute access: anything may be behind them
    amb.append(('KAbsSrc', re.compile(r'\.\s*_\w+|\|\s*attr\s*\(|\b__\w+__\b|\bsearchpath\b|\bloader\b|\btemplates_dirs?\b')))
    amb.append(('KCwd', re.compile(r'\bcwd\b|\bgetcwd\b')))
    # hash-ordered collections and the one sorted accessor
    amb.append(('KNsIter', re.compile(r'\bget_nested_namespaces\s*\(\s*\)(?!\s*\|\s*(natural_sort_namespace\b|sort\s*\([^)]*case_sensitive\s*=\s*[Tt]rue))')))
    amb.append(('KNsIter', re.compile(r'\bcomposite_types\b')))
    return amb


PAIR_OK_FOR = re.compile(r'^\s*\w+\s*,\s*_\s+in\s')


def _pair_api_sites(inv: dict, tag: str, expr: str) -> typing.List[str]:
    """uses of Namespace methods that yield (object, output path) pairs: harmless when the path half is dropped --
    `for x, _ in NS.api()`, `NS.api() | map("first")`, a bare truth test -- an output-location site otherwise"""
    kinds = []
    for a in sorted(inv['pair_attrs']):
        for m in re.finditer(r'\.\s*%s\s*\(\s*\)' % re.escape(a), expr):
            rest = expr[m.end():]
            dropped = bool(re.match(r'\s*\|\s*map\s*\(\s*["\']first["\']\s*\)', rest)) or \
                (tag == 'for' and PAIR_OK_FOR.match(expr) is not None) or \
                (tag in ('if', 'elif') and re.fullmatch(r'\s*(not\s+)?[\w.]+\s*\(\s*\)\s*', expr) is not None)
            if not dropped:
                kinds.append('KOutPath')
    return kinds


STRING_RE = re.compile(r"'(?:\\.|[^'\\])*'|\"(?:\\.|[^\"\\])*\"")
IDENT_RE = re.compile(r'[A-Za-z_]\w*')


def collect_bindings(text: str) -> typing.Set[str]:
    """names bound inside templates: set / for targets, macro names and parameters, call-block arguments, import aliases, with"""
    b: typing.Set[str] = set()
    for m in TOKEN_RE.finditer(text):
        tok = m.group(0)
        if not tok.startswith('{%'):
            continue
        inner = STRING_RE.sub('""', tok[2:-2].strip().lstrip('-+').rstrip('-+').strip())
        head = inner.split(None, 1)
        if len(head) < 2:
            continue
        tag, rest = head
        if tag == 'set':
            b.update(IDENT_RE.findall(rest.split('=', 1)[0]))
        elif tag == 'for':
            b.update(IDENT_RE.findall(re.split(r'\sin\s', rest, 1)[0]))
        elif tag == 'macro':
            mm = re.match(r'(\w+)\s*\((.*)\)\s*$', rest, re.S)
            if mm:
                b.add(mm.group(1))
                b.update(x.split('=')[0].strip() for x in mm.group(2).split(',') if x.strip())
        elif tag == 'call':
            mm = re.match(r'\(([^)]*)\)', rest)
            if mm:
                b.update(IDENT_RE.findall(mm.group(1)))
        elif tag == 'from':
            imp = rest.split(' import ', 1)
            if len(imp) == 2:
                for part in imp[1].replace('with context', '').replace('without context', '').split(','):
                    w = part.split()
                    if w:
                        b.add(w[-1])
        elif tag == 'import':
            w = rest.split()
            if 'as' in w:
                b.add(w[w.index('as') + 1])
        elif tag == 'with':
            b.update(x.split('=')[0].strip() for x in rest.split(',') if '=' in x)
    return b


def referenced_names(tag: str, expr: str) -> typing.List[typing.Tuple[str, str]]:
    """(role, name) for every identifier of an expression: 'name' (bare), 'filter' (after |), 'test' (after is / is not)"""
    if tag in ('macro', 'call', 'block', 'from', 'import', 'include', 'extends', 'filter', 'ifuses', 'ifnuses', 'endblock', 'endmacro'):
        return []
    e = STRING_RE.sub('""', expr)
    if tag == 'for':
        parts = re.split(r'\sin\s', e, 1)
        e = parts[1] if len(parts) == 2 else ''
    elif tag == 'set':
        parts = e.split('=', 1)
        e = parts[1] if len(parts) == 2 else ''
    out = []
    for m in IDENT_RE.finditer(e):
        name = m.group(0)
        before = e[:m.start()].rstrip()
        after = e[m.end():].lstrip()
        if before.endswith('.'):
            continue                                             # attribute: classified through inv['attrs']
        if re.match(r'^=(?!=)', after) and (before.endswith('(') or before.endswith(',')):
            continue                                             # keyword argument name
        if before.endswith('|'):
            out.append(('filter', name))
        elif name == 'not' and re.search(r'\bis$', before):
            continue
        elif re.search(r'\bis(\s+not)?$', before):
            out.append(('test', name))
        elif name[0].isdigit():
            continue
        else:
            out.append(('name', name))
    return out


INCLUDE_RE = re.compile(r"^(include|import|from|extends)\s+(.*)$", re.S)


def template_refs(text: str, name: str) -> typing.List[str]:
    """names of the files a template pulls in through include / import / from-import / extends (string literals only;
    a computed name fails closed)"""
    refs = []
    for m in TOKEN_RE.finditer(text):
        tok = m.group(0)
        if not tok.startswith('{%'):
            continue
        inner = tok[2:-2].strip().lstrip('-+').rstrip('-+').strip()
        im = INCLUDE_RE.match(inner)
        if not im:
            continue
        rest = im.group(2).strip()
        lm = re.match(r"^(['\"])([^'\"]+)\1", rest)
        if not lm:
            raise Unsupported('%s:%d: %s with a computed name' % (name, _line_of(text, m.start()), im.group(1)))
        refs.append(lm.group(2))
    return refs


def scan_all_templates(trees: typing.Dict[str, ast.Module]):
    """-> (sites, includes, scanned).  Every .j2 under templates/ and support/ is an entry point; every file they name through
    include/import/from/extends is scanned too, WHATEVER ITS SUFFIX (Jinja renders included files as templates: the HTML pages
    include namespace_base.js and assets/*), transitively."""
    sites, includes, scanned, name_rows = [], [], [], []
    inv = derive_inventory(trees)
    amb = build_ambient(inv)
    for lname, lcoq in LANGS:
        n_files = 0
        bindings: typing.Set[str] = set()
        ref_names: typing.Set[typing.Tuple[str, str]] = set()
        for sub in ('templates', 'support'):
            d0 = os.path.join(gen.REPO, SRC, 'lang', lname, sub)
            for root, _, fnames in os.walk(d0) if os.path.isdir(d0) else []:
                for n in fnames:
                    if not n.endswith(('.py', '.pyc')):
                        try:
                            bindings |= collect_bindings(open(os.path.join(root, n), encoding='utf-8').read())
                        except UnicodeDecodeError:
                            pass
        for sub, is_support in (('templates', False), ('support', True)):
            d = os.path.join(gen.REPO, SRC, 'lang', lname, sub)
            if not os.path.isdir(d):
                continue
            work: typing.List[typing.Tuple[str, typing.FrozenSet[str]]] = []
            for root, _, names in os.walk(d):
                for n in sorted(names):
                    if n.endswith('.j2'):
                        work.append((os.path.join(root, n), frozenset([template_group(n, is_support)])))
            seen: typing.Dict[str, typing.Set[str]] = {}
            while work:
                p, groups = work.pop()
                new_groups = set(groups) - seen.get(p, set())
                if not new_groups:
                    continue
                first = p not in seen
                seen.setdefault(p, set()).update(new_groups)
                rel = os.path.relpath(p, gen.REPO)
                text = open(p, encoding='utf-8').read()          # UnicodeDecodeError -> translator crash -> fail closed
                if first:
                    n_files += 1
                for kind, gated, line in scan_template(text, rel, amb, inv, ref_names):
                    for g in sorted(new_groups):
                        sites.append((lcoq, g, kind, gated, line, rel))
                for ref in template_refs(text, rel):
                    q = os.path.normpath(os.path.join(d, ref))
                    ok = q.startswith(d + os.sep) and os.path.isfile(q)
                    if first:
                        includes.append((lcoq, ok, '%s -> %s' % (rel, ref)))
                    if ok:
                        # an included file is rendered in the context of its includer: it inherits the includer's groups
                        work.append((q, frozenset(new_groups | ({template_group(os.path.basename(q), is_support)} if q.endswith('.j2') else set()))))
        scanned.append((lcoq, n_files))
        for role, nm in sorted(ref_names):
            if role == 'name':
                ok = nm in bindings or nm in inv['globals'] or nm in JINJA_KEYWORDS or any(nm.startswith(px) for px in inv['global_prefixes'])
            elif role == 'filter':
                ok = nm in inv['filters'] or nm in inv['namespaces'] or nm in bindings
            else:
                ok = nm in inv['tests']
            name_rows.append((ok, '%s %s %s' % (lname, role, nm)))
    return sites, includes, scanned, name_rows


# ------------------------------------------------------------------------------------------------------------------
# Python sources
# ------------------------------------------------------------------------------------------------------------------
def py_files() -> typing.List[str]:
    res = []
    base = os.path.join(gen.REPO, SRC)
    for root, dirs, names in os.walk(base):
        dirs[:] = sorted(x for x in dirs if x != '__pycache__')
        rel = os.path.relpath(root, base)
        if rel.split(os.sep)[:2] == ['jinja', 'jinja2']:
            continue                      # the vendored template engine (trusted base; paired runs cover it)
        for n in sorted(names):
            if n.endswith('.py'):
                res.append(os.path.normpath(os.path.join(rel, n)))
    return res


def parse(rel: str) -> ast.Module:
    return gen.parse_repo(os.path.join(SRC, rel))


def find_def(tree: ast.AST, *names: str) -> ast.AST:
    cur = tree
    for nm in names:
        for node in ast.iter_child_nodes(cur):
            if isinstance(node, (ast.FunctionDef, ast.ClassDef)) and node.name == nm:
                cur = node
                break
        else:
            raise Unsupported('cannot find %s' % '.'.join(names))
    return cur


def is_call_to(node: ast.AST, name: str) -> bool:
    return isinstance(node, ast.Call) and isinstance(node.func, ast.Name) and node.func.id == name


def is_sorted_expr(node: ast.AST) -> bool:
    if is_call_to(node, 'sorted'):
        return True
    return is_call_to(node, 'list') and len(node.args) == 1 and is_call_to(node.args[0], 'sorted')


def default_of(fn: ast.FunctionDef, param: str) -> typing.Optional[ast.AST]:
    args = fn.args.args
    defaults = [None] * (len(args) - len(fn.args.defaults)) + list(fn.args.defaults)
    for a, d in zip(args, defaults):
        if a.arg == param:
            return d
    return None


def sorted_when_sort(fn: ast.FunctionDef) -> bool:
    """the function has `if sort: return sorted(...)` at its top level and no return before it"""
    for st in fn.body:
        if isinstance(st, ast.Return):
            return False
        if isinstance(st, ast.If) and isinstance(st.test, ast.Name) and st.test.id == 'sort':
            rets = [x for x in st.body if isinstance(x, ast.Return)]
            return len(rets) == 1 and rets[0].value is not None and is_sorted_expr(rets[0].value)
    return False


def fact_inc_sorted() -> bool:
    common = parse('lang/_common.py')
    fn = find_def(common, 'IncludeGenerator', 'generate_include_filepart_list')
    if not sorted_when_sort(fn):
        return False
    for rel in ('lang/c/__init__.py', 'lang/cpp/__init__.py'):
        f = find_def(parse(rel), 'filter_includes')
        d = default_of(f, 'sort')
        if not (isinstance(d, ast.Constant) and d.value is True):
            return False
        ok = False
        for node in ast.walk(f):
            if isinstance(node, ast.Call) and isinstance(node.func, ast.Attribute) and node.func.attr == 'generate_include_filepart_list':
                a = list(node.args) + [k.value for k in node.keywords if k.arg == 'sort']
                ok = any(isinstance(x, ast.Name) and x.id == 'sort' for x in a[1:] or a)
        if not ok:
            return False
    return True


def fact_imports_sorted() -> bool:
    f = find_def(parse('lang/py/__init__.py'), 'filter_imports')
    d = default_of(f, 'sort')
    return isinstance(d, ast.Constant) and d.value is True and sorted_when_sort(f)


def fact_templates_sorted() -> bool:
    f = find_def(parse('jinja/loaders.py'), 'DSDLTemplateLoader', 'get_templates')
    rets = [n for n in ast.walk(f) if isinstance(n, ast.Return)]
    return len(rets) == 1 and rets[0].value is not None and is_sorted_expr(rets[0].value)


def fact_platform_gated() -> bool:
    f = find_def(parse('jinja/environment.py'), 'CodeGenEnvironment', '_create_platform_version')
    seen_if = False
    for st in f.body:
        if isinstance(st, ast.Expr) and isinstance(st.value, ast.Constant):
            continue
        if isinstance(st, (ast.Assign, ast.AnnAssign)):
            tgt = st.targets[0] if isinstance(st, ast.Assign) else st.target
            val = st.value
            if isinstance(tgt, ast.Name):
                if not isinstance(val, ast.Dict) or val.keys:
                    return False
                continue
            if isinstance(tgt, ast.Subscript):
                # outside the `if`: only the interpreter version (part of "tool version") or constants
                src = ast.unparse(val)
                if src != 'platform.python_version()' and not isinstance(val, ast.Constant):
                    return False
                continue
            return False
        if isinstance(st, ast.If):
            if not (isinstance(st.test, ast.Name) and st.test.id == 'embed_auditing_info') or st.orelse:
                return False
            seen_if = True
            continue
        if isinstance(st, ast.Return):
            continue
        return False
    return seen_if


def fact_audit_threaded() -> bool:
    jj = parse('jinja/__init__.py')
    for cls in ('DSDLCodeGenerator', 'SupportGenerator'):
        f = find_def(jj, cls, 'generate_all')
        ok = False
        for node in ast.walk(f):
            if isinstance(node, ast.Call) and isinstance(node.func, ast.Attribute) and node.func.attr == 'update_nunavut_globals':
                ok = any(isinstance(a, ast.Name) and a.id == 'embed_auditing_info' for a in node.args) or \
                     any(k.arg == 'embed_auditing_info' and isinstance(k.value, ast.Name) and k.value.id == 'embed_auditing_info'
                         for k in node.keywords)
        if not ok:
            return False
    u = find_def(parse('jinja/environment.py'), 'CodeGenEnvironment', 'update_nunavut_globals')
    flag = plat = False
    for node in ast.walk(u):
        if is_call_to(node, 'setattr') and len(node.args) == 3 and isinstance(node.args[1], ast.Constant):
            if node.args[1].value == 'embed_auditing_info':
                flag = isinstance(node.args[2], ast.Name) and node.args[2].id == 'embed_auditing_info'
            if node.args[1].value == 'platform_version':
                v = node.args[2]
                plat = (isinstance(v, ast.Call) and isinstance(v.func, ast.Attribute) and v.func.attr == '_create_platform_version'
                        and len(v.args) == 1 and isinstance(v.args[0], ast.Name) and v.args[0].id == 'embed_auditing_info')
    return flag and plat


def fact_template_sets_pure() -> bool:
    """DSDLTemplateLoader.get_template_sets builds its tuples from constants, the templates package name and its version
    only: no file-system loader, search path or path operation is mentioned"""
    f = find_def(parse('jinja/loaders.py'), 'DSDLTemplateLoader', 'get_template_sets')
    allowed_attrs = {'_templates_package_name', 'version', 'append'}
    allowed_names = {'self', 'VersionReader', 'typing', 'str', 'int', 'None'}
    for node in ast.walk(f):     # local variables (their values are checked through the attribute / name rules)
        if isinstance(node, (ast.Assign, ast.AnnAssign)):
            for t in (node.targets if isinstance(node, ast.Assign) else [node.target]):
                if isinstance(t, ast.Name):
                    allowed_names.add(t.id)
    for node in ast.walk(f):
        if isinstance(node, ast.Attribute) and node.attr not in allowed_attrs and not ast.unparse(node).startswith('typing.'):
            return False
        if isinstance(node, ast.Name) and node.id not in allowed_names:
            return False
        if isinstance(node, (ast.For, ast.While, ast.ListComp, ast.GeneratorExp, ast.Lambda, ast.JoinedStr)):
            return False
    return True


# -- keyed sorts ---------------------------------------------------------------------------------------------------------
SORT_SITE_MAP = {('lang/html/__init__.py', '_natural_sort'): 'SortHtmlNatural',
                 ('_namespace.py', 'get_nested_namespaces'): 'SortNestedNs'}


def key_is_total(key: ast.AST, scope: ast.AST) -> bool:
    """the key function returns a tuple whose LAST component is the element itself / the caller's key of the element
    (a tie-breaker by exact name), or it is the identity"""
    fn = None
    if isinstance(key, ast.Lambda):
        arg = key.args.args[0].arg if key.args.args else None
        body = key.body
        if isinstance(body, ast.Name) and body.id == arg:
            return True
        return isinstance(body, ast.Tuple) and len(body.elts) >= 2 and isinstance(body.elts[-1], ast.Name) and body.elts[-1].id == arg
    if isinstance(key, ast.Name):
        for node in ast.walk(scope):
            if isinstance(node, ast.FunctionDef) and node.name == key.id:
                fn = node
    if fn is None or not fn.args.args:
        return False
    arg = fn.args.args[0].arg
    raw = {arg}
    for st in fn.body:       # names bound to the raw element or to key(<element>)
        if isinstance(st, ast.Assign) and len(st.targets) == 1 and isinstance(st.targets[0], ast.Name):
            v = st.value
            if (isinstance(v, ast.Name) and v.id in raw) or (isinstance(v, ast.Call) and len(v.args) == 1 and isinstance(v.args[0], ast.Name)
                                                              and v.args[0].id in raw and isinstance(v.func, ast.Name)):
                raw.add(st.targets[0].id)
    rets = [n for n in ast.walk(fn) if isinstance(n, ast.Return)]
    if len(rets) != 1 or rets[0].value is None:
        return False
    v = rets[0].value
    return isinstance(v, ast.Tuple) and len(v.elts) >= 2 and isinstance(v.elts[-1], ast.Name) and v.elts[-1].id in raw


def key_is_identity_attr(key: ast.AST, tree: ast.AST, fn: ast.FunctionDef) -> bool:
    """`sorted(<set of C>, key=lambda n: n.A)` inside class C whose __eq__ is exactly `self.A == other.A` (and whose __hash__
    mentions only A): distinct members of the set have distinct keys, so the key needs no tie-breaker"""
    if not (isinstance(key, ast.Lambda) and len(key.args.args) == 1 and isinstance(key.body, ast.Attribute)
            and isinstance(key.body.value, ast.Name) and key.body.value.id == key.args.args[0].arg):
        return False
    attr = key.body.attr
    for cls in [n for n in ast.walk(tree) if isinstance(n, ast.ClassDef)]:
        if not any(x is fn for x in cls.body):
            continue
        eq = next((m for m in cls.body if isinstance(m, ast.FunctionDef) and m.name == '__eq__'), None)
        hs = next((m for m in cls.body if isinstance(m, ast.FunctionDef) and m.name == '__hash__'), None)
        if eq is None or hs is None:
            return False
        other = eq.args.args[1].arg if len(eq.args.args) == 2 else None
        cmps = [n for n in ast.walk(eq) if isinstance(n, ast.Compare)]
        ok_eq = len(cmps) == 1 and ast.unparse(cmps[0]) == 'self.%s == %s.%s' % (attr, other, attr)
        rets = [ast.unparse(r.value) for r in ast.walk(eq) if isinstance(r, ast.Return) and r.value is not None]
        ok_eq = ok_eq and set(rets) <= {ast.unparse(cmps[0]) if cmps else '', 'False', 'NotImplemented'}
        hattrs = {n.attr for n in ast.walk(hs) if isinstance(n, ast.Attribute) and isinstance(n.value, ast.Name) and n.value.id == 'self'}
        return ok_eq and hattrs == {attr}
    return False


def keyed_sorts(trees: typing.Dict[str, ast.Module]) -> typing.List[typing.Tuple[str, bool, str]]:
    out = []
    for rel, tree in trees.items():
        for fn in [n for n in ast.walk(tree) if isinstance(n, ast.FunctionDef)]:
            for node in ast.walk(fn):
                if not isinstance(node, ast.Call):
                    continue
                is_sort = (isinstance(node.func, ast.Name) and node.func.id == 'sorted') or \
                          (isinstance(node.func, ast.Attribute) and node.func.attr == 'sort')
                keys = [k.value for k in node.keywords if k.arg == 'key']
                if not is_sort or not keys:
                    continue
                # attribute the call to the innermost function that contains it
                inner = [g for g in ast.walk(fn) if isinstance(g, ast.FunctionDef) and g is not fn and any(x is node for x in ast.walk(g))]
                if inner:
                    continue
                site = SORT_SITE_MAP.get((rel, fn.name), 'SortUnknown')
                total = key_is_total(keys[0], fn) or key_is_identity_attr(keys[0], tree, fn)
                out.append((site, total, '%s %s line %d' % (rel, fn.name, node.lineno)))
    return out


# -- order of user-supplied paths; writes that depend on the output directory ----------------------------------------------
def _derives_from_user_paths(expr: ast.AST, fn: ast.AST) -> bool:
    """the expression mentions the parsed command line / the environment, or a local name assigned from such an expression"""
    tainted: typing.Set[str] = set()
    changed = True

    def direct(e: ast.AST) -> bool:
        src = ast.unparse(e)
        if re.search(r'\b(self\._args|args)\.\w+|os\.environ|_from_env\b|sys\.argv', src):
            return True
        return any(isinstance(n, ast.Name) and n.id in tainted for n in ast.walk(e))
    while changed:
        changed = False
        for n in ast.walk(fn):
            if isinstance(n, ast.Assign) and len(n.targets) == 1 and isinstance(n.targets[0], ast.Name) and n.targets[0].id not in tainted:
                if direct(n.value):
                    tainted.add(n.targets[0].id)
                    changed = True
    return direct(expr)


PATH_SORT_MAP = {('cli/__init__.py', 'main', 'extra_includes_from_env'): 'PsEnvLookupDirs'}


def path_sorts(trees: typing.Dict[str, ast.Module]) -> typing.List[typing.Tuple[str, str]]:
    out = []
    for rel, tree in trees.items():
        for fn in [n for n in ast.walk(tree) if isinstance(n, ast.FunctionDef)]:
            inner = [g for g in ast.walk(fn) if isinstance(g, ast.FunctionDef) and g is not fn]
            for node in ast.walk(fn):
                if not isinstance(node, ast.Call) or any(any(x is node for x in ast.walk(g)) for g in inner):
                    continue
                arg = None
                if isinstance(node.func, ast.Name) and node.func.id in ('sorted', 'set', 'frozenset', 'reversed') and node.args:
                    arg = node.args[0]
                elif isinstance(node.func, ast.Attribute) and node.func.attr in ('sort', 'reverse') and not node.args:
                    arg = node.func.value
                if arg is None or not _derives_from_user_paths(arg, fn):
                    continue
                key = (rel, fn.name, ast.unparse(arg))
                out.append((PATH_SORT_MAP.get(key, 'PsUnknown'), '%s %s line %d: %s' % (rel, fn.name, node.lineno, ast.unparse(node)[:60])))
    return out


def fact_config_cmdline_order(psorts: typing.List[typing.Tuple[str, str]]) -> bool:
    """_create_language_context passes args.configuration (as is, or wrapped in a one-element list) to add_config_files, and
    add_config_files loads its arguments in a plain for loop"""
    f = find_def(parse('cli/runners.py'), 'ArgparseRunner', '_create_language_context')
    if any('_create_language_context' in d for _, d in psorts):
        return False
    vals = [ast.unparse(n.value) for n in ast.walk(f) if isinstance(n, ast.Assign) and ast.unparse(n.targets[0]) == 'additional_config_files']
    if not vals or not set(vals) <= {'[]', '[self._args.configuration]', 'self._args.configuration', 'list(self._args.configuration)'}:
        return False
    calls = [n for n in ast.walk(f) if isinstance(n, ast.Call) and isinstance(n.func, ast.Attribute) and n.func.attr == 'add_config_files']
    if len(calls) != 1 or ast.unparse(calls[0].args[0]) != '*additional_config_files':
        return False
    g = find_def(parse('lang/__init__.py'), 'LanguageContextBuilder', 'add_config_files')
    loops = [n for n in ast.walk(g) if isinstance(n, ast.For)]
    return len(loops) == 1 and ast.unparse(loops[0].iter) == 'additional_config_files' and \
        not any(isinstance(n, ast.Call) and isinstance(n.func, ast.Name) and n.func.id in ('sorted', 'set', 'reversed') for n in ast.walk(g))


def fact_outputs_always_written() -> bool:
    jj = parse('jinja/__init__.py')
    probes = {'exists', 'stat', 'lstat', 'is_file', 'is_dir', 'getmtime', 'getctime', 'getsize', 'samefile', 'access', 'isfile', 'listdir', 'iterdir', 'glob'}
    for names in (('SupportGenerator', 'generate_all'), ('SupportGenerator', '_generate_header'), ('SupportGenerator', '_copy_header'),
                  ('DSDLCodeGenerator', 'generate_all'), ('DSDLCodeGenerator', '_generate_type'), ('CodeGenerator', '_generate_code')):
        f = find_def(jj, *names)
        for n in ast.walk(f):
            if isinstance(n, ast.Continue):
                return False
            if isinstance(n, ast.Call) and isinstance(n.func, ast.Attribute) and n.func.attr in probes:
                return False
    return True


def fact_gzip_mtime_fixed() -> bool:
    f = find_def(parse('lang/py/__init__.py'), 'filter_pickle')
    calls = [n for n in ast.walk(f) if isinstance(n, ast.Call) and ast.unparse(n.func) in ('gzip.compress', 'gzip.GzipFile', 'gzip.open')]
    if not calls:
        return True          # no gzip stream at all
    return all(any(k.arg == 'mtime' and isinstance(k.value, ast.Constant) and isinstance(k.value.value, (int, float))
                   for k in c.keywords) for c in calls)


# -- set iterations ---------------------------------------------------------------------------------------------------
def is_set_ctor(node: typing.Optional[ast.AST]) -> bool:
    if node is None:
        return False
    if isinstance(node, (ast.Set, ast.SetComp)):
        return True
    if is_call_to(node, 'set') or is_call_to(node, 'frozenset'):
        return True
    if isinstance(node, ast.BinOp) and isinstance(node.op, (ast.Sub, ast.BitOr, ast.BitAnd, ast.BitXor)):
        return is_set_ctor(node.left) or is_set_ctor(node.right)
    return False


def ann_is_set(ann: typing.Optional[ast.AST]) -> bool:
    return ann is not None and re.search(r'\b(Set|set|FrozenSet|frozenset|AbstractSet)\b', ast.unparse(ann)) is not None


def collect_set_names(trees: typing.Dict[str, ast.Module]) -> typing.Tuple[typing.Set[str], typing.Dict[typing.Tuple[str, str], typing.Set[str]]]:
    attrs: typing.Set[str] = set()
    local: typing.Dict[typing.Tuple[str, str], typing.Set[str]] = {}
    for rel, tree in trees.items():
        for fn in [n for n in ast.walk(tree) if isinstance(n, (ast.FunctionDef, ast.AsyncFunctionDef))]:
            for node in ast.walk(fn):
                tgt = val = ann = None
                if isinstance(node, ast.Assign) and len(node.targets) == 1:
                    tgt, val = node.targets[0], node.value
                elif isinstance(node, ast.AnnAssign):
                    tgt, val, ann = node.target, node.value, node.annotation
                else:
                    continue
                tc = getattr(node, 'type_comment', None)
                setty = is_set_ctor(val) or ann_is_set(ann) or (tc is not None and re.search(r'\bSet\b|\bset\b', tc) is not None)
                if not setty:
                    continue
                if isinstance(tgt, ast.Attribute):
                    attrs.add(tgt.attr)
                elif isinstance(tgt, ast.Name):
                    local.setdefault((rel, fn.name), set()).add(tgt.id)
    return attrs, local


SET_SITE_MAP = {
    ('_namespace.py', 'build_namespace_tree', 'namespace_index'): 'SetNsIndex',
    ('_namespace.py', 'get_nested_namespaces', '_nested_namespaces'): 'SetNestedIter',
    ('_namespace.py', '_bfs_search_for_output_path', '_nested_namespaces'): 'SetNestedBfs',
    ('lang/_common.py', 'generate_include_filepart_list', 'composite_types'): 'SetDepsIncludes',
    ('lang/__init__.py', '_new_language_map', '<set-expr>'): 'SetLangMap',
    ('jinja/loaders.py', 'get_templates', 'files'): 'SetTemplateFiles',
    ('cli/runners.py', '_dependency_source_files', '<set-expr>'): 'SetListingDeps',
    ('lang/py/__init__.py', 'filter_newest_minor_version_aliases', '<set-expr>'): 'SetPyAliases',
}
CONSUMERS = {'iter', 'list', 'tuple', 'sorted', 'enumerate', 'next', 'reversed', 'zip', 'map', 'filter', 'min', 'max', 'sum'}


def set_iterations(trees: typing.Dict[str, ast.Module]) -> typing.List[typing.Tuple[str, bool, str, bool]]:
    attrs, local = collect_set_names(trees)
    out = []

    def set_name(expr: ast.AST, key: typing.Tuple[str, str]) -> typing.Optional[str]:
        if isinstance(expr, ast.Name) and expr.id in local.get(key, ()):
            return expr.id
        if isinstance(expr, ast.Attribute) and expr.attr in attrs:
            return expr.attr
        if is_set_ctor(expr):
            return '<set-expr>'
        return None

    ORDER_FREE = {'set', 'frozenset', 'any', 'all', 'len', 'sum', 'min', 'max'}
    for rel, tree in trees.items():
        par = _parents(tree)
        for fn in [n for n in ast.walk(tree) if isinstance(n, (ast.FunctionDef, ast.AsyncFunctionDef))]:
            key = (rel, fn.name)
            for node in ast.walk(fn):
                cands: typing.List[typing.Tuple[ast.AST, bool]] = []
                total = True
                if isinstance(node, ast.comprehension):
                    # set-to-set: the generator of a set comprehension, or of a generator expression consumed by an
                    # order-insensitive function, produces no order (what is then done with the resulting set is its own site)
                    comp = par.get(id(node))
                    if isinstance(comp, ast.SetComp):
                        continue
                    user = par.get(id(comp))
                    if isinstance(comp, ast.GeneratorExp) and isinstance(user, ast.Call) and isinstance(user.func, ast.Name) \
                            and (user.func.id in ORDER_FREE or (user.func.id == 'sorted' and not user.keywords)):
                        continue
                if isinstance(node, (ast.For, ast.AsyncFor)):
                    cands.append((node.iter, False))
                elif isinstance(node, ast.comprehension):
                    cands.append((node.iter, False))
                elif isinstance(node, ast.Call) and isinstance(node.func, ast.Name) and node.func.id in CONSUMERS:
                    for a in node.args:
                        cands.append((a, node.func.id == 'sorted'))
                    if node.func.id == 'sorted':
                        # sorted(set) is canonical only without key= (elements that compare equal are equal) or with a total key
                        keys = [k.value for k in node.keywords if k.arg == 'key']
                        total = not keys or key_is_total(keys[0], fn) or key_is_identity_attr(keys[0], tree, fn)
                elif isinstance(node, ast.Call) and isinstance(node.func, ast.Attribute) and node.func.attr in ('join', 'extend', 'update'):
                    for a in node.args:
                        cands.append((a, False))
                elif isinstance(node, ast.Starred):
                    cands.append((node.value, False))
                elif isinstance(node, (ast.YieldFrom,)):
                    cands.append((node.value, False))
                for expr, srt in cands:
                    nm = set_name(expr, key)
                    if nm is None:
                        continue
                    if nm == '<set-expr>' and isinstance(expr, ast.Call) and not isinstance(node, (ast.For, ast.comprehension)):
                        continue       # e.g. sorted(set(...)) / list(set(x))[0] handled only when iterated directly
                    site = SET_SITE_MAP.get((rel, fn.name, nm), 'SetUnknown')
                    out.append((site, srt, '%s %s %s' % (rel, fn.name, nm), total if srt else False))
    return out


# -- ambient reads ------------------------------------------------------------------------------------------------------
CLOCK_ATTRS = {'utcnow', 'now', 'today', 'time', 'time_ns', 'monotonic', 'perf_counter', 'localtime', 'gmtime', 'ctime',
               'strftime', 'fromtimestamp'}
READ_SITE_MAP = {
    ('jinja/__init__.py', '_generate_code', 'RClock'): 'RdNowUtc',
    ('jinja/environment.py', '_create_platform_version', 'RPlatform'): 'RdPlatform',
    ('_postprocessors.py', '__call__', 'RPlatform'): 'RdPpRunProgram',
    ('cli/__init__.py', '_extra_includes_from_env', 'REnviron'): 'RdEnvIncludes',
}


# -- where does an absolute path go?  (sink tracking for resolve()/abspath()/... calls and `.source_file_path` loads) ----------
LISTING_CALLS = ('self._stdout_lister', 'print', 'sys.stdout.write', 'sys.stderr.write')
PATH_REDUCERS = {'name', 'stem', 'suffix', 'suffixes', 'exists', 'is_file', 'is_dir', 'relative_to'}


def _parents(tree: ast.AST) -> typing.Dict[int, ast.AST]:
    par: typing.Dict[int, ast.AST] = {}
    for n in ast.walk(tree):
        for c in ast.iter_child_nodes(n):
            par[id(c)] = n
    return par


def _is_sink_call(call: ast.Call) -> typing.Optional[str]:
    src = ast.unparse(call.func)
    if src in LISTING_CALLS:
        return 'RdListing'
    if isinstance(call.func, ast.Attribute) and call.func.attr in ('debug', 'info', 'warning', 'error', 'exception', 'critical', 'log') \
            and re.search(r'log', ast.unparse(call.func.value), flags=re.I):
        return 'RdDiagnostic'
    return None


def classify_path_sink(trees: typing.Dict[str, ast.Module], pars: typing.Dict[str, typing.Dict[int, ast.AST]], rel: str,
                       node: ast.AST, depth: int = 0) -> str:
    """Follow the value of `node` (an expression that is an absolute path) upwards through the expression it is part of:
         operand of a comparison                         -> RdCompareOnly (a boolean; equal for both of two relocated copies)
         argument (also inside a lambda/comprehension) of the stdout lister / print       -> RdListing  (--list-inputs/outputs)
         argument of a logger call, of `raise X(...)`                                      -> RdDiagnostic
         `self._source_folder = ...` in Namespace.__init__                                 -> RdNsSourceFolder (template-visible
                                                             only as Namespace.source_file_path; every other load is checked)
         `return ...` under `if resolve:` in filter_type_to_include_path                   -> RdIncludeResolve (template sites)
         `return ...` of a helper                        -> the sinks of EVERY call of that helper (one level, by method name)
       anything else (assignment to a global, argument of another call, f-string, ...) -> RdUnknown."""
    par = pars[rel]
    cur = node
    while True:
        p = par.get(id(cur))
        if p is None:
            return 'RdUnknown'
        if isinstance(p, ast.Call) and isinstance(p.func, ast.Attribute) and p.func.attr == 'relative_to' and any(cur is a for a in p.args):
            return 'RdReduced'              # x.relative_to(<this path>): the result is relative
        if isinstance(p, ast.For) and p.iter is cur and isinstance(p.target, ast.Tuple) and len(p.target.elts) == 2 \
                and isinstance(p.target.elts[1], ast.Name) and p.target.elts[1].id == '_':
            return 'RdReduced'              # for x, _ in ns.get_nested_types(): the path half of the pairs is dropped
        if isinstance(p, ast.Attribute) and p.value is cur:
            if p.attr in PATH_REDUCERS:
                return 'RdReduced'          # .name / .exists(): no absolute component survives
            cur = p                          # .as_posix, .parent ... still a path
            continue
        if isinstance(p, ast.Call):
            if p.func is cur:                # method call on the path: x.as_posix()
                cur = p
                continue
            sink = _is_sink_call(p)
            if sink:
                return sink
            if isinstance(p.func, ast.Attribute) and p.func.attr == 'add' and isinstance(p.func.value, ast.Name):
                # remembered in a local set that is only ever asked `x in s`: a membership test (visited directories)
                fn0 = p
                while fn0 is not None and not isinstance(fn0, ast.FunctionDef):
                    fn0 = par.get(id(fn0))
                nm = p.func.value.id
                uses = [n for n in ast.walk(fn0) if isinstance(n, ast.Name) and n.id == nm and isinstance(n.ctx, ast.Load)] if fn0 else []
                ok = bool(uses)
                for u in uses:
                    up = par.get(id(u))
                    if isinstance(up, ast.Attribute) and up.attr == 'add':
                        continue
                    if isinstance(up, ast.Compare) and all(isinstance(o, (ast.In, ast.NotIn)) for o in up.ops) and any(c is u for c in up.comparators):
                        continue
                    ok = False
                if ok:
                    return 'RdCompareOnly'
            if (qual(p.func, import_aliases(trees[rel])) or '') in ('pydsdl.read_files', 'pydsdl.read_namespace'):
                return 'RdFrontEndInput'     # handed to the DSDL front end, which opens the files; not emitted
            if isinstance(p.func, ast.Name) and p.func.id in ('str', 'sorted', 'list', 'set', 'tuple', 'iter'):
                cur = p
                continue
            if isinstance(p.func, ast.Attribute) and isinstance(p.func.value, ast.Attribute) and ast.unparse(p.func.value) == 'pathlib' :
                cur = p
                continue
            return 'RdUnknown'
        if isinstance(p, ast.Compare):
            return 'RdCompareOnly'
        if isinstance(p, ast.Raise) or (isinstance(p, ast.Call) and False):
            return 'RdDiagnostic'
        if isinstance(p, (ast.Lambda, ast.Set, ast.SetComp, ast.ListComp, ast.GeneratorExp, ast.BinOp, ast.List, ast.Tuple, ast.comprehension,
                          ast.keyword, ast.Starred, ast.IfExp, ast.BoolOp)):
            cur = p
            continue
        if isinstance(p, ast.Assign) and len(p.targets) == 1 and isinstance(p.targets[0], ast.Name) and depth < 3:
            # a local variable: follow every later load of it inside the function
            fn = p
            while fn is not None and not isinstance(fn, ast.FunctionDef):
                fn = par.get(id(fn))
            if fn is None:
                return 'RdUnknown'
            loads = [n for n in ast.walk(fn) if isinstance(n, ast.Name) and n.id == p.targets[0].id and isinstance(n.ctx, ast.Load)]
            sinks = {classify_path_sink(trees, pars, rel, n, depth + 1) for n in loads}
            sinks.discard('RdReduced')
            if not sinks:
                return 'RdReduced'
            return sorted(sinks)[0] if len(sinks) == 1 else ('RdUnknown' if 'RdUnknown' in sinks else sorted(sinks)[0])
        if isinstance(p, ast.Assign) and len(p.targets) == 1 and ast.unparse(p.targets[0]) == 'self._source_folder' and rel == '_namespace.py':
            return 'RdNsSourceFolder' if _source_folder_loads_ok(trees) else 'RdUnknown'
        if isinstance(p, ast.Return):
            fn = p
            while fn is not None and not isinstance(fn, (ast.FunctionDef, ast.Lambda)):
                fn = par.get(id(fn))
            if isinstance(fn, ast.Lambda):
                cur = fn
                continue
            if fn is not None and fn.name == 'filter_type_to_include_path':
                guarded = any(isinstance(i, ast.If) and isinstance(i.test, ast.Name) and i.test.id == 'resolve'
                              and any(p is x for b in i.body for x in ast.walk(b)) for i in ast.walk(fn))
                return 'RdIncludeResolve' if guarded else 'RdUnknown'
            if fn is None or depth >= 1:
                return 'RdUnknown'
            sinks = set()
            for rel2, tree2 in trees.items():
                for c in ast.walk(tree2):
                    if isinstance(c, ast.Call) and isinstance(c.func, ast.Attribute) and c.func.attr == fn.name:
                        sinks.add(classify_path_sink(trees, pars, rel2, c, depth + 1))
            if sinks and sinks <= {'RdListing', 'RdDiagnostic', 'RdCompareOnly', 'RdReduced'}:
                return sorted(sinks)[0] if len(sinks) == 1 else 'RdListing'
            return 'RdUnknown'
        return 'RdUnknown'


def _source_folder_loads_ok(trees: typing.Dict[str, ast.Module]) -> bool:
    """every load of `._source_folder` is `.exists()`, an argument of a raised exception, or the return value of the
    `source_file_path` property (which templates see: the template site table covers it)"""
    for rel, tree in trees.items():
        par = _parents(tree)
        for n in ast.walk(tree):
            if isinstance(n, ast.Attribute) and n.attr == '_source_folder' and isinstance(n.ctx, ast.Load):
                p = par.get(id(n))
                if isinstance(p, ast.Attribute) and p.attr in PATH_REDUCERS:
                    continue
                if isinstance(p, ast.Call) and isinstance(par.get(id(p)), ast.Raise):
                    continue
                if isinstance(p, ast.Compare):
                    continue
                if isinstance(p, ast.Call) and _is_sink_call(p):
                    continue
                if isinstance(p, ast.Return):
                    fn = p
                    while fn is not None and not isinstance(fn, ast.FunctionDef):
                        fn = par.get(id(fn))
                    if fn is not None and fn.name == 'source_file_path':
                        continue
                return False
    return True


# -- what counts as an ambient read (names are resolved through the module's imports first) -----------------------------------
def import_aliases(tree: ast.AST) -> typing.Dict[str, str]:
    """local name -> qualified name, for every import statement of the module (module level and function level alike):
    `import datetime as dt` -> dt: datetime;  `from os import environ, getcwd as g` -> environ: os.environ, g: os.getcwd"""
    al: typing.Dict[str, str] = {}
    for n in ast.walk(tree):
        if isinstance(n, ast.Import):
            for a in n.names:
                al[a.asname or a.name.split('.')[0]] = a.name if a.asname else a.name.split('.')[0]
        elif isinstance(n, ast.ImportFrom) and n.module and n.level == 0:
            for a in n.names:
                al[a.asname or a.name] = n.module + '.' + a.name
    return al


def qual(expr: ast.AST, alias: typing.Dict[str, str]) -> typing.Optional[str]:
    if isinstance(expr, ast.Name):
        return alias.get(expr.id, expr.id)
    if isinstance(expr, ast.Attribute):
        b = qual(expr.value, alias)
        return None if b is None else b + '.' + expr.attr
    if isinstance(expr, ast.Call):
        b = qual(expr.func, alias)
        return None if b is None else b + '()'
    return None


CLOCK_Q = re.compile(r'^(datetime\.(datetime|date)\.(now|utcnow|today|fromtimestamp)|time\.(time|time_ns|monotonic|monotonic_ns|perf_counter|'
                     r'perf_counter_ns|process_time|localtime|gmtime|ctime|strftime|asctime|mktime))$')
CWD_Q = re.compile(r'^(os\.(getcwd|getcwdb|getpid|getppid|getlogin|uname|getuid|geteuid|getgid|umask|cpu_count|get_terminal_size)|'
                   r'os\.path\.(expanduser|expandvars)|pathlib\.(Path|PosixPath)\.(cwd|home)|tempfile\.\w+|socket\.(gethostname|getfqdn|gethostbyname)|'
                   r'getpass\.\w+|pwd\.\w+|shutil\.get_terminal_size|platform\.node)$')
LOCALE_Q = re.compile(r'^(locale\.\w+|sys\.(getdefaultencoding|getfilesystemencoding|getfilesystemencodeerrors)|os\.(device_encoding|fsencode|fsdecode)|'
                      r'time\.(tzset))$')
LISTDIR_Q = re.compile(r'^(os\.(listdir|scandir|walk|fwalk)|glob\.(glob|iglob))$')
ATTR_READS = {'sys.argv': 'RInterp', 'sys.version': 'RInterp', 'sys.version_info': 'RInterp', 'sys.hexversion': 'RInterp',
              'sys.implementation': 'RInterp', 'sys.modules': 'RInterp', 'sys.warnoptions': 'RInterp', 'sys.orig_argv': 'RInterp',
              'sys.flags': 'RInterp','os.environ': 'REnviron', 'os.environb': 'REnviron', 'sys._xoptions': 'RPlatform', 'sys.platform': 'RPlatform',
              'os.name': 'RPlatform', 'os.linesep': 'RPlatform', 'sys.byteorder': 'RPlatform', 'sys.maxsize': 'RPlatform',
              'sys.executable': 'RPlatform', 'sys.prefix': 'RPlatform', 'sys.path': 'REnviron',
              'time.tzname': 'RLocale', 'time.timezone': 'RLocale', 'time.altzone': 'RLocale', 'time.daylight': 'RLocale',
              'sys.stdout.encoding': 'RLocale', 'sys.stdin.encoding': 'RLocale'}
BINARY_OPENERS = re.compile(r'^(gzip|bz2|lzma|tarfile|zipfile|shelve|dbm|wave|webbrowser|os|urllib\.request)\.')


def _text_open_without_encoding(call: ast.Call, mode_index: int) -> bool:
    mode = None
    if len(call.args) > mode_index:
        mode = call.args[mode_index]
    for k in call.keywords:
        if k.arg == 'mode':
            mode = k.value
    if mode is not None and not isinstance(mode, ast.Constant):
        return True                                   # computed mode: assume text
    if mode is not None and 'b' in str(mode.value):
        return False
    return not any(k.arg == 'encoding' for k in call.keywords) and len(call.args) <= mode_index + 2


def detect_read(node: ast.AST, alias: typing.Dict[str, str], owner_fn: typing.Optional[str]) -> typing.Optional[str]:
    if isinstance(node, ast.Call):
        f = node.func
        q = qual(f, alias) or ''
        if CLOCK_Q.match(q):
            return 'RClock'
        if CWD_Q.match(q):
            return 'RCwd'
        if LOCALE_Q.match(q):
            return 'RLocale'
        if LISTDIR_Q.match(q):
            return 'RListdir'
        if q.startswith('platform.') and q != 'platform.python_version':
            return 'RPlatform'
        if re.match(r'^(random|uuid|secrets)\.', q) or q in ('os.urandom', 'os.getrandom'):
            return 'RRandom'
        if q in ('os.getenv', 'os.getenvb'):
            return 'REnviron'
        if re.match(r'^os\.path\.(getmtime|getctime|getatime)$', q):
            return 'RMtime'
        if q in ('open', 'io.open', 'codecs.open') and _text_open_without_encoding(node, 1):
            return 'RLocale'
        if q == 'dir' and len(node.args) == 1 and (qual(node.args[0], alias) or '') in ('builtins', '__builtins__'):
            return 'RInterp'                          # what is in builtins depends on how the interpreter was started (site)
        if q in ('globals', 'locals', 'vars') and not node.args:
            return None
        if q == 'id':
            return 'RRandom'                          # object identity = address
        if q == 'hash' and owner_fn != '__hash__':
            return 'RRandom'                          # str hashes are seeded
        if q in ('repr', 'ascii') and False:
            return None
        if isinstance(f, ast.Attribute):
            base = qual(f.value, alias) or ast.unparse(f.value)
            if f.attr in CLOCK_ATTRS and re.search(r'\b(datetime|time|date)\b', base):
                return 'RClock'
            if f.attr in ('getcwd', 'getcwdb', 'cwd', 'home', 'expanduser', 'gettempdir', 'mkdtemp', 'gethostname', 'getuser', 'getlogin'):
                return 'RCwd'
            if f.attr in ('resolve', 'absolute', 'abspath', 'realpath'):
                return 'RResolve'
            if f.attr in ('iterdir', 'glob', 'rglob', 'scandir', 'listdir'):
                return 'RListdir'
            if f.attr == 'open' and not BINARY_OPENERS.match(q) and _text_open_without_encoding(node, 0):
                return 'RLocale'                      # Path.open("w") without encoding=
            if f.attr in ('read_text', 'write_text') and not any(k.arg == 'encoding' for k in node.keywords) \
                    and len(node.args) <= (0 if f.attr == 'read_text' else 1):
                return 'RLocale'
        return None
    if isinstance(node, ast.Attribute) and isinstance(node.ctx, ast.Load):
        if node.attr == 'source_file_path':
            return 'RAbsPath'                         # pydsdl / Namespace: an absolute path
        if node.attr in ('st_mtime', 'st_ctime', 'st_atime', 'st_mtime_ns', 'st_ctime_ns', 'st_atime_ns', 'st_ino', 'st_dev'):
            return 'RMtime'
        q = qual(node, alias)
        if q in ATTR_READS:
            return ATTR_READS[q]
        return None
    if isinstance(node, ast.Name) and isinstance(node.ctx, ast.Load):
        if node.id == '__file__':
            return 'RInterp'                          # where the package is installed
        q = alias.get(node.id)
        if q in ATTR_READS:
            return ATTR_READS[q]                      # `from os import environ` ... environ
    return None


def _diagnostic_only(par: typing.Dict[int, ast.AST], node: ast.AST) -> bool:
    """the value is (part of) an argument of a logger call or of a raised exception"""
    cur = node
    while True:
        p = par.get(id(cur))
        if p is None or isinstance(p, (ast.FunctionDef, ast.Lambda, ast.Assign, ast.AnnAssign, ast.AugAssign, ast.Return, ast.Yield)):
            return False
        if isinstance(p, ast.Call) and p.func is not cur:
            if _is_sink_call(p) == 'RdDiagnostic':
                return True
            if isinstance(par.get(id(p)), ast.Raise):
                return True
        cur = p


SITE_NAMES = ('copyright', 'credits', 'exit', 'help', 'license', 'quit')


def classify_interp_read(trees, pars, rel: str, node: ast.AST) -> str:
    """interpreter state.
       dir(builtins) in the assignment of PyLanguage.PYTHON_RESERVED_IDENTIFIERS: RdBuiltinsClosed when the same expression adds the
         six names `site` injects (so the list is the same under python -S / in a frozen program), RdBuiltinsSiteDependent
         otherwise (known finding F-PY-BUILTINS-SITE: accounted for in the model's words only as a named quirk)
       __file__ reduced to .name / .parent used to locate packaged resources; sys.version_info in a comparison; anything that only
         feeds a logger / raise                                                  -> RdReduced / RdCompareOnly / RdDiagnostic
       else RdUnknown"""
    par = pars[rel]
    if isinstance(node, ast.Call):
        cur = node
        while cur is not None and not isinstance(cur, (ast.Assign, ast.AnnAssign)):
            cur = par.get(id(cur))
        if cur is not None and 'PYTHON_RESERVED_IDENTIFIERS' in ast.unparse(cur.targets[0] if isinstance(cur, ast.Assign) else cur.target):
            src = ast.unparse(cur.value)
            return 'RdBuiltinsClosed' if all(repr(n) in src for n in SITE_NAMES) else 'RdBuiltinsSiteDependent'
        return 'RdUnknown'
    cur = node
    while True:
        p = par.get(id(cur))
        if p is None:
            return 'RdUnknown'
        if isinstance(p, ast.Compare):
            return 'RdCompareOnly'
        if isinstance(p, ast.Attribute) and p.value is cur:
            if p.attr in PATH_REDUCERS or p.attr in ('major', 'minor'):
                return 'RdReduced' if p.attr in PATH_REDUCERS else 'RdCompareOnly'
            cur = p
            continue
        if isinstance(p, ast.Subscript) and p.value is cur:
            cur = p
            continue
        if isinstance(p, ast.Call) and p.func is not cur:
            if _is_sink_call(p) or isinstance(par.get(id(p)), ast.Raise):
                return 'RdDiagnostic'
            if (qual(p.func, import_aliases(trees[rel])) or '').split('.')[-1] in ('Path', 'PurePath', 'dirname', 'basename', 'str'):
                cur = p
                continue
            return 'RdUnknown'
        if isinstance(p, ast.Call) and p.func is cur:
            cur = p
            continue
        return 'RdUnknown'


def _enclosing_fn(par: typing.Dict[int, ast.AST], node: ast.AST) -> typing.Optional[ast.FunctionDef]:
    cur = par.get(id(node))
    while cur is not None and not isinstance(cur, ast.FunctionDef):
        cur = par.get(id(cur))
    return cur


def _package_dir(rel: str, expr: ast.AST) -> typing.Optional[str]:
    """directory of the package named by the first argument of iter_package_resources at a call site"""
    src = ast.unparse(expr)
    base = os.path.join(gen.REPO, SRC)
    if src == '__name__':
        return os.path.join(base, os.path.dirname(rel))
    if isinstance(expr, ast.Constant) and isinstance(expr.value, str) and expr.value.startswith('nunavut'):
        return os.path.join(base, *expr.value.split('.')[1:])
    if src == 'cls.MODULE_NAME':
        return os.path.join(base, 'lang')
    return None


def classify_listing_sink(trees, pars, rel: str, node: ast.AST, _depth: int = 0) -> str:
    """a directory listing has file-system order.  Accounted for when
         it is wrapped in sorted(...), or only added to a set/list that the function returns through sorted(...)  -> RdSortedListing
         it only feeds any()/next(..., default)/len()/a comparison                                                 -> RdMembership
         it is the listing inside iter_package_resources and EVERY call site of that helper names a package directory with at
           most one file of the requested suffixes (so there is only one order)                                   -> RdSortedListing
       else RdUnknown."""
    par = pars[rel]
    p = par.get(id(node))
    while isinstance(p, ast.Call) and isinstance(p.func, ast.Name) and p.func.id in ('filter', 'map', 'list', 'iter'):
        node, p = p, par.get(id(p))
    if isinstance(p, ast.Call) and isinstance(p.func, ast.Name):
        if p.func.id == 'sorted' and not any(k.arg == 'key' for k in p.keywords):
            return 'RdSortedListing'
        if p.func.id in ('any', 'all', 'len', 'bool', 'set', 'frozenset'):
            return 'RdMembership' if p.func.id not in ('set', 'frozenset') else 'RdUnknown'
    fn = _enclosing_fn(par, node)
    if isinstance(p, (ast.For, ast.comprehension)) and fn is not None:
        loop = p if isinstance(p, ast.For) else None
        if loop is not None:
            adds = [x for x in ast.walk(loop) if isinstance(x, ast.Call) and isinstance(x.func, ast.Attribute) and x.func.attr in ('add', 'append')]
            targets = {ast.unparse(x.func.value) for x in adds}
            rets = [r for r in ast.walk(fn) if isinstance(r, ast.Return) and r.value is not None]
            only_adds = all(isinstance(st, (ast.Expr, ast.If)) for st in loop.body) and len(targets) == 1 and adds and \
                not any(isinstance(x, (ast.Yield, ast.YieldFrom)) for x in ast.walk(loop))
            if only_adds and rets and all(is_sorted_expr(r.value) and ast.unparse(r.value.args[0] if is_call_to(r.value, 'sorted') else r.value.args[0].args[0]) in targets
                                          for r in rets):
                return 'RdSortedListing'
        if fn.name != 'iter_package_resources' and any(isinstance(x, (ast.Yield, ast.YieldFrom)) for x in ast.walk(fn)) and _depth < 1:
            # a generator helper that yields in listing order: accounted for iff EVERY call of it is (e.g. only added to a set that is
            # returned through sorted())
            sinks = set()
            for rel2, tree2 in trees.items():
                for c in ast.walk(tree2):
                    if isinstance(c, ast.Call) and isinstance(c.func, ast.Name) and c.func.id == fn.name:
                        sinks.add(classify_listing_sink(trees, pars, rel2, c, _depth + 1))
            if sinks and sinks <= {'RdSortedListing', 'RdMembership'}:
                return 'RdSortedListing'
            return 'RdUnknown'
        if fn.name == 'iter_package_resources':
            ok, n = True, 0
            for rel2, tree2 in trees.items():
                al2 = import_aliases(tree2)
                for c in ast.walk(tree2):
                    if isinstance(c, ast.Call) and (qual(c.func, al2) or '').endswith('iter_package_resources') and c.args:
                        n += 1
                        d = _package_dir(rel2, c.args[0])
                        sufs = [a.value for a in c.args[1:] if isinstance(a, ast.Constant)]
                        if d is None or len(sufs) != len(c.args) - 1 or not os.path.isdir(d):
                            ok = False
                            continue
                        files = [x for x in os.listdir(d) if os.path.isfile(os.path.join(d, x)) and any(x.endswith(sf) for sf in sufs)
                                 and not (x.endswith('.py') and '.py' not in sufs)]
                        ok = ok and len(files) <= 1
            return 'RdSortedListing' if ok and n else 'RdUnknown'
    return 'RdUnknown'


def classify_locale_read(trees, pars, rel: str, node: ast.AST) -> str:
    """text decoded with the locale's encoding.  Accounted for only when it is `resource.read_text()` over the resources of
    iter_package_resources(<package>, ".yaml") and every such packaged file is pure ASCII (decodes the same in every
    ASCII-compatible locale)."""
    par = pars[rel]
    fn = _enclosing_fn(par, node)
    if fn is None or not (isinstance(node, ast.Call) and isinstance(node.func, ast.Attribute) and node.func.attr == 'read_text'):
        return 'RdUnknown'
    al = import_aliases(trees[rel])
    loops = [l for l in ast.walk(fn) if isinstance(l, ast.For) and isinstance(l.iter, ast.Call)
             and (qual(l.iter.func, al) or '').endswith('iter_package_resources') and any(x is node for x in ast.walk(l))]
    if len(loops) != 1 or ast.unparse(node.func.value) != ast.unparse(loops[0].target):
        return 'RdUnknown'
    call = loops[0].iter
    d = _package_dir(rel, call.args[0]) if call.args else None
    sufs = [a.value for a in call.args[1:] if isinstance(a, ast.Constant)]
    if d is None or not sufs:
        return 'RdUnknown'
    for x in os.listdir(d):
        if any(x.endswith(sf) for sf in sufs):
            try:
                open(os.path.join(d, x), 'rb').read().decode('ascii')
            except UnicodeDecodeError:
                return 'RdUnknown'
    return 'RdAsciiPackagedText'


def ambient_reads(trees: typing.Dict[str, ast.Module]) -> typing.Tuple[typing.List[typing.Tuple[str, str, str]], bool]:
    out = []
    clock_ok = True
    pars = {rel: _parents(tree) for rel, tree in trees.items()}
    tfuncs = template_functions(trees)
    ns_path_members = set(_path_members(trees['_namespace.py'], 'Namespace')) | {'_output_folder', '_output_path', '_base_output_path'}
    for rel, tree in trees.items():
        funcs = [n for n in ast.walk(tree) if isinstance(n, (ast.FunctionDef, ast.AsyncFunctionDef, ast.Lambda))]
        owner: typing.Dict[int, str] = {}
        for fn in [n for n in ast.walk(tree) if isinstance(n, (ast.FunctionDef, ast.AsyncFunctionDef))]:
            for node in ast.walk(fn):
                owner.setdefault(id(node), fn.name)    # outermost function wins (walk order: outer first)
        del funcs
        alias = import_aliases(tree)
        tf_nodes = {id(n) for r2, _, f2 in tfuncs if r2 == rel for n in ast.walk(f2)}
        for node in ast.walk(tree):
            kind = detect_read(node, alias, owner.get(id(node)))
            if kind is None and id(node) in tf_nodes and isinstance(node, ast.Attribute) and isinstance(node.ctx, ast.Load) \
                    and node.attr in ns_path_members:
                kind = 'RAbsPath'       # a filter/test reaching the Namespace path API: output location
            if kind is None:
                continue
            fn_name = owner.get(id(node), '<module>')
            if kind in ('RResolve', 'RAbsPath'):
                site = classify_path_sink(trees, pars, rel, node)
                if site == 'RdReduced':
                    continue
            elif _diagnostic_only(pars[rel], node):
                site = 'RdDiagnostic'
            elif kind == 'RInterp':
                site = READ_SITE_MAP.get((rel, fn_name, 'RPlatform')) or classify_interp_read(trees, pars, rel, node)
            elif kind == 'RListdir':
                site = classify_listing_sink(trees, pars, rel, node)
            elif kind == 'RLocale':
                site = classify_locale_read(trees, pars, rel, node)
            else:
                site = READ_SITE_MAP.get((rel, fn_name, kind), 'RdUnknown')
            out.append((kind, site, '%s %s line %d' % (rel, fn_name, node.lineno)))
            if kind == 'RClock' and site != 'RdNowUtc':
                clock_ok = False
    # the one clock read must be the assignment to the now_utc global
    f = find_def(trees['jinja/__init__.py'], 'CodeGenerator', '_generate_code')
    assigned = False
    for node in ast.walk(f):
        if isinstance(node, ast.Assign) and len(node.targets) == 1 and ast.unparse(node.targets[0]) == 'self._env.now_utc':
            assigned = ast.unparse(node.value) in ('datetime.datetime.utcnow()', 'datetime.datetime.now(datetime.timezone.utc)',
                                                  'datetime.datetime.now(datetime.UTC)',
                                                  'datetime.datetime.now(datetime.timezone.utc).replace(tzinfo=None)')
    n_clock_in_gen = sum(1 for k, s, _ in out if s == 'RdNowUtc')
    clock_ok = clock_ok and assigned and n_clock_in_gen == 1
    # resolve() in filter_type_to_include_path must sit under `if resolve:`
    inc = find_def(trees['jinja/__init__.py'], 'DSDLCodeGenerator', 'filter_type_to_include_path') if _has(trees['jinja/__init__.py'], 'DSDLCodeGenerator', 'filter_type_to_include_path') else None
    if inc is not None:
        for node in ast.walk(inc):
            if isinstance(node, ast.Call) and isinstance(node.func, ast.Attribute) and node.func.attr in ('resolve', 'absolute'):
                guarded = any(isinstance(i, ast.If) and isinstance(i.test, ast.Name) and i.test.id == 'resolve'
                              and any(node is x for b in i.body for x in ast.walk(b)) for i in ast.walk(inc))
                if not guarded:
                    out.append(('RResolve', 'RdUnknown', 'jinja/__init__.py filter_type_to_include_path: resolve() outside `if resolve:`'))
    return out, clock_ok


def _has(tree: ast.AST, *names: str) -> bool:
    try:
        find_def(tree, *names)
        return True
    except Unsupported:
        return False


# ------------------------------------------------------------------------------------------------------------------
# -- functions that reach templates --------------------------------------------------------------------------------------
FILTER_PREFIXES = ('filter_', 'is_', 'uses_')          # LanguageEnvironment.{FILTER,TEST,USES_QUERY}_NAME_PREFIX
READS_OK_IN_FILTER = {'RdIncludeResolve', 'RdCompareOnly', 'RdDiagnostic'}


def template_functions(trees: typing.Dict[str, ast.Module]) -> typing.List[typing.Tuple[str, str, ast.FunctionDef]]:
    """what nunavut registers by naming convention (CodeGenEnvironment.add_conventional_methods_to_environment and
    _add_support_from_language_module_to_environment use inspect.getmembers + the prefixes): the routines named filter_*/is_*/
    uses_* of every language module lang/<x>/__init__.py, and the methods so named of the generator classes in
    jinja/__init__.py"""
    t = parse('_templates.py')
    consts = {ast.unparse(n.targets[0]): n.value.value for n in ast.walk(t)
              if isinstance(n, ast.Assign) and len(n.targets) == 1 and isinstance(n.value, ast.Constant) and isinstance(n.value.value, str)}
    got = tuple(consts.get(k) for k in ('FILTER_NAME_PREFIX', 'TEST_NAME_PREFIX', 'USES_QUERY_PREFIX'))
    if got != FILTER_PREFIXES:
        raise Unsupported('naming convention of template functions changed: %r' % (got,))
    out = []
    for rel, tree in trees.items():
        parts = rel.split(os.sep)
        if len(parts) == 3 and parts[0] == 'lang' and parts[2] == '__init__.py':
            for n in tree.body:
                if isinstance(n, ast.FunctionDef) and n.name.startswith(FILTER_PREFIXES):
                    out.append((rel, n.name, n))
        elif rel == os.path.join('jinja', '__init__.py'):
            for cls in [c for c in tree.body if isinstance(c, ast.ClassDef)]:
                for n in cls.body:
                    if isinstance(n, ast.FunctionDef) and n.name.startswith(FILTER_PREFIXES):
                        out.append((rel, cls.name + '.' + n.name, n))
    return out


def coq_bool(b: bool) -> str:
    return 'true' if b else 'false'


def build() -> typing.Tuple[str, dict]:
    trees = {rel: parse(rel) for rel in py_files()}
    sites, includes, scanned, name_rows = scan_all_templates(trees)
    reads, clock_ok = ambient_reads(trees)
    facts = {
        'sf_inc_sorted': fact_inc_sorted(),
        'sf_imports_sorted': fact_imports_sorted(),
        'sf_templates_sorted': fact_templates_sorted(),
        'sf_platform_gated': fact_platform_gated(),
        'sf_clock_only_now_utc': clock_ok,
        'sf_audit_threaded': fact_audit_threaded(),
        'sf_gzip_mtime_fixed': fact_gzip_mtime_fixed(),
        'sf_template_sets_pure': fact_template_sets_pure(),
    }
    psorts = path_sorts(trees)
    facts['sf_config_cmdline_order'] = fact_config_cmdline_order(psorts)
    facts['sf_outputs_always_written'] = fact_outputs_always_written()
    sorts = keyed_sorts(trees)
    nat = [t for s_, t, _ in sorts if s_ == 'SortHtmlNatural']
    facts['sf_natsort_total'] = bool(nat) and all(nat)
    # get_nested_namespaces() is sorted by a total key and nothing else iterates _nested_namespaces
    nested_iters = [(site, srt and tot) for site, srt, _, tot in set_iterations(trees) if site in ('SetNestedIter', 'SetNestedBfs')]
    nested_sort = [t for s_, t, _ in sorts if s_ == 'SortNestedNs']
    facts['sf_nested_sorted'] = bool(nested_iters) and all(srt for _, srt in nested_iters) and bool(nested_sort) and all(nested_sort)
    iters = set_iterations(trees)
    frows = name_rows      # every global / filter / test name the templates reference: known to the derived inventory
    lines = [gen.HEADER % 'src/nunavut/lang/{c,cpp,py,html}/{templates,support}/*.j2 and src/nunavut/**/*.py (tools/translators/gen_c07.py)',
             'From Coq Require Import List NArith.', 'From Verif Require Import Repro.', 'Import ListNotations.', 'Open Scope N_scope.', '']
    lines.append('Definition gen_sites : list site := [')
    body = []
    for lcoq, grp, kind, gated, line, rel in sites:
        body.append('  {| s_lang := %s; s_group := %s; s_kind := %s; s_gated := %s; s_line := %d |}  (* %s *)'
                    % (lcoq, grp, kind, coq_bool(gated), line, rel))
    lines.append(';\n'.join(body))
    lines.append('].\n')
    lines.append('Definition gen_set_iters : list (set_site * bool * bool) := [')
    lines.append(';\n'.join('  (%s, %s, %s)  (* %s *)' % (s_, coq_bool(srt), coq_bool(tot), d) for s_, srt, d, tot in iters))
    lines.append('].\n')
    lines.append('Definition gen_sorts : list (sort_site * bool) := [')
    lines.append(';\n'.join('  (%s, %s)  (* %s *)' % (a, coq_bool(b), d) for a, b, d in sorts))
    lines.append('].\n')
    lines.append('Definition gen_path_sorts : list path_sort_site := [')
    lines.append(';\n'.join('  %s  (* %s *)' % (a, d) for a, d in psorts))
    lines.append('].\n')
    lines.append('Definition gen_ambient_reads : list (read_kind * read_site) := [')
    lines.append(';\n'.join('  (%s, %s)  (* %s *)' % (k, s_, d) for k, s_, d in reads))
    lines.append('].\n')
    lines.append('Definition gen_filters : list (N * bool) := [')
    lines.append(';\n'.join('  (%d, %s)  (* %s *)' % (i, coq_bool(ok), d) for i, (ok, d) in enumerate(frows)))
    lines.append('].\n')
    lines.append('Definition gen_includes : list (lang * bool) := [')
    lines.append(';\n'.join('  (%s, %s)  (* %s *)' % (l, coq_bool(ok), d) for l, ok, d in includes))
    lines.append('].\n')
    lines.append('Definition gen_scanned : list (lang * N) := [%s].\n' % '; '.join('(%s, %d)' % (l, n) for l, n in scanned))
    lines.append('Definition gen_tables : aux_tables := {| t_set_iters := gen_set_iters; t_reads := gen_ambient_reads; '
                 't_path_sorts := gen_path_sorts; t_sorts := gen_sorts; t_filters := gen_filters; t_includes := gen_includes; '
                 't_scanned := gen_scanned |}.\n')
    lines.append('Definition gen_src_facts : src_facts := {|')
    lines.append(';\n'.join(['  %s := %s' % (k, coq_bool(v)) for k, v in facts.items()] + ['  sf_tables := gen_tables']))
    lines.append('|}.')
    info = {'sites': [dict(lang=a, group=b, kind=c, gated=d, line=e, file=f) for a, b, c, d, e, f in sites], 'facts': facts,
            'set_iters': [dict(site=a, sorted=b, where=c, total=d) for a, b, c, d in iters],
            'filters': [dict(ok=a, where=b) for a, b in frows], 'includes': [dict(lang=a, ok=b, where=c) for a, b, c in includes],
            'reads': [dict(kind=a, site=b, where=c) for a, b, c in reads],
            'sorts': [dict(site=a, total=b, where=c) for a, b, c in sorts]}
    return '\n'.join(lines) + '\n', info


def gen_repro() -> typing.Tuple[bool, str]:
    try:
        text, info = build()
    except (Unsupported, SyntaxError, OSError, KeyError) as ex:
        gen.write_if_changed(OUT, gen.HEADER % 'src/nunavut' + '(* translator failed closed: %s *)\n' % str(ex).replace('*)', '* )'))
        return False, 'gen_c07 failed closed: %s' % ex
    gen.write_if_changed(OUT, text)
    n_ungated = sum(1 for s in info['sites'] if not s['gated'] and s['kind'] != 'KPlatform')
    return True, 'ok (%d template use sites, %d ungated; %d included files; %d template names classified; %d set iterations; %d ambient reads; facts %s)' % (
        len(info['sites']), n_ungated, len(info['includes']), len(info['filters']), len(info['set_iters']), len(info['reads']),
        ','.join(k for k, v in info['facts'].items() if not v) or 'all true')


GENERATORS = {'repro': gen_repro}
