#!/venv/bin/python
"""C05 implementation-side harness (run with PYTHONPATH=<repo>/src): evaluates the ORIGINAL Python functions that
tools/translators/gen_c05.py translates, so that the check can compare them with the translated Gallina (translator self-test).

stdin : {"b2b": [n, ...], "fit": [w, ...], "lit": [[unsigned, w, value], ...], "flt": [[w, num, den], ...],
         "sto": [[kind b|u|s|f|v, w, cast mode s|t], ...], "lang": "c"|"cpp"}
stdout: {"b2b": ["<n>"|"none"], "fit": [...], "lit": ["<token>"], "flt": ["<full rendered literal>"], "cast_format": "..."}"""
import fractions
import json
import sys


def main() -> int:
    req = json.load(sys.stdin)
    import pydsdl
    from nunavut.jinja import DSDLCodeGenerator
    from nunavut.lang import LanguageContextBuilder
    from nunavut.lang.c import _CFit, filter_literal, filter_to_standard_bit_length

    lang = LanguageContextBuilder(include_experimental_languages=True).set_target_language(req.get('lang', 'c')).create().get_target_language()
    out = {'b2b': [], 'fit': [], 'std': [], 'lit': [], 'flt': [], 'cast_format': lang.get_option('cast_format')}
    for n in req.get('b2b', []):
        try:
            out['b2b'].append(str(DSDLCodeGenerator.filter_bits2bytes_ceil(n)))
        except ValueError:
            out['b2b'].append('none')
    for w in req.get('fit', []):
        try:
            out['fit'].append(str(int(_CFit.get_best_fit(w).value)))
        except RuntimeError:
            out['fit'].append('none')
    sat = pydsdl.PrimitiveType.CastMode.SATURATED
    for unsigned, w, v in req.get('lit', []):
        ty = pydsdl.UnsignedIntegerType(w, sat) if unsigned else pydsdl.SignedIntegerType(w, sat)
        out['lit'].append(filter_literal(lang, int(v), ty))
        out['std'].append(str(filter_to_standard_bit_length(ty)))
    for w, n, d in req.get('flt', []):
        out['flt'].append(filter_literal(lang, fractions.Fraction(int(n), int(d)), pydsdl.FloatType(w, sat)))
    if req.get('lang', 'c') == 'cpp':
        from nunavut.lang.cpp import filter_type_from_primitive
    else:
        from nunavut.lang.c import filter_type_from_primitive
    trunc = pydsdl.PrimitiveType.CastMode.TRUNCATED
    out['sto'] = []
    for kind, w, cm in req.get('sto', []):
        mode = sat if cm == 's' else trunc
        try:
            ty = {'b': lambda: pydsdl.BooleanType(), 'u': lambda: pydsdl.UnsignedIntegerType(w, mode),
                  's': lambda: pydsdl.SignedIntegerType(w, sat), 'f': lambda: pydsdl.FloatType(w, mode), 'v': lambda: pydsdl.VoidType(w)}[kind]()
        except TypeError:
            ty = pydsdl.BooleanType(mode)
        try:
            name = filter_type_from_primitive(lang, ty)
        except RuntimeError:
            name = 'none'
        try:
            s = '1' if DSDLCodeGenerator.is_saturated(ty) else '0'
        except TypeError:
            s = 'none'
        out['sto'].append('%s sat=%s' % (name, s))
    import nunavut.lang.c as cmod
    out['exact'] = None
    if hasattr(cmod, '_is_exact_double'):
        out['exact'] = ['1' if cmod._is_exact_double(int(x)) else '0' for x in req.get('exact', [])]
    json.dump(out, sys.stdout)
    return 0


if __name__ == '__main__':
    sys.exit(main())
