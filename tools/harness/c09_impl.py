"""C09 harness, executed with PYTHONPATH=<repo>/src (core.repo_env()) so that the working tree is exercised.

  c09_impl.py dump     prints one JSON document: for c, cpp, py the inputs TokenEncoder.strop actually works with
                       (the attributes of the encoder instance `Language.filter_id` uses, i.e. after all of the
                       configuration plumbing: YAML -> LanguageConfig -> Language -> TokenEncoder.__init__)
  c09_impl.py run      stdin: {"cases": [[lang, id_type, string], ...], "twice": bool}
                       optional "overrides": {config key: value} applied with set_target_language_configuration_override
                       stdout: {"out": ["ok:<token>" | "err:<ExceptionClass>", ...], "second": [...]} where `second`
                       is the result of calling filter_id again on the same arguments in the same process
                       (served by functools.lru_cache unless evicted)
  c09_impl.py multi    several Language objects with different overrides in one process (see multi())
The public API is used to get at the language objects: LanguageContextBuilder(...).create().get_target_language()
and Language.filter_id(instance, id_type)."""
import json
import re
import sys

LANGS = ['c', 'cpp', 'py']


def language(name, overrides=None):
    from nunavut.lang import LanguageContextBuilder
    b = LanguageContextBuilder(include_experimental_languages=True).set_target_language(name)
    for k, v in (overrides or {}).items():
        b = b.set_target_language_configuration_override(k, v)
    return b.create().get_target_language()


def _handler(fn):
    if fn is None:
        return None
    code = getattr(fn, '__code__', None)
    return {'qualname': getattr(fn, '__qualname__', repr(fn)),
            'file': code.co_filename if code else None,
            'line': code.co_firstlineno if code else None}


def _pmap(m):
    return {k: [[p.pattern, p.flags] if isinstance(p, re.Pattern) else ['<not a compiled pattern: %r>' % (p,), -1]
                for p in v] for k, v in m.items()}


def dump():
    import builtins
    import keyword
    import os
    overrides = json.loads(os.environ.get('C09_OVERRIDES', 'null'))
    out = {'python': sys.version.split()[0], 'langs': {}}
    for name in LANGS:
        lang = language(name, overrides)
        te = lang._token_encoder  # the instance filter_id strops with (cached property of the Language object)
        out['langs'][name] = {
            'language_class': type(lang).__module__ + '.' + type(lang).__qualname__,
            'enable_stropping': bool(lang.enable_stropping),
            'reserved': [w if isinstance(w, str) else {'not_a_str': repr(w)} for w in te._reserved_identifiers],
            'patterns': _pmap(te._reserved_token_patterns_by_type),
            'rules': _pmap(te._token_encoding_rules_by_identifier_type),
            'prefix': te._stropping_prefix,
            'suffix': te._stropping_suffix,
            'enc_prefix': te._encoding_prefix,
            'ws_char': te._whitespace_encoding_char,
            'collapse': te._collapse_whitespace_when_encoding,
            'strop_handler': _handler(te._stropping_failure_handler),
            'enc_handler': _handler(te._encoding_failure_handler),
            'lru_cache': hasattr(type(te).strop, 'cache_info'),
        }
    out['py_kw_builtins'] = sorted(set(map(str, list(keyword.kwlist) + dir(builtins))))
    out['kwlist'] = list(keyword.kwlist)
    out['isspace'] = _ranges(lambda ch: ch.isspace())
    json.dump(out, sys.stdout)


def _ranges(pred):
    out, start = [], None
    for c in range(0x110000):
        if pred(chr(c)):
            if start is None:
                start = c
        elif start is not None:
            out.append([start, c - 1])
            start = None
    if start is not None:
        out.append([start, 0x10FFFF])
    return out


class _Named:
    def __init__(self, name):
        self.name = name


def _instance(s):
    """a case's third field is a str, or {"named": x} (an object whose `name` attribute is x) or {"int": n}"""
    if isinstance(s, dict):
        if 'named' in s:
            return _Named(s['named'])
        return int(s['int'])
    return s


def one(lang, ty, s):
    s = _instance(s)
    try:
        t = lang.filter_id(s, ty)
    except Exception as ex:  # noqa
        return 'err:' + type(ex).__name__
    if not isinstance(t, str):
        return 'err:non-str result %r' % (t,)
    return 'ok:' + t


def run():
    doc = json.load(sys.stdin)
    langs = {}
    out, second = [], []
    for ln, ty, s in doc['cases']:
        if ln not in langs:
            langs[ln] = language(ln, doc.get('overrides'))
        out.append(one(langs[ln], ty, s))
    if doc.get('twice'):
        for ln, ty, s in doc['cases']:
            second.append(one(langs[ln], ty, s))
    sys.stdout.write(json.dumps({'out': out, 'second': second}, ensure_ascii=True))


def multi():
    """stdin: {"objects": [{"lang": L, "overrides": {...}|null}, ...], "cases": [[id_type, string], ...], "mode": "create_all_first"|"interleaved"|"alternating"}
    Several Language objects (possibly of the same language, with different configuration overrides) live in ONE process.
    stdout: {"multi": [[result per case] per object (first use), ...], "again": [[...] per object (used again after all others)]}"""
    doc = json.load(sys.stdin)
    objs, first = [], []
    if doc.get('mode') == 'alternating':
        # call by call: every case on object 0, then on object 1, ... (one shared lru_cache, evictions when many cases)
        objs = [language(o['lang'], o.get('overrides')) for o in doc['objects']]
        first = [[] for _ in objs]
        for ty, s in doc['cases']:
            for i, lang in enumerate(objs):
                first[i].append(one(lang, ty, s))
    elif doc.get('mode') == 'interleaved':
        for o in doc['objects']:
            lang = language(o['lang'], o.get('overrides'))
            objs.append(lang)
            first.append([one(lang, ty, s) for ty, s in doc['cases']])
    else:
        for o in doc['objects']:
            objs.append(language(o['lang'], o.get('overrides')))
        for lang in objs:
            first.append([one(lang, ty, s) for ty, s in doc['cases']])
    again = [[one(lang, ty, s) for ty, s in doc['cases']] for lang in objs]
    sys.stdout.write(json.dumps({'multi': first, 'again': again}, ensure_ascii=True))


if __name__ == '__main__':
    if sys.argv[1:] == ['dump']:
        dump()
    elif sys.argv[1:] == ['multi']:
        multi()
    else:
        run()
