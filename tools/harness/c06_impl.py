"""C06 implementation-side harness (run with PYTHONPATH=<repo>/src, /venv/bin/python).

stdin : {"cases": [case...], "configs": [{"lang","std","pod"}...], "workdir": dir, "jobs": n}
        case = {"roots": {root: {relpath: text}}, "main": root, "lookup": [root...]}
stdout: {"out": [per case: {"valid": bool, "reason": str, "types": [...], "runs": {cfgkey: {...}}}]}

For every case: write the DSDL trees, let pydsdl decide validity (read_namespace of every root with the others as
lookup directories), dump the composite types (identity + what DependencyBuilder looks at), then run the real nnvg
CLI once per root and configuration into one output directory per configuration and report the generated file set
plus, per file, the #include / import lines, the include guard and the namespace open/close lines.
No compiler is run here (tools/checks/c06.py does that, in parallel)."""
import json
import os
import re
import subprocess
import sys
from concurrent.futures import ThreadPoolExecutor

import pydsdl


def enc_type(t) -> str:
    if isinstance(t, pydsdl.BooleanType):
        return 'b'
    if isinstance(t, pydsdl.IntegerType):
        return 'i'
    if isinstance(t, pydsdl.FloatType):
        return 'f'
    if isinstance(t, pydsdl.VoidType):
        return 'v'
    if isinstance(t, pydsdl.FixedLengthArrayType):
        return 'A' + enc_type(t.element_type)
    if isinstance(t, pydsdl.VariableLengthArrayType):
        return 'V' + enc_type(t.element_type)
    if isinstance(t, pydsdl.CompositeType):
        return 'C:%s:%s:%d:%d' % (t.full_namespace, t.short_name, t.version.major, t.version.minor)
    raise ValueError(repr(t))


def is_union(t) -> bool:
    inner = getattr(t, 'inner_type', t)
    return isinstance(t, pydsdl.UnionType) or isinstance(inner, pydsdl.UnionType)


def dump_consts(sections) -> list:
    out = []
    for s in sections:
        for c in s.constants:
            v = c.value.native_value
            kind = 'f' if isinstance(c.data_type, pydsdl.FloatType) else ('b' if isinstance(c.data_type, pydsdl.BooleanType) else 'i')
            try:
                num, den = str(v.numerator), str(v.denominator)
            except AttributeError:
                num, den = str(int(v)), '1'
            out.append({'name': c.name, 'kind': kind, 'num': num, 'den': den})
    return out


def dump_type(t, root: str) -> dict:
    if isinstance(t, pydsdl.ServiceType):
        kind = 'V'
        attrs = [a.data_type for a in t.request_type.attributes] + [a.data_type for a in t.response_type.attributes]
        fields = [a for a in t.request_type.attributes] + [a for a in t.response_type.attributes]
        ru, pu = is_union(t.request_type), is_union(t.response_type)
        sections = [t.request_type, t.response_type]
    else:
        kind = 'U' if is_union(t) else 'S'
        attrs = [a.data_type for a in t.attributes]
        fields = list(t.attributes)
        ru = pu = False
        sections = [t]
    return {
        'ns': t.full_namespace.split('.'), 'short': t.short_name, 'major': t.version.major, 'minor': t.version.minor,
        'full_name': t.full_name, 'kind': kind, 'req_union': ru, 'resp_union': pu, 'attrs': [enc_type(a) for a in attrs],
        # isinstance(dependant, pydsdl.UnionType) as DependencyBuilder sees it (a delimited union is a DelimitedType)
        'isinstance_union': isinstance(t, pydsdl.UnionType),
        'names': [f.name for f in fields if f.name],
        'deprecated': bool(t.deprecated), 'root': root, 'fixed_port_id': t.fixed_port_id,
        'empty_sections': sum(1 for s in sections if len([f for f in s.fields_except_padding]) == 0),
        'padding_only_sections': sum(1 for s in sections if len(s.fields) > 0 and len(s.fields_except_padding) == 0),
        'docs': [d for d in [getattr(t, 'doc', '')] + [getattr(s_, 'doc', '') for s_ in sections] + [getattr(a, 'doc', '') for s_ in sections for a in s_.attributes] if d],
        'source': os.path.basename(str(t.source_file_path)),
        'consts': dump_consts(sections),
        # per section: the non-padding fields in declaration order as [name, type encoding]
        'fields': [[[f.name, enc_type(f.data_type)] for f in sec.fields_except_padding] for sec in sections],
        'bool_array_names': [f.name for f in fields if f.name and isinstance(f.data_type, pydsdl.ArrayType)
                             and isinstance(f.data_type.element_type, pydsdl.BooleanType)],
        'delimited': [isinstance(s, pydsdl.DelimitedType) for s in sections],
        # per section: every attribute name that becomes an identifier of the generated class/struct (fields and constants)
        'section_names': [[a.name for a in sec.attributes if a.name] for sec in sections],
    }


_LANGS = {}


def strop_table(names) -> dict:
    """Language.filter_id(name) (default id type) of the REAL generator for c, cpp and py: used by the check only to recognise the
    documented exclusion (distinct DSDL names folded onto one identifier by the one-way stropping)"""
    out = {}
    try:
        from nunavut.lang import LanguageContextBuilder
        for ln in ('c', 'cpp', 'py'):
            if ln not in _LANGS:
                _LANGS[ln] = LanguageContextBuilder(include_experimental_languages=True).set_target_language(ln).create().get_target_language()
            tbl = {}
            for n in names:
                try:
                    tbl[n] = _LANGS[ln].filter_id(n)
                except Exception as ex:  # noqa
                    tbl[n] = None
            out[ln] = tbl
    except Exception as ex:  # noqa
        out['error'] = repr(ex)
    return out


def write_case(case: dict, base: str) -> dict:
    dirs = {}
    for root, files in case['roots'].items():
        d = os.path.join(base, 'dsdl', root)
        os.makedirs(d, exist_ok=True)
        dirs[root] = d
        for rel, text in files.items():
            p = os.path.join(d, rel)
            os.makedirs(os.path.dirname(p), exist_ok=True)
            with open(p, 'w', encoding='utf-8') as f:
                f.write(text)
    return dirs


INC_RE = re.compile(r'^\s*#\s*include\s+(\S+)\s*(?://.*)?$')
GUARD_RE = re.compile(r'^#ifndef\s+(\w+)\s*$')
NSO_RE = re.compile(r'^namespace (\w+)$')
NSC_RE = re.compile(r'^\} // namespace (\w+)$')
FULLNAME_RE = re.compile(r'^(?://|#) Full name\s*:\s*(\S+)\s*$')
VERSION_RE = re.compile(r'^(?://|#) (?:Type )?Version\s*:\s*(\d+)\.(\d+)\s*$')
IMP_RE = re.compile(r'^import (\S+)$')
FROM_RE = re.compile(r'^from (\S+) import (\S+) as (\S+)$')
ALIAS_RE = re.compile(r'^(\w+) = (\w+)$')


def scan_file(path: str, lang: str) -> dict:
    info = {'includes': [], 'guard': None, 'ns_open': [], 'ns_close': [], 'imports': [], 'from': [], 'braces': None}
    try:
        with open(path, encoding='utf-8') as f:
            text = f.read()
    except Exception as ex:  # noqa
        info['error'] = repr(ex)
        return info
    lines = text.splitlines()
    for i, l in enumerate(lines):
        if i < 40:
            m = FULLNAME_RE.match(l)
            if m:
                info['full_name'] = m.group(1)
            m = VERSION_RE.match(l)
            if m:
                info['version'] = [int(m.group(1)), int(m.group(2))]
        if lang in ('c', 'cpp'):
            m = INC_RE.match(l)
            if m:
                info['includes'].append(m.group(1))
            m = GUARD_RE.match(l)
            if m and info['guard'] is None:
                nxt = lines[i + 1] if i + 1 < len(lines) else ''
                info['guard'] = [m.group(1), nxt.strip()]
            if lang == 'cpp':
                m = NSO_RE.match(l)
                if m and i + 1 < len(lines) and lines[i + 1] == '{':
                    info['ns_open'].append(m.group(1))
                m = NSC_RE.match(l)
                if m:
                    info['ns_close'].append(m.group(1))
        else:
            m = IMP_RE.match(l)
            if m:
                info['imports'].append(m.group(1))
            m = FROM_RE.match(l)
            if m:
                info['from'].append([m.group(1), m.group(2), m.group(3)])
    if lang == 'cpp':
        info['last_endif'] = lines[-1] if lines else ''
    if lang == 'py':
        # every import statement of the RENDERED module, at any depth (module level, class bodies, function bodies)
        import ast as _ast
        info['all_imports'] = []
        try:
            tree = _ast.parse(text, filename=path)
            depth_of = {}

            def walk(node, depth, func):
                for ch in _ast.iter_child_nodes(node):
                    scope = isinstance(ch, (_ast.FunctionDef, _ast.AsyncFunctionDef, _ast.ClassDef, _ast.Lambda))
                    d = depth + (1 if scope else 0)
                    fn = (func or getattr(ch, 'name', '<lambda>')) if scope else func      # outermost enclosing def/class
                    if isinstance(ch, _ast.Import):
                        for a in ch.names:
                            info['all_imports'].append({'module': a.name, 'level': 0, 'names': [], 'depth': depth, 'line': ch.lineno, 'as': a.asname,
                                                        'func': func})
                    elif isinstance(ch, _ast.ImportFrom):
                        info['all_imports'].append({'module': ch.module or '', 'level': ch.level, 'names': [a.name for a in ch.names], 'depth': depth,
                                                    'line': ch.lineno, 'as': None, 'func': func})
                    walk(ch, d, fn)
            walk(tree, 0, None)
            # dynamic imports by name
            for n in _ast.walk(tree):
                if isinstance(n, _ast.Call) and ((isinstance(n.func, _ast.Name) and n.func.id == '__import__') or
                                                 (isinstance(n.func, _ast.Attribute) and n.func.attr == 'import_module')):
                    arg = n.args[0].value if n.args and isinstance(n.args[0], _ast.Constant) else None
                    info['all_imports'].append({'module': arg if isinstance(arg, str) else '?dynamic', 'level': 0, 'names': [], 'depth': 9, 'line': n.lineno, 'as': None, 'func': None})
            info['imports'] = [i['module'] for i in info['all_imports'] if i['depth'] == 0 and not i['names'] and i['as'] is None and i['level'] == 0]
            info['from'] = [[i['module'], n, n] for i in info['all_imports'] if i['depth'] == 0 and i['names'] and i['level'] == 0 for n in i['names']]
        except SyntaxError as ex:
            info['syntax_error'] = '%s (line %s)' % (ex.msg, ex.lineno)
    return info


def cfg_key(c: dict) -> str:
    k = '%s/%s/%s' % (c['lang'], c.get('std') or '-', 'pod' if c['pod'] else 'ser')
    if c.get('opts'):
        k += '/' + '+'.join(o.lstrip('-') for o in c['opts'])
    if c.get('yaml'):
        k += '/yaml:' + ','.join('%s=%s' % (kk, vv) for sec in sorted(c['yaml']) for kk, vv in sorted(c['yaml'][sec].items()))
    return k


def nnvg_cmd(cfg: dict, root_dir: str, lookups, out: str):
    cmd = [sys.executable, '-m', 'nunavut', '--target-language', cfg['lang'], '--outdir', out, '--allow-unregulated-fixed-port-id']
    if cfg['lang'] == 'cpp':
        cmd += ['--experimental-languages', '--language-standard', cfg['std']]
    if cfg['pod']:
        cmd += ['--omit-serialization-support']
    cmd += list(cfg.get('opts') or [])          # language options / generic generator flags (CLI), e.g. --target-endianness big
    if cfg.get('yaml'):
        # a --configuration file overriding keys of a language section, e.g. {"nunavut.lang.cpp": {"use_standard_types": False}}
        import json as _json
        yp = os.path.join(out, '..', 'cfg_%s.yaml' % re.sub(r'[^A-Za-z0-9]', '_', _json.dumps(cfg['yaml'], sort_keys=True))[:80])
        with open(yp, 'w', encoding='utf-8') as f:
            f.write(_json.dumps(cfg['yaml']))      # JSON is YAML
        cmd[3:3] = ['--configuration', yp]      # nargs='*': must be followed by another option, not by the positional root
    for l in lookups:
        cmd += ['--lookup-dir', l]
    cmd.append(root_dir)
    return cmd


def run_cfg(case: dict, dirs: dict, base: str, cfg: dict) -> dict:
    out = os.path.join(base, 'out', re.sub(r'[^A-Za-z0-9_.-]', '_', cfg_key(cfg).replace('c++', 'cpp')))
    os.makedirs(out, exist_ok=True)
    res = {'out': out, 'ok': True, 'log': '', 'files': {}, 'cmds': []}
    roots = [case['main']] + list(case.get('lookup', []))
    for r in roots:
        lookups = [dirs[o] for o in roots if o != r]
        cmd = nnvg_cmd(cfg, dirs[r], lookups, out)
        res['cmds'].append(cmd[1:])
        try:
            p = subprocess.run(cmd, stdout=subprocess.PIPE, stderr=subprocess.STDOUT, text=True, errors='replace', timeout=300)
            rc, log = p.returncode, p.stdout
        except subprocess.TimeoutExpired:
            rc, log = 124, 'timeout'
        if rc != 0:
            res['ok'] = False
            res['log'] += '[root %s rc=%d]\n%s\n' % (r, rc, log[-3000:])
    for dp, _, names in os.walk(out):
        for n in names:
            p = os.path.join(dp, n)
            rel = os.path.relpath(p, out)
            res['files'][rel] = scan_file(p, cfg['lang'])
    return res


def do_case(case: dict, base: str, configs, pool) -> dict:
    dirs = write_case(case, base)
    roots = [case['main']] + list(case.get('lookup', []))
    types = []
    try:
        for r in roots:
            ts = pydsdl.read_namespace(dirs[r], [dirs[o] for o in roots if o != r], allow_unregulated_fixed_port_id=True)
            types += [dump_type(t, r) for t in ts]
    except pydsdl.FrontendError as ex:
        return {'valid': False, 'reason': '%s: %s' % (type(ex).__name__, ex), 'types': [], 'runs': {}}
    except Exception as ex:  # noqa  (pydsdl internal error: not a valid input for our purposes either)
        return {'valid': False, 'reason': 'pydsdl raised %r' % ex, 'types': [], 'runs': {}}
    names = set()
    for t in types:
        for sec in t['section_names']:
            names.update(sec)
    strop = strop_table(sorted(names))
    futs = {cfg_key(c): pool.submit(run_cfg, case, dirs, base, c) for c in configs}
    return {'valid': True, 'reason': '', 'types': types, 'dirs': dirs, 'runs': futs, 'strop': strop}


def main() -> None:
    doc = json.load(sys.stdin)
    outs = []
    with ThreadPoolExecutor(max_workers=int(doc.get('jobs', 6))) as pool:
        for i, case in enumerate(doc['cases']):
            base = os.path.join(doc['workdir'], 'case%03d' % (i + int(doc.get('index_base', 0))))
            os.makedirs(base, exist_ok=True)
            outs.append(do_case(case, base, doc['configs'], pool))
        for o in outs:
            o['runs'] = {k: f.result() for k, f in o['runs'].items()}
    sys.stdout.write('\n@@C06@@' + json.dumps({'out': outs}))


if __name__ == '__main__':
    main()
