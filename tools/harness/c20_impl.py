"""C20 harness: runs the real HTML generator of the tree under PYTHONPATH on DSDL namespaces given as JSON and dumps what the
templates read from pydsdl/nunavut as an s-expression for the extracted Coq model.

stdin : {"work": <scratch dir>, "cases": [{"id": str, "roots": {root_name: {relative path: dsdl text}}}],
         "selftest": {...optional, see selftest()}}
stdout: {"out": [{"id":, "outdir": <dir with the generated tree>, "site": <sexp>, "cli": [[cmd, rc, tail]], "err": str|None}],
         "selftest": {...}}
Generation is done with the real CLI (`python -m nunavut --target-language html`), one run per root namespace into one
output directory, every other root passed as --lookup-dir.  The dump is made in-process from the same pydsdl objects.
"""
import html
import json
import os
import re
import subprocess
import sys
import traceback

import pydsdl


def enc(s: str) -> str:
    return '.'.join(str(ord(c)) for c in s) if s else 'e'


def b(x) -> str:
    return '1' if x else '0'


def natural_key(name: str):
    return [int(t) if t.isdigit() else t.lower() for t in re.split('([0-9]+)', name)]


def dt(t) -> str:
    if isinstance(t, pydsdl.FixedLengthArrayType):
        return '(dfix %s %d)' % (dt(t.element_type), t.capacity)
    if isinstance(t, pydsdl.VariableLengthArrayType):
        return '(dvar %s %d)' % (dt(t.element_type), t.capacity)
    if isinstance(t, pydsdl.PrimitiveType):
        return '(dprim %s %s)' % (b(t.cast_mode == t.cast_mode.SATURATED), enc(str(t)))
    return '(dother %s)' % enc(str(t))


def di(a) -> str:
    if isinstance(a, pydsdl.PaddingField):
        return '(dpad %s)' % enc(str(a))
    if isinstance(a, pydsdl.Field):
        return '(dfield %s %s)' % (dt(a.data_type), enc(a.name))
    if isinstance(a, pydsdl.Constant):
        return '(dconst %s %s %s)' % (dt(a.data_type), enc(a.name), enc('{}'.format(a.value)))
    raise ValueError('attribute kind %r' % (a,))


_TESTS = {}
DISP = []      # (s-expression of the node, filter_display_type of the real object)


def note_disp(sx: str, obj) -> None:
    from nunavut.lang.html import filter_display_type
    if len(DISP) < 400:
        DISP.append([sx, filter_display_type(obj)])


def test(name: str, x) -> bool:
    """the Jinja test `x is <name>` exactly as the generator registers it"""
    if not _TESTS:
        from nunavut.jinja import DSDLCodeGenerator
        _TESTS.update(DSDLCodeGenerator._create_all_dsdl_tests())
        _TESTS['deprecated'] = DSDLCodeGenerator.is_deprecated
        _TESTS['service_request'] = DSDLCodeGenerator.is_service_request
    return bool(_TESTS[name](x))


def ty(t) -> str:
    if test('ArrayType', t):
        e = t.element_type
        inner = ty(e) if test('CompositeType', e) else '(prim %s)' % enc(str(e))
        note_disp(dt(t), t)
        return '(arr %s %s %s %s)' % (enc(str(e)), b(test('deprecated', t)), dt(t), inner)
    assert isinstance(t, pydsdl.CompositeType), t
    attrs = []
    for a in t.attributes:
        if test('ArrayType', a.data_type) or test('CompositeType', a.data_type):
            attrs.append('(nested %s %s %s)' % (enc(a.name), enc(a.doc), ty(a.data_type)))
        else:
            mx = a.data_type.bit_length_set.max or 0
            note_disp(di(a), a)
            attrs.append('(plain %s %s %s %s)' % (di(a), b(test('Field', a)), b(mx % 8 == 0), enc(a.doc)))
    return '(comp %s %d %d %s %s %s %s %s %s %s %s %s%s)' % (
        enc(t.full_name), t.version[0], t.version[1], enc(t.root_namespace), enc(t.full_namespace), b(t.has_parent_service),
        b(test('deprecated', t)),
        str(t.fixed_port_id) if t.has_fixed_port_id else '-', b(test('UnionType', t)),
        b(test('ServiceType', t)), b(test('service_request', t)), enc(t.doc), ''.join(' ' + x for x in attrs))


def ns(n) -> str:
    nested = [t for t, _ in n.get_nested_types()]
    docs = ' '.join('(%s %s)' % (enc(t.short_name), enc(t.doc)) for t in nested)
    types = ' '.join('(%s %s)' % (enc(t.short_name), ty(t)) for t in sorted(nested, key=lambda t: natural_key(t.full_name)))
    subs = ''.join(' ' + ns(s) for s in sorted(n.get_nested_namespaces(), key=lambda s: natural_key(s.full_name)))
    return '(ns %s (docs %s) (types %s)%s)' % (enc(n.full_name), docs, types, subs)


def run_case(work: str, case: dict) -> dict:
    from nunavut import build_namespace_tree
    from nunavut.lang import LanguageContextBuilder
    res = {'id': case['id'], 'err': None, 'cli': []}
    cdir = os.path.join(work, case['id'])
    dsdl = os.path.join(cdir, 'dsdl')
    out = os.path.join(cdir, 'out')
    os.makedirs(out)
    roots = sorted(case['roots'])
    for r in roots:
        for rel, text in case['roots'][r].items():
            p = os.path.join(dsdl, r, rel)
            os.makedirs(os.path.dirname(p), exist_ok=True)
            with open(p, 'w', encoding='utf-8') as f:
                f.write(text)
    res['outdir'] = out
    sexps = []
    for r in roots:
        cmd = [sys.executable, '-m', 'nunavut', '--experimental-languages', '--target-language', 'html',
               '--allow-unregulated-fixed-port-id', '-O', out]
        for o in roots:
            if o != r:
                cmd += ['--lookup-dir', os.path.join(dsdl, o)]
        cmd.append(os.path.join(dsdl, r))
        p = subprocess.run(cmd, stdout=subprocess.PIPE, stderr=subprocess.STDOUT, text=True, errors='replace', timeout=300)
        res['cli'].append([' '.join(cmd[1:]), p.returncode, p.stdout[-1500:]])
        if p.returncode != 0:
            res['err'] = 'nnvg exit %d for root %s' % (p.returncode, r)
        if r == roots[0] and len(roots) > 1:
            # the tree as the FIRST run leaves it: the other roots were only looked up (--lookup-dir), not generated
            import shutil
            shutil.copytree(out, out + '_first')
            res['outdir_first'] = out + '_first'
    try:
        lctx = LanguageContextBuilder(include_experimental_languages=True).set_target_language('html').create()
        for r in roots:
            types = pydsdl.read_namespace(os.path.join(dsdl, r), [os.path.join(dsdl, o) for o in roots if o != r],
                                          allow_unregulated_fixed_port_id=True)
            tree = build_namespace_tree(types, os.path.join(dsdl, r), out, lctx)
            sexps.append(ns(tree))
        res['site'] = '(site %s)' % ' '.join(sexps)
        res['site_first'] = '(site %s)' % sexps[0]
        res['disp'] = list(DISP)
        del DISP[:]
    except Exception:  # noqa
        res['err'] = (res['err'] or '') + ' dump failed: ' + traceback.format_exc()[-1500:]
    return res


def selftest(req: dict) -> dict:
    """the Python originals of the translated/hand-modelled pure functions on the given inputs"""
    from nunavut.lang.html import filter_make_unique, filter_tag_id, filter_url_from_type, filter_namespace_doc
    from nunavut.lang._common import UniqueNameGenerator
    from nunavut.jinja.jinja2 import select_autoescape
    try:
        from nunavut.jinja.markupsafe import escape as ms_escape
    except Exception:  # noqa
        from nunavut.jinja.jinja2.utils import escape as ms_escape
    out = {}
    out['escape'] = [[html.escape(s), str(ms_escape(s))] for s in req.get('escape', [])]
    uniq = []
    for seq in req.get('uniq', []):
        UniqueNameGenerator.reset()
        uniq.append([filter_make_unique(None, s) for s in seq])
    out['uniq'] = uniq

    class V:
        def __init__(self, a, bb):
            self.major, self.minor = a, bb

        def __getitem__(self, i):
            return (self.major, self.minor)[i]

    class T:
        pass
    tags = []
    for full, major, minor, root, fullns, haspar in req.get('tag', []):
        t = T()
        t.full_name, t.version, t.root_namespace, t.full_namespace, t.has_parent_service = full, V(major, minor), root, fullns, haspar
        tags.append([filter_tag_id(t), filter_url_from_type(t)])
    out['tag'] = tags
    # the autoescape decision exactly as CodeGenEnvironment configures it
    import ast
    import inspect
    import nunavut.jinja.environment as envmod
    src = inspect.getsource(envmod)
    call = None
    for n in ast.walk(ast.parse(src)):
        if isinstance(n, ast.Call) and isinstance(n.func, ast.Name) and n.func.id == 'select_autoescape':
            call = n
    kw = {k.arg: ast.literal_eval(k.value) for k in call.keywords} if call is not None else None
    if kw is not None:
        f = select_autoescape(**kw)
        out['autoescape'] = [bool(f(nm)) for nm in req.get('autoescape', [])]
    return out


def main() -> None:
    req = json.load(sys.stdin)
    outs = []
    for c in req.get('cases', []):
        try:
            outs.append(run_case(req['work'], c))
        except Exception:  # noqa
            outs.append({'id': c.get('id'), 'err': 'harness: ' + traceback.format_exc()[-1500:], 'cli': []})
    doc = {'out': outs}
    if 'selftest' in req:
        try:
            doc['selftest'] = selftest(req['selftest'])
        except Exception:  # noqa
            doc['selftest'] = {'err': traceback.format_exc()[-1500:]}
    sys.stdout.write('\n@@C20@@' + json.dumps(doc))


if __name__ == '__main__':
    main()
