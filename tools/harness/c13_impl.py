"""C13 harness: runs the real configuration-merge code of the working tree (PYTHONPATH=<repo>/src) on JSON requests
from stdin ({"reqs": [...]}) and prints {"out": [...]}.

Value encoding V:  {"N": [[key, V], ...]} for a dict (insertion order), {"L": [is_default, atom]} for anything else;
atom = null | bool | int | str | {"O": "<canonical repr>"} (lists, floats, ...).

Requests:
  {"kind": "merge", "base": V, "srcs": [V...]}              deep_update folded over the sources
  {"kind": "proc", "ops": [...]}                            LanguageContextBuilder sequences in one process
       ops: ["new"] ["file", i, V] (yaml file) ["upd", i, V] (LanguageConfig.update with a dict) ["ovr", i, key, V]
            ["ovrnone", i, key] ["lang", i, name] ["langnone", i] ["create", i]
  {"kind": "cli", "argv": [...], "files": [V...]}           ArgparseRunner._create_language_context on the real parser
  {"kind": "builtin"}                                       sections of a fresh builder
"""
import copy
import json
import os
import sys
import tempfile

import yaml

from nunavut._utilities import DefaultValue, deep_update
from nunavut.lang import LanguageContextBuilder


def to_v(x):
    if isinstance(x, dict):
        return {'N': [[k if isinstance(k, str) else '<nonstr:%r>' % (k,), to_v(v)] for k, v in x.items()]}
    d = isinstance(x, DefaultValue)
    if d:
        x = x.value
    if x is None or isinstance(x, (bool, int, str)):
        return {'L': [d, x]}
    if isinstance(x, list):
        return {'L': [d, {'Li': json.dumps(x, sort_keys=True, default=repr)}]}
    return {'L': [d, {'O': json.dumps(x, sort_keys=True, default=repr)}]}


def from_v(v, shared=None):
    """{"N": items, "id": n} defines dict object n, {"R": n} is the SAME object again (YAML anchor/alias, one dict under two keys)"""
    shared = {} if shared is None else shared
    if 'R' in v:
        return shared[v['R']]
    if 'N' in v:
        d = {}
        if v.get('id'):
            shared[v['id']] = d
        for k, x in v['N']:
            d[k] = from_v(x, shared)
        return d
    d, a = v['L']
    if isinstance(a, dict):
        a = json.loads(a['O'] if 'O' in a else a['Li'])
    return DefaultValue(a) if d else a


def plain(v, shared=None):
    """V without DefaultValue wrappers (what a yaml file can say); shared dicts stay shared, so yaml.safe_dump writes anchors"""
    shared = {} if shared is None else shared
    if 'R' in v:
        return shared[v['R']]
    if 'N' in v:
        d = {}
        if v.get('id'):
            shared[v['id']] = d
        for k, x in v['N']:
            d[k] = plain(x, shared)
        return d
    a = v['L'][1]
    return json.loads(a['O'] if 'O' in a else a['Li']) if isinstance(a, dict) else a


def dict_ids(x, acc):
    if isinstance(x, dict):
        acc.add(id(x))
        for v in x.values():
            dict_ids(v, acc)
    return acc


YAML_DOCS = []      # every document object the configuration code loaded from yaml, with a deep copy taken at load time


def record_yaml_documents():
    """harness-side monkeypatch: LanguageConfig.update_from_yaml_* call nunavut.lang._config.yaml_loader"""
    import nunavut.lang._config as cfgmod
    real = cfgmod.yaml_loader
    if getattr(real, '_c13_recording', False):
        return

    def loader(*args, **kwargs):
        doc = real(*args, **kwargs)
        YAML_DOCS.append((doc, copy.deepcopy(doc)))
        return doc
    loader._c13_recording = True
    cfgmod.yaml_loader = loader


def yaml_documents_unmodified(start):
    """deep comparison (dicts, nested lists, scalars) of every yaml-loaded source document with its copy from load time"""
    bad = [i for i, (doc, snap) in enumerate(YAML_DOCS[start:]) if doc != snap]
    return {'checked': len(YAML_DOCS) - start, 'modified': bad}


def do_merge(r):
    base = from_v(r['base'], {})
    srcs = [from_v(s, {}) for s in r['srcs']]
    t = base
    for s in srcs:
        t = deep_update(t, s)
    shares = bool(dict_ids(t, set()) & set().union(*[dict_ids(s, set()) for s in srcs])) if srcs else False
    return {'result': to_v(t), 'srcs_after': [to_v(s) for s in srcs], 'shares': shares}


def snapshot_ctx(ctx):
    return to_v(ctx.config.sections())


PROBE = ("{% for l in names %}{{ l }}\x01{% for k, v in ln[l].options.items() %}{{ k }}\x02{{ v }}\x03{% endfor %}\x04{% endfor %}"
         "T\x01{% for k, v in options.items() %}{{ k }}\x02{{ v }}\x03{% endfor %}")


def observe(ctx):
    """everything a context reports: its sections, the options of EVERY supported language (target and non-target) through the API,
    and `options` / `ln.<lang>.options` as a probe template sees them.  get_supported_languages() constructs the non-target languages
    first (their validators run in place), so the sections are read last."""
    langs = ctx.get_supported_languages()
    names = sorted(langs)
    out = {'all_options': {n: to_v(langs[n].get_options()) for n in names},
           'options': to_v(ctx.get_target_language().get_options()), 'language': ctx.get_target_language().name}
    try:
        from nunavut.jinja.environment import CodeGenEnvironmentBuilder
        from nunavut.jinja.jinja2 import DictLoader
        env = CodeGenEnvironmentBuilder(DictLoader({'probe.j2': PROBE}), ctx).create()
        text = env.get_template('probe.j2').render(names=names)
        tm = {}
        for blk in text.split('\x04'):
            name, _, body = blk.partition('\x01')
            tm[name] = {kv.partition('\x02')[0]: kv.partition('\x02')[2] for kv in body.split('\x03') if kv}
        out['template'] = tm
        out['template_expected'] = {n: {k: str(v) for k, v in langs[n].get_options().items()} for n in names}
        out['template_expected']['T'] = {k: str(v) for k, v in ctx.get_target_language().get_options().items()}
    except Exception as ex:  # noqa
        out['template'] = {'error': repr(ex)}
        out['template_expected'] = None
    out['sections'] = snapshot_ctx(ctx)
    return out


def do_proc(r, tmp):
    record_yaml_documents()
    y0 = len(YAML_DOCS)
    builders, contexts, creates, kept = [], [], [], []
    nfile = 0
    for op in r['ops']:
        k = op[0]
        try:
            if k == 'new':
                builders.append(LanguageContextBuilder(include_experimental_languages=True))
            elif k == 'file':
                nfile += 1
                path = os.path.join(tmp, 'f%d.yaml' % nfile)
                with open(path, 'w', encoding='utf-8') as f:
                    yaml.safe_dump(plain(op[2]), f)
                builders[op[1]].add_config_files(path)
            elif k == 'upd':
                doc = from_v(op[2])
                kept.append((doc, copy.deepcopy(doc)))
                builders[op[1]].config.update(doc)
            elif k == 'ovr':
                val = from_v(op[3])
                kept.append((val, copy.deepcopy(val)))
                builders[op[1]].set_target_language_configuration_override(op[2], val)
            elif k == 'ovrnone':
                builders[op[1]].set_target_language_configuration_override(op[2], None)
            elif k == 'lang':
                builders[op[1]].set_target_language(op[2])
            elif k == 'langnone':
                builders[op[1]].set_target_language(None)
            elif k == 'create':
                b = builders[op[1]]
                try:
                    ctx = b.create()
                    contexts.append((op[1], ctx))
                    ob = observe(ctx)
                    ob['i'] = op[1]
                    creates.append(ob)
                except Exception as ex:  # noqa: the constructor of the target language raised
                    creates.append({'i': op[1], 'sections': to_v(b.config.sections()), 'options': 'ERR', 'error': repr(ex)})
            else:
                raise ValueError(op)
        except Exception as ex:  # noqa
            return {'err': 'op %r: %r' % (op[:2], ex)}
    return {'creates': creates,
            'final': [to_v(b.config.sections()) for b in builders],
            'ctx_final': [[i, snapshot_ctx(c)] for i, c in contexts],
            'ctx_obs_final': [observe(c) for _, c in contexts],
            'docs_unmodified': all(a == b for a, b in kept),
            'yaml_docs': yaml_documents_unmodified(y0)}


ARG_NAMES = ['target_language', 'output_extension', 'namespace_output_stem', 'target_endianness', 'omit_float_serialization_support',
             'enable_serialization_asserts', 'enable_override_variable_array_capacity', 'language_standard']


def do_cli(r, tmp):
    from nunavut.cli import _make_parser
    from nunavut.cli.runners import ArgparseRunner
    record_yaml_documents()
    y0 = len(YAML_DOCS)
    argv = list(r['argv'])
    groups = r.get('file_groups') or ([len(r['files'])] if r['files'] else [])     # how the files are spread over --configuration options
    starts, acc = set(), 0
    for g in groups:
        starts.add(acc)
        acc += g
    for n, doc in enumerate(r['files']):
        # names whose alphabetical order is the REVERSE of the command-line order
        path = os.path.join(tmp, 'c%02d_%d.yaml' % (len(r['files']) - n, id(r) % 1000))
        with open(path, 'w', encoding='utf-8') as f:
            yaml.safe_dump(plain(doc), f)
        argv += (['--configuration'] if n in starts else []) + [path]
    args = _make_parser().parse_args(['root_ns'] + argv)
    runner = ArgparseRunner.__new__(ArgparseRunner)
    runner._args = args
    seen = {n: getattr(args, n, None) for n in ARG_NAMES}
    try:
        ctx = runner._create_language_context()
        listed = list_configuration(runner, ctx)       # what `nnvg --list-configuration` prints, before anything else touches the context
        out = observe(ctx)
        out['args'] = seen
        out.update(listed)
        out['yaml_docs'] = yaml_documents_unmodified(y0)
        return out
    except Exception as ex:  # noqa
        return {'args': seen, 'options': 'ERR', 'error': repr(ex)}


def list_configuration(runner, ctx):
    """runs the real ArgparseRunner._list_configuration_only and reads its output back"""
    import contextlib
    import io
    runner._language_context = ctx
    buf = io.StringIO()
    try:
        with contextlib.redirect_stdout(buf):
            runner._list_configuration_only()
    except Exception as ex:  # noqa
        return {'listed': None, 'listed_error': repr(ex)}
    text = buf.getvalue()
    head, _, body = text.partition('\n')
    try:
        yaml.safe_load(body)
        safe = True
    except yaml.YAMLError:
        safe = False
    try:
        doc = yaml.load(body, Loader=yaml.Loader)      # own output of the process under test; the full loader rebuilds DefaultValue objects
    except Exception as ex:  # noqa
        return {'listed': None, 'listed_error': repr(ex), 'listed_safe_loadable': safe}
    return {'listed': to_v(doc), 'listed_target': head, 'listed_safe_loadable': safe, 'listed_has_wrapper': 'DefaultValue' in body}


def do_emptydoc(tmp):
    """an empty and a comment-only configuration file"""
    out = {}
    for name, text in (('empty', ''), ('comment', '# nunavut.lang.c:\n#   options: {}\n')):
        path = os.path.join(tmp, 'e_%s.yaml' % name)
        with open(path, 'w', encoding='utf-8') as f:
            f.write(text)
        b = LanguageContextBuilder(include_experimental_languages=True).set_target_language('c')
        before = to_v(b.config.sections())
        try:
            b.add_config_files(path)
            out[name] = 'identity' if to_v(b.config.sections()) == before else 'changed'
        except Exception as ex:  # noqa
            out[name] = 'raised ' + type(ex).__name__
    return out


def do_coerce(r):
    """{"kind": "coerce", "sections": V, "queries": [[section, key, "v"|"b"|"d", default], ...]} on a real LanguageConfig"""
    from nunavut.lang import LanguageConfig
    cfg = LanguageConfig()
    cfg.update(from_v(r['sections']))
    out = []
    for sec, k, kind, d in r['queries']:
        try:
            if kind == 'v':
                out.append(['ok', cfg.get_config_value(sec, k, d)])
            elif kind == 'b':
                out.append(['ok', cfg.get_config_value_as_bool(sec, k, d)])
            elif kind == 'l':
                out.append(['ok', to_v(cfg.get_config_value_as_list(sec, k, None if d is None else from_v(d)))])
            else:
                out.append(['ok', to_v(cfg.get_config_value_as_dict(sec, k, None if d is None else from_v(d)))])
        except KeyError:
            out.append(['keyerror'])
        except TypeError:
            out.append(['typeerror'])
    return {'results': out}


def main():
    doc = json.load(sys.stdin)
    outs = []
    with tempfile.TemporaryDirectory(prefix='c13-') as tmp:
        for r in doc['reqs']:
            try:
                if r['kind'] == 'merge':
                    outs.append(do_merge(r))
                elif r['kind'] == 'proc':
                    outs.append(do_proc(r, tmp))
                elif r['kind'] == 'cli':
                    outs.append(do_cli(r, tmp))
                elif r['kind'] == 'emptydoc':
                    outs.append(do_emptydoc(tmp))
                elif r['kind'] == 'coerce':
                    outs.append(do_coerce(r))
                elif r['kind'] == 'builtin':
                    outs.append({'sections': to_v(LanguageContextBuilder(include_experimental_languages=True).config.sections())})
                else:
                    outs.append({'err': 'unknown request'})
            except Exception as ex:  # noqa
                outs.append({'err': repr(ex)})
    sys.stdout.write('\n')
    json.dump({'out': outs}, sys.stdout)


if __name__ == '__main__':
    main()
