"""C07 harness: runs the real `nnvg` CLI several times per case under different ambient conditions and reports
sha256 per generated file (paths relative to the output directory) plus the #include lines of generated C/C++ headers.

stdin : {"base": <scratch dir>, "jobs": <max parallel, <= 6>, "cases": [ {"id", "lang", "args": [...],
          "dsdl": {"<root>/.../X.1.0.dsdl": text, ...}, "lookup": {"<dep>/D.1.0.dsdl": text}, "root": "<root>",
          "lookup_roots": ["dep"], "runs": [ {"name", "hashseed": "0"|"random"|..., "loc": "A"|"B", "cwd": "loc"|"other",
          "paths": "rel"|"abs", "fake_offset": secs|null, "fake_frozen": epoch|null, "wave": 0|1 } ] } ] }
stdout: {"out": [ {"id", "runs": {name: {"rc", "files": {rel: sha256}, "includes": {rel: [..]}, "t0": float, "log"}}} ]}
Cases run in parallel (<= 6 nnvg processes); the runs of one case run one after the other on the same directories, the
output directory is removed after hashing, and every run after the first starts >= 1.2 s after the first one ended."""
import concurrent.futures
import hashlib
import json
import os
import re
import shutil
import subprocess
import sys
import time

PY = sys.executable
HERE = os.path.dirname(os.path.abspath(__file__))
FAKE = os.path.join(HERE, 'c07_fakeclock')

LOCS = {'A': 'locA/w', 'B': 'elsewhere/deeper/location_B/x', 'T': 'tmpfs_loc/t'}
TMPFS = '/dev/shm'


def write_tree(base, files):
    for rel, text in files.items():
        p = os.path.join(base, rel)
        os.makedirs(os.path.dirname(p), exist_ok=True)
        with open(p, 'w', encoding='utf-8', newline='') as f:
            f.write(text)


def lookup_place(case, run, root):
    """parent directory (relative to the location) of a lookup root: every root has its own, and at location B each is moved
    independently (other depth, other names)"""
    place = (case.get('lookup_place') or {}).get(root, 'in2')
    if run['loc'] == 'B':
        place = {'in2': 'moved/lk', 'third_party/b': 'x', 'vendor/pkgs/g': 'some/where/else/entirely'}.get(place, place + '_b')
    return place


def run_one(base, case, run):
    cdir = os.path.join(base, case['id'])
    loc = os.path.join(cdir, LOCS[run['loc']])
    if run['loc'] == 'T' and os.path.isdir(TMPFS) and os.access(TMPFS, os.W_OK):
        # another FILE SYSTEM (tmpfs lists a directory in reverse creation order, ext4/overlay by name hash)
        loc = os.path.join(TMPFS, 'c07-' + os.path.basename(base), case['id'], LOCS['T'])
    if not os.path.isdir(os.path.join(loc, 'in')):
        rev = run.get('tree') == 'rev'
        write_tree(os.path.join(loc, 'in'), dict(sorted(case['dsdl'].items(), reverse=rev)))
        for rel, text in sorted(case.get('lookup', {}).items(), reverse=rev):
            write_tree(os.path.join(loc, lookup_place(case, run, rel.split('/')[0])), {rel: text})
    tpl = case.get('user_templates')
    if tpl and not os.path.isdir(os.path.join(loc, 'tpl')):
        # user template directories = copies of the built-in ones, placed next to the inputs (they move with the location)
        src_lang = os.path.join(os.environ['PYTHONPATH'].split(os.pathsep)[-1], 'nunavut', 'lang', case['lang'])
        for sub, dst in (('templates', 'tpl'), ('support', 'stpl')):
            os.makedirs(os.path.join(loc, dst), exist_ok=True)
            shutil.rmtree(os.path.join(loc, dst))
            shutil.copytree(os.path.join(src_lang, sub), os.path.join(loc, dst),
                            ignore=shutil.ignore_patterns('*.py', '*.pyc', '__pycache__'))
    out = os.path.join(loc, 'out')
    if run.get('out') == 'alt':
        out = os.path.join(cdir, 'outputs_moved', 'deep', 'o2', 'out')       # outputs at another absolute location, inputs unmoved
    shutil.rmtree(out, ignore_errors=True)
    for rel, text in case.get('config_files', {}).items():
        if not os.path.exists(os.path.join(loc, rel)):
            write_tree(loc, {rel: text})
    if run['cwd'] == 'loc':
        cwd = loc
    elif run['cwd'].startswith('sub:'):
        cwd = os.path.join(loc, run['cwd'][4:])          # a directory inside the project: relative spellings change
    else:
        cwd = os.path.join(cdir, 'some', 'other', 'cwd')
    os.makedirs(cwd, exist_ok=True)

    def spell(target):
        return os.path.relpath(target, cwd) if run['paths'] == 'rel' and run['cwd'] != 'other' else target
    p_root, p_out = spell(os.path.join(loc, 'in', case['root'])), spell(out)
    p_look = [spell(os.path.join(loc, lookup_place(case, run, r), r)) for r in case.get('lookup_roots', [])]

    def command(args):
        cmd = [PY] + list(run.get('py_flags') or []) + ['-m', 'nunavut', '--target-language', case['lang']]
        if case.get('config_order'):
            cmd += ['-c'] + [spell(os.path.join(loc, c)) for c in case['config_order']]
        cmd += ['-O', p_out] + list(args)
        if tpl:
            cmd += ['--templates', spell(os.path.join(loc, 'tpl'))]
            if tpl == 'both':
                cmd += ['--support-templates', spell(os.path.join(loc, 'stpl'))]
        for l in p_look:
            cmd += ['--lookup-dir', l]
        cmd.append(p_root)
        return cmd
    cmd = command(case['args'])
    env = dict(os.environ)
    env['PYTHONHASHSEED'] = str(run['hashseed'])
    src = env['PYTHONPATH']
    if run.get('fake_offset') or run.get('fake_frozen'):
        env['PYTHONPATH'] = FAKE + os.pathsep + src
        if run.get('fake_offset'):
            env['C07_FAKE_OFFSET'] = str(run['fake_offset'])
        if run.get('fake_frozen'):
            env['C07_FAKE_FROZEN'] = str(run['fake_frozen'])
    pre_log = ''
    if run.get('pre_args') is not None:
        # the output directory was used before: another option set, an earlier time (not removed afterwards)
        q = subprocess.run(command(run['pre_args']), cwd=cwd, env=env, stdout=subprocess.PIPE, stderr=subprocess.STDOUT, text=True,
                           errors='replace', timeout=300)
        pre_log = q.stdout[-300:] if q.returncode else ''
        time.sleep(0.05)
    if '-S' in (run.get('py_flags') or []):
        # without `site` the interpreter does not add site-packages: name them explicitly (pydsdl, yaml, ...)
        env['PYTHONPATH'] = env['PYTHONPATH'] + os.pathsep + os.pathsep.join(p for p in sys.path if 'site-packages' in p)
    for k, v in (run.get('env_extra') or {}).items():
        if v is None:
            env.pop(k, None)
        else:
            env[k] = v.replace('$CDIR', cdir)
    if env.get('TMPDIR'):
        os.makedirs(env['TMPDIR'], exist_ok=True)
    t0 = time.time()
    p = subprocess.run(cmd, cwd=cwd, env=env, stdout=subprocess.PIPE, stderr=subprocess.STDOUT, text=True, errors='replace', timeout=300)
    res = {'rc': p.returncode, 'files': {}, 'includes': {}, 't0': t0, 'log': p.stdout[-600:] if p.returncode else '', 'abs': loc, 'cwd': cwd, 'pre_log': pre_log}
    mt = []
    for root, _, names in os.walk(out):
        for n in names:
            fp = os.path.join(root, n)
            rel = os.path.relpath(fp, out).replace(os.sep, '/')
            mt.append((os.stat(fp).st_mtime_ns, rel))
            data = open(fp, 'rb').read()
            res['files'][rel] = hashlib.sha256(data).hexdigest()
            if run.get('want_includes') and rel.endswith(('.h', '.hpp')):
                # the block emitted by `{% for n in T | includes %}`: the first run of consecutive #include lines (templates may add
                # fixed #include lines of their own further down)
                blk, started = [], False
                for ln in data.decode('utf-8', 'replace').splitlines():
                    m = re.match(r'^#include\s+(\S+)\s*$', ln)
                    if m:
                        blk.append(m.group(1))
                        started = True
                    elif started:
                        break
                res['includes'][rel] = blk
    res['order'] = [r for _, r in sorted(mt)]     # order in which the files were written (not compared; evidence only)
    shutil.rmtree(out, ignore_errors=True)
    return case['id'], run['name'], res


def run_case(base, case):
    """the runs of one case are sequential (same input and output directories are reused, so that a pair differs in exactly
    the stated factors); every run after the first starts >= 1.2 s after the first one ended"""
    out = {}
    t_end0 = None
    for run in case['runs']:
        if t_end0 is not None:
            dt = time.time() - t_end0
            if dt < 1.2:
                time.sleep(1.2 - dt)
        _, name, res = run_one(base, case, run)
        if t_end0 is None:
            t_end0 = time.time()
        out[name] = res
    return case['id'], out


def main():
    doc = json.load(sys.stdin)
    base = doc['base']
    jobs = max(1, min(6, int(doc.get('jobs', 6))))
    results = {c['id']: {'id': c['id'], 'runs': {}} for c in doc['cases']}
    with concurrent.futures.ThreadPoolExecutor(max_workers=jobs) as ex:
        for cid, runs in ex.map(lambda c: run_case(base, c), doc['cases']):
            results[cid]['runs'] = runs
    shutil.rmtree(os.path.join(TMPFS, 'c07-' + os.path.basename(base)), ignore_errors=True)
    sys.stdout.write(json.dumps({'out': [results[c['id']] for c in doc['cases']]}))


if __name__ == '__main__':
    main()
