#!/venv/bin/python
"""C18 harness: executes operation sequences on the REAL classes nunavut generated (constructor, property setters,
update_from_builtin, to_builtin) and prints the observable object state after every operation.

Run with the environment of the codec harness' Python target (PYTHONPATH = <workdir>/gen : build/pydeps):
    c18_impl.py <types.json> <ns_dir> ...        stdin: JSON {"order": [astdump id per model type id], "cases": [...]}
                                                 stdout: JSON {"out": [...]}
case  = {"tid": <model type id>, "ops": [OP...]}
OP    = {"set": i, "x": X} | {"ufb": X} | {"ctor": [X...]}               (i = index among the non-padding fields)
        | {"setin": [p...], "i": i, "x": X}      obj.<p...>.<field i> = X
        | {"mut": [p...], "i": i, "j": j, "x": X, "view": bool}   a = obj.<p...>.<field i>; a[j] = X  (or through the view a[j:])
        | {"iadd": [p...], "i": i, "z": "<int>"}                 a = obj.<p...>.<field i>; a += z
        | {"alias": i, "a": X, "j": j, "x": X}                   a = X (ndarray); obj.<field i> = a; a[j] = X
case may also be {"conv": DT, "x": X}: numpy.array(X, DT).flatten() -> {"conv": "ok V..." | "<exception>"}
X     = {"v": V} | {"l": [X...]} | {"d": [[i, name, X]...]} | {"nd": DT, "e": [X...]} | {"new": tid, "kw": [X...]}
        | {"np": DT, "x": X} (NumPy scalar) | {"nd0": DT, "x": X} (0-d array) | {"tuple": [X...]} | {"f32bits": [int...]}
V     = null | true | false | {"i": "<dec>"} | {"f": "<hex binary64>"} | {"s": [code points]} | {"y": [bytes]} | {"l": [V...]}
        | {"d": [[i, name, V]...]} | {"a": DT, "e": [V...]}               DT = b | u8.. | i8.. | f16.. | o
result = {"steps": [[outcome, state]...], "rt": ..., "ser": ...}  state in the syntax of ocaml/c18_driver.ml
"""
from __future__ import annotations

import json
import os
import struct
import sys
import warnings

sys.path.insert(0, os.path.join(os.path.dirname(os.path.abspath(__file__)), 'codec'))

import numpy as np  # noqa: E402

import nunavut_support as ns  # noqa: E402
import target_py_driver as drv  # noqa: E402   (type database, class lookup, attribute names, model comparison)

ORDER: list = []
TID_OF: dict = {}


def fields_of(tid: int):
    return [f for f in drv.TYPES[ORDER[tid]]['fields'] if f['name'] != '']


def cls_of(tid: int):
    return drv.get_cls(ORDER[tid])


DT = {'b': np.bool_, 'o': np.object_}
for _w in (8, 16, 32, 64):
    DT['u%d' % _w] = getattr(np, 'uint%d' % _w)
    DT['i%d' % _w] = getattr(np, 'int%d' % _w)
for _w in (16, 32, 64):
    DT['f%d' % _w] = getattr(np, 'float%d' % _w)
DT_NAME = {np.dtype(v): k for k, v in DT.items()}


def lit(v):
    if v is None or v is True or v is False:
        return v
    if 'i' in v:
        return int(v['i'])
    if 'f' in v:
        return struct.unpack('<d', struct.pack('<Q', int(v['f'], 16)))[0]
    if 's' in v:
        return ''.join(chr(c) for c in v['s'])
    if 'y' in v:
        return bytes(v['y'])
    if 'l' in v:
        return [lit(e) for e in v['l']]
    if 'd' in v:
        return {name: lit(e) for _, name, e in v['d']}
    if 'a' in v:
        return np.array([lit(e) for e in v['e']], DT[v['a']])
    raise ValueError('bad literal %r' % (v,))


def ev(x):
    if 'v' in x:
        return lit(x['v'])
    if 'l' in x:
        return [ev(e) for e in x['l']]
    if 'd' in x:
        return {name: ev(e) for _, name, e in x['d']}
    if 'nd' in x:
        return np.array([ev(e) for e in x['e']], DT[x['nd']])
    if 'np' in x:          # a NumPy scalar: numpy.<dtype>(value)
        return DT[x['np']](ev(x['x']))
    if 'nd0' in x:         # a 0-d array
        return np.array(ev(x['x']), DT[x['nd0']])
    if 'f32bits' in x:     # float32 array from raw bit patterns (signaling NaNs survive this way only)
        return np.array(x['f32bits'], np.uint32).view(np.float32)
    if 'tuple' in x:
        return tuple(ev(e) for e in x['tuple'])
    if 'new' in x:
        tid = x['new']
        kw = {}
        for f, a in zip(fields_of(tid), x['kw']):
            val = ev(a)
            if val is not None:
                kw[drv.attr_name(ORDER[tid], f['name'])] = val
        return cls_of(tid)(**kw)
    raise ValueError('bad expression %r' % (x,))


def nav(obj, tid: int, path):
    """obj.<p1>.<p2>... through composite-typed fields -> (instance, its model type id); AttributeError like Python raises it"""
    for p in path:
        fs = fields_of(tid)
        if p >= len(fs):
            raise AttributeError('no such field')
        f = fs[p]
        sub = getattr(obj, drv.attr_name(ORDER[tid], f['name']))
        if f['type']['k'] != 'ref' or sub is None:
            # a None (inactive union option) or an ndarray / int has none of the generated attributes
            raise AttributeError('%s has no generated attributes' % type(sub).__name__)
        obj, tid = sub, ORDER.index(f['type']['id'])
    return obj, tid


def field_attr(tid: int, i: int) -> str:
    fs = fields_of(tid)
    if i >= len(fs):
        raise AttributeError('no such field')
    return drv.attr_name(ORDER[tid], fs[i]['name'])


def fbits(x) -> str:
    x = float(x)
    if x != x:
        return 'fnan'
    return 'f%x' % struct.unpack('<Q', struct.pack('<d', x))[0]


def show(x) -> str:
    if x is None:
        return 'N'
    if isinstance(x, (bool, np.bool_)):
        return 'T' if x else 'F'
    if isinstance(x, (int, np.integer)):
        return 'i%d' % int(x)
    if isinstance(x, (float, np.floating)):
        return fbits(x)
    if isinstance(x, str):
        return 's' + ('.'.join(str(ord(c)) for c in x) or '_')
    if isinstance(x, (bytes, bytearray)):
        return 'y' + ('.'.join(str(c) for c in bytes(x)) or '_')
    if isinstance(x, np.ndarray):
        if x.ndim != 1:
            return '?ndim%d' % x.ndim
        return '(a %s%s)' % (DT_NAME.get(x.dtype, '?' + str(x.dtype)), ''.join(' ' + show(e) for e in x))
    if isinstance(x, list):
        return '(l%s)' % ''.join(' ' + show(e) for e in x)
    tid = TID_OF.get(type(x))
    if tid is not None:
        return '(o %d%s)' % (tid, ''.join(' ' + show(getattr(x, drv.attr_name(ORDER[tid], f['name']))) for f in fields_of(tid)))
    return '?' + type(x).__name__


def ser_hex(obj):
    return b''.join(bytes(frag) for frag in ns.serialize(obj)).hex()


def run_conv(case) -> dict:
    """{"conv": DT, "x": X}: numpy.array(<X>, DT).flatten() -- the NumPy laws the model assumes"""
    try:
        with np.errstate(all='ignore'):
            a = np.array(ev(case['x']), DT[case['conv']]).flatten()
        return {'conv': 'ok' + ''.join(' ' + show(e) for e in a)}
    except Exception as ex:  # noqa: BLE001
        return {'conv': type(ex).__name__}


def run_case(case) -> dict:
    if 'conv' in case:
        return run_conv(case)
    tid = case['tid']
    cls = cls_of(tid)
    obj = cls()
    steps = []
    for op in case['ops']:
        outcome = 'ok'
        try:
            if 'set' in op:
                f = fields_of(tid)[op['set']] if op['set'] < len(fields_of(tid)) else None
                val = ev(op['x'])
                if f is None:
                    raise AttributeError('no such field')
                setattr(obj, drv.attr_name(ORDER[tid], f['name']), val)
            elif 'ufb' in op:
                val = ev(op['ufb'])
                ns.update_from_builtin(obj, val)
            elif 'ctor' in op:
                obj = ev({'new': tid, 'kw': op['ctor']})
            elif 'setin' in op:
                val = ev(op['x'])
                sub, st = nav(obj, tid, op['setin'])
                setattr(sub, field_attr(st, op['i']), val)
            elif 'mut' in op:
                val = ev(op['x'])
                sub, st = nav(obj, tid, op['mut'])
                a = getattr(sub, field_attr(st, op['i']))
                if op.get('view') and a is not None:
                    v = a[op['j']:]          # a slice is a view: writing through it writes the field
                    v[0] = val
                else:
                    a[op['j']] = val
            elif 'iadd' in op:
                sub, st = nav(obj, tid, op['iadd'])
                a = getattr(sub, field_attr(st, op['i']))
                a += int(op['z'])
            elif 'alias' in op:
                a = ev(op['a'])
                val = ev(op['x'])
                setattr(obj, field_attr(tid, op['alias']), a)
                a[op['j']] = val             # the caller keeps using "its" array
            else:
                raise RuntimeError('bad op')
        except Exception as ex:  # noqa: BLE001   every exception of generated code / NumPy is an outcome
            outcome = type(ex).__name__
        try:
            state = show(obj)
        except Exception as ex:  # noqa: BLE001
            state = '?show:' + type(ex).__name__
        steps.append([outcome, state])
    final = steps[-1][1] if steps else show(obj)
    res = {'steps': steps, 'default': None}
    # to_builtin / update_from_builtin round trip and the serializations
    try:
        ref = ser_hex(obj)
        res['ser_len'] = len(ref) // 2
    except Exception as ex:  # noqa: BLE001
        ref = None
        res['ser_exc'] = type(ex).__name__
    try:
        res['model_attr'] = bool(ns.get_model(obj) is type(obj)._MODEL_ and ns.get_class(ns.get_model(obj)) is type(obj))
    except Exception as ex:  # noqa: BLE001
        res['model_attr'] = type(ex).__name__
    try:
        b = ns.to_builtin(obj)
    except Exception as ex:  # noqa: BLE001
        res['rt'] = 'tbfail ' + type(ex).__name__
        return res
    try:
        if case.get('via_json'):
            b = json.loads(json.dumps(b))
        obj2 = ns.update_from_builtin(cls(), b)
    except Exception as ex:  # noqa: BLE001
        res['rt'] = 'raises ' + type(ex).__name__
        return res
    back = show(obj2)
    res['rt'] = 'same' if back == final else 'differ ' + back
    if ref is not None:
        try:
            res['ser'] = 'same' if ser_hex(obj2) == ref else 'differ'
        except Exception as ex:  # noqa: BLE001
            res['ser'] = 'raises ' + type(ex).__name__
    return res


def main(argv) -> int:
    with open(argv[1]) as fh:
        for c in json.load(fh)['types']:
            drv.TYPES[c['id']] = c
    drv.NS_DIRS[:] = list(argv[2:])
    warnings.simplefilter('ignore')
    np.seterr(all='ignore')
    doc = json.load(sys.stdin)
    ORDER[:] = doc['order']
    for i, key in enumerate(ORDER):
        TID_OF[drv.get_cls(key)] = i
    out = []
    real_stdout = os.fdopen(os.dup(1), 'w')
    os.dup2(2, 1)   # anything generated code prints goes to stderr
    for case in doc['cases']:
        try:
            out.append(run_case(case))
        except Exception as ex:  # noqa: BLE001   harness problem, reported per case
            out.append({'harness_error': '%s: %s' % (type(ex).__name__, ex)})
    defaults = []
    for i in range(len(ORDER)):
        try:
            defaults.append(show(cls_of(i)()))
        except Exception as ex:  # noqa: BLE001
            defaults.append('?' + type(ex).__name__)
    # newest-minor-version aliases of the package __init__ (filter_newest_minor_version_aliases / Namespace.j2): ns.T_1 is ns.T_1_<max minor>
    alias_bad = []
    groups = {}
    for key in ORDER:
        c = drv.TYPES[key]
        if c['service_part']:
            continue
        groups.setdefault((tuple(c['ns']), c['short_name'], c['major']), []).append(c)
    for (nsp, short, major), cs in groups.items():
        newest = max(cs, key=lambda c: c['minor'])
        class_ids = {'%s_%d_%d' % (c2['short_name'], c2['major'], c2['minor']) for c2 in drv.TYPES.values()
                     if tuple(c2['ns']) == nsp and not c2['service_part']}
        if '%s_%d' % (short, major) in class_ids:
            continue      # the alias would have the identifier of a class: it must not exist (CLASS-IDENTITY below checks the class)
        try:
            mod = drv._import_ns(list(nsp))
            if getattr(mod, '%s_%d' % (short, major)) is not drv.get_cls(newest['id']):
                alias_bad.append('%s.%s_%d is not %s' % ('.'.join(nsp), short, major, newest['id']))
        except Exception as ex:  # noqa: BLE001
            alias_bad.append('%s.%s_%d: %s' % ('.'.join(nsp), short, major, type(ex).__name__))
    # `_MODEL_.source_file_path`: a pure POSIX path relative to the parent of the root namespace directory (filter_pickle, /repo b86b49b)
    import pathlib
    path_bad = []
    for key in ORDER:
        c = drv.TYPES[key]
        try:
            mdl = ns.get_model(drv.get_cls(key))
            got = mdl.source_file_path
            want = str(c['source']).replace(os.sep, '/')
            if str(mdl) != '%s.%d.%d' % (c['full_name'], c['major'], c['minor']):
                path_bad.append('CLASS-IDENTITY %s: the attribute of that name is the class of %s' % (key, mdl))
            if not (isinstance(got, pathlib.PurePosixPath) and not got.is_absolute() and str(got) == want):
                path_bad.append('%s: %r, expected PurePosixPath(%r)' % (key, got, want))
        except Exception as ex:  # noqa: BLE001
            path_bad.append('%s: %s' % (key, type(ex).__name__))
    real_stdout.write(json.dumps({'out': out, 'defaults': defaults, 'alias_bad': alias_bad, 'alias_checked': len(groups), 'path_bad': path_bad}))
    real_stdout.flush()
    return 0


if __name__ == '__main__':
    sys.exit(main(sys.argv))
