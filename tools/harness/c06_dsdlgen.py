"""C06: generator of VALID DSDL namespaces in "hostile names" mode.

Names of namespaces, types and attributes are drawn from every reserved-identifier list and every
reserved-token / encoding pattern of <repo>/src/nunavut/lang/properties.yaml (C/C++ keywords, `_Upper`,
double underscore, `is*`/`to*`/`str*`/`mem*`, `*_t`, `E*`, `INT*_MAX` ...), from Python's keyword list and
builtins (`class`, `None`, `str`, `id` ...), filtered through pydsdl's own name check.  Shapes: structures,
unions, services (with union request/response), deprecated, empty and maximally wide types, constants of
every primitive kind with extreme values, nested namespaces several levels deep, a second root namespace
used through --lookup-dir, type names equal to namespace names where DSDL allows it.

A case is {'roots': {root_name: {relpath: text}}, 'main': root_name, 'lookup': [root_name, ...]}.
Only pydsdl decides validity: the caller reads every case with pydsdl.read_namespace and discards rejected ones.
Pure data + `random.Random`; imports pydsdl only for `check_name`; reads properties.yaml as data.
"""
from __future__ import annotations

import builtins
import keyword
import os
import re
import typing

import yaml
from pydsdl._serializable._name import check_name, InvalidNameError

PLAIN = ['alpha', 'beta', 'Gamma', 'delta', 'Eps', 'zeta', 'Eta', 'theta', 'iota', 'Kappa', 'lam', 'mu', 'Nu', 'xi', 'Omi', 'pi',
         'rho', 'Sigma', 'tau', 'ups', 'Phi', 'chi', 'Psi', 'omega', 'value', 'data', 'Node', 'Frame', 'x', 'y', 'Z', 'a1', 'B2']

# hand-made instances for the reserved / encoding patterns (checked against the yaml at run time: pattern_coverage())
PATTERN_NAMES = [
    '_Upper', '_X', '_Alignas', '_Atomic', '__dunder', '__x', 'x__y', 'tail__', '_lower', 'a__', 'A__B__C',
    'isalpha', 'isfoo', 'tolower', 'tox', 'strcpy', 'strx', 'memcpy', 'memx', 'wcslen', 'wcsx',
    'uint8_t', 'int_least8_t', 'uintptr_t', 'intmax_t', 'uint_x_t', 'atomic_flag', 'atomic_x', 'memory_x', 'memory_order_relaxed',
    'cnd_t', 'cnd_x', 'mtx_lock', 'thrd_x', 'tss_x',
    'EINVAL', 'E2BIG', 'EX', 'FE_ALL', 'FE_X', 'INT8_MAX', 'UINT64_C', 'INT_X_MIN', 'UINT8_MAX', 'PRIx8', 'PRId', 'SCNd', 'SCNX',
    'LC_ALL', 'LC_X', 'SIGINT', 'SIG_IGN', 'SIGX', 'TIME_UTC', 'TIME_X', 'ATOMIC_VAR_INIT', 'ATOMIC_X',
    'NULL', 'BUFSIZ', 'EOF', 'size_t', 'errno', 'assert', 'offsetof', 'main', 'std',
    'min', 'max', 'array', 'vector', 'variant', 'string', 'allocator_type',
    'F16', 'zX0041', 'zX', 'I', 'O', 'l', 'dsdl', 'uavcan', 'reg',
]


# INDEPENDENT keyword tables (not read from /repo): ISO/IEC 9899:2011 6.4.1 and ISO/IEC 14882:2020 [lex.key] (+ alternative tokens,
# [lex.digraph]) and the identifiers with special meaning.  Deleting a keyword from properties.yaml leaves it in the hostile pool, so the
# generated code stops compiling.  (If C09 commits a Coq keyword table, `iso_keywords_from_coq` cross-checks these lists against it.)
ISO_C11_KEYWORDS = ('auto break case char const continue default do double else enum extern float for goto if inline int long register restrict '
                    'return short signed sizeof static struct switch typedef union unsigned void volatile while _Alignas _Alignof _Atomic _Bool '
                    '_Complex _Generic _Imaginary _Noreturn _Static_assert _Thread_local').split()
ISO_CPP20_KEYWORDS = ('alignas alignof asm auto bool break case catch char char8_t char16_t char32_t class concept const consteval constexpr '
                      'constinit const_cast continue co_await co_return co_yield decltype default delete do double dynamic_cast else enum explicit '
                      'export extern false float for friend goto if inline int long mutable namespace new noexcept nullptr operator private '
                      'protected public register reinterpret_cast requires return short signed sizeof static static_assert static_cast struct '
                      'switch template this thread_local throw true try typedef typeid typename union unsigned using virtual void volatile '
                      'wchar_t while and and_eq bitand bitor compl not not_eq or or_eq xor xor_eq').split()


def iso_keywords_from_coq(verif: str) -> typing.Dict[str, typing.List[str]]:
    """keyword tables committed in Coq by C09, if present (definitions named *c11_keywords* / *cpp20_keywords* with `(* word *)` comments)"""
    out: typing.Dict[str, typing.List[str]] = {}
    d = os.path.join(verif, 'coq', 'theories', 'Gen')
    try:
        names = [n for n in os.listdir(d) if n.endswith('.v')]
    except OSError:
        return out
    for n in names:
        txt = open(os.path.join(d, n), encoding='utf-8', errors='replace').read()
        for key in ('c11_keywords', 'cpp20_keywords', 'cpp20_alternative_tokens', 'py312_keywords', 'py312_soft_keywords'):
            m = re.search(r'Definition \w*%s\w* : list str :=(.*?)\](?:%%N)?\.\s' % key, txt, flags=re.S)
            if m:
                out[key] = re.findall(r'\(\* (\S+) \*\)', m.group(1))
    return out


# free text is the one input channel that reaches the output unstropped: DSDL comments become doc comments of the generated C++
DOC_POOL = ['ends with backslash \\', 'what??/', 'tri ??= ??( ??) ??<', 'close */ open /* both', '"""', "'''", '\\N{BULLET} \\u1234 \\x', '{{ 7*7 }} {% raw %} {# c #}',
            'tab\there', 'x' * 300, '#include <nope.h>', '#define X 1', '// nested // comment', '\\', '??/', 'a \\ b', '@sealed', 'uint8 not_a_field',
            '<b>html</b> & &amp; "quoted"', '%s %d %n', '$(rm -rf) `x`', 'trailing spaces   ', 'plain documentation text.']


def generated_c_names(repo: str) -> typing.List[str]:
    """names the C templates THEMSELVES append to a type's reference name (per-type macros `<T>_EXTENT_BYTES_`, functions `<T>_serialize_`):
    every `_NAME_` literal following `full_reference_name }}` in lang/c/templates/*.j2"""
    d = os.path.join(repo, 'src', 'nunavut', 'lang', 'c', 'templates')
    out = set()
    for f in sorted(os.listdir(d)):
        if f.endswith('.j2'):
            txt = open(os.path.join(d, f), encoding='utf-8').read()
            out.update(re.findall(r'\}\}_([A-Za-z][A-Za-z0-9_]*_)(?![A-Za-z0-9_{])', txt))
    return sorted(n for n in out if n not in ('is_', 'select_'))


def generated_c_field_names(repo: str) -> typing.Tuple[typing.List[str], typing.List[str]]:
    """(suffixes, prefixes) the C templates put around a FIELD name: `<T>_<f>_ARRAY_CAPACITY_`, `<T>_is_<f>_`, `<T>_select_<f>_`"""
    d = os.path.join(repo, 'src', 'nunavut', 'lang', 'c', 'templates')
    suf, pre = set(), set()
    for f in sorted(os.listdir(d)):
        if f.endswith('.j2'):
            txt = open(os.path.join(d, f), encoding='utf-8').read()
            suf.update(re.findall(r'full_reference_name\s*\}\}_\{\{[^}]*\}\}_([A-Z][A-Z0-9_]*_)\b', txt))
            pre.update(re.findall(r'full_reference_name\s*\}\}_([a-z]+_)\{\{', txt))
    return sorted(suf), sorted(pre)


def generated_cpp_members(repo: str) -> typing.List[str]:
    """names the C++ templates THEMSELVES declare inside the generated class: type aliases (`using X =`), nested classes, static constexpr
    members and member functions of _composite_type.j2 / _fields*.j2 / the type templates (literal names only)"""
    d = os.path.join(repo, 'src', 'nunavut', 'lang', 'cpp', 'templates')
    names = set()
    for f in sorted(os.listdir(d)):
        if not f.endswith('.j2') or f in ('serialization.j2', 'deserialization.j2', 'base.j2'):
            continue
        t = re.sub(r'\{#.*?#\}', '', open(os.path.join(d, f), encoding='utf-8').read(), flags=re.S)
        for rx in (r'\busing\s+([A-Za-z_]\w*)\s*=', r'\b(?:struct|class)\s+([A-Za-z_]\w*)\b(?!\s*\{\{)',
                   r'static\s+constexpr[^;=\n{}]*?\b([A-Za-z_]\w*)\s*=', r'\b([A-Za-z_]\w*)\s*\([^;{}]*\)\s*(?:const\s*)?(?:noexcept\s*)?\{'):
            names.update(re.findall(rx, t))
    return sorted(n for n in names if n not in ('_if', 'if', 'for', 'while', 'switch', 'final', 'const'))


PY_SUPPORT_ROOTS = ['nunavut_support', 'numpy', 'pydsdl']      # a Python ROOT package of that name shadows what the generated modules import


def load_properties(repo: str) -> dict:
    with open(os.path.join(repo, 'src', 'nunavut', 'lang', 'properties.yaml'), encoding='utf-8') as f:
        return yaml.safe_load(f)


def dsdl_ok(name: str) -> bool:
    try:
        check_name(name)
    except InvalidNameError:
        return False
    return re.fullmatch(r'[A-Za-z_][A-Za-z0-9_]*', name) is not None and len(name) < 40


def pools(repo: str) -> typing.Dict[str, typing.List[str]]:
    props = load_properties(repo)
    out: typing.Dict[str, typing.List[str]] = {}
    c_res = [str(x) for x in props['nunavut.lang.c'].get('reserved_identifiers', [])]
    cpp_res = [str(x) for x in props['nunavut.lang.cpp'].get('reserved_identifiers', [])]
    py_res = sorted(set(list(keyword.kwlist) + dir(builtins)))
    out['c_reserved'] = sorted({w for w in c_res + cpp_res if dsdl_ok(w)})
    out['py_reserved'] = sorted({w for w in py_res if dsdl_ok(w)})
    coq = iso_keywords_from_coq(os.path.dirname(os.path.dirname(os.path.dirname(os.path.abspath(__file__)))))
    out['iso_keywords'] = sorted({w for w in list(ISO_C11_KEYWORDS) + list(ISO_CPP20_KEYWORDS) + [w for k in coq for w in coq[k]]
                                  if dsdl_ok(w)})
    out['generated'] = [w for w in generated_c_names(repo) + generated_cpp_members(repo) if dsdl_ok(w)]
    out['pattern'] = [w for w in PATTERN_NAMES + PY_SUPPORT_ROOTS if dsdl_ok(w)]
    out['plain'] = list(PLAIN)
    return out


def pattern_coverage(repo: str, names: typing.Iterable[str]) -> typing.Dict[str, int]:
    """for each reserved/encoding pattern of the yaml: how many of `names` match it (python re semantics)"""
    props = load_properties(repo)
    res = {}
    names = list(names)
    for lang in ('c', 'cpp', 'py'):
        sec = props['nunavut.lang.' + lang]
        for key in ('reserved_token_patterns_by_type', 'token_encoding_rules_by_identifier_type'):
            for ty, pats in (sec.get(key) or {}).items():
                for p in pats:
                    rx = re.compile(p)
                    res['%s/%s/%s/%s' % (lang, key[:8], ty, p)] = sum(1 for n in names if rx.search(n))
    return res


# -----------------------------------------------------------------------------------------------
PRIM_STD = ['bool', 'uint8', 'uint16', 'uint32', 'uint64', 'int8', 'int16', 'int32', 'int64', 'float16', 'float32', 'float64']

CONSTANTS = [
    ('int64', '-9223372036854775808'), ('int64', '9223372036854775807'), ('uint64', '18446744073709551615'),
    ('int32', '-2147483648'), ('int32', '2147483647'), ('uint32', '4294967295'), ('int16', '-32768'), ('uint16', '65535'),
    ('int8', '-128'), ('int8', '127'), ('uint8', '255'), ('uint8', "'a'"), ('uint8', "'\\n'"), ('uint8', '0x7F'), ('uint8', '0b101'),
    ('uint3', '7'), ('int5', '-16'), ('uint63', '9223372036854775807'), ('int63', '-4611686018427387904'), ('uint1', '1'),
    ('bool', 'true'), ('bool', 'false'),
    ('float64', '1.7976931348623157e308'), ('float64', '-1.7976931348623157e308'), ('float64', '4.9406564584124654e-324'),
    ('float64', '2.2250738585072014e-308'), ('float32', '340282346638528859811704183484516925440.0'), ('float32', '-340282346638528859811704183484516925440.0'),
    ('float32', '1.401298464324817e-45'), ('float32', '1.17549435e-38'), ('float16', '65504.0'), ('float16', '-65504.0'),
    ('float16', '5.960464477539063e-08'), ('float32', '1/3'), ('float64', '0.0'), ('float64', '-0.0'), ('float32', '1e0'),
    ('int64', '0'), ('uint64', '0'), ('int64', '-1'), ('uint16', '0o17'), ('float64', '3.141592653589793'),
]


class Gen:
    def __init__(self, rng, repo: str, hostile: float = 0.8):
        self.rng = rng
        self.pools = pools(repo)
        self.hostile = hostile
        self.used_names: typing.Set[str] = set()

    # -- names -------------------------------------------------------------------------------
    def name(self, avoid: typing.Collection[str] = (), kind: str = 'any') -> str:
        r = self.rng
        for _ in range(200):
            if r.random() < self.hostile:
                pool = r.choice(['c_reserved', 'iso_keywords', 'py_reserved', 'pattern', 'pattern'] + (['generated'] if kind in ('attr', 'const') and self.pools.get('generated') else []))
            else:
                pool = 'plain'
            n = r.choice(self.pools[pool])
            if kind == 'type' and r.random() < 0.3:
                n = n[0].upper() + n[1:]
            if n.lower() in {a.lower() for a in avoid}:
                continue
            if not dsdl_ok(n):
                continue
            self.used_names.add(n)
            return n
        n = 'n%d' % r.randrange(10 ** 6)
        return n

    # -- attribute types ------------------------------------------------------------------------
    def prim(self, wide: bool = False) -> str:
        r = self.rng
        if wide:
            return r.choice(['uint64', 'int64', 'float64'])
        k = r.randrange(10)
        if k < 6:
            t = r.choice(PRIM_STD)
        elif k < 8:
            t = 'uint%d' % r.randrange(1, 65)
        else:
            t = 'int%d' % r.randrange(2, 65)
        if t.startswith(('uint', 'float')) and r.random() < 0.15:
            t = 'truncated ' + t
        return t

    def field_type(self, deps: typing.List[typing.Tuple[str, int]], wide: bool, in_union: bool) -> typing.Tuple[str, int]:
        """returns (type expression, conservative upper bound of its serialized size in bits)"""
        r = self.rng
        k = r.randrange(12)
        base, bound = self.prim(wide), 64
        if deps and k >= 7:
            base, b = r.choice(deps)
            bound = b + 48
        a = r.randrange(10)
        if a < 5:
            return base, bound + 8
        n = r.choice([1, 2, 3, 4, 8]) if not wide else r.choice([2, 4, 8, 16])
        if a < 7:
            return '%s[%d]' % (base, n), n * (bound + 8) + 8
        if a < 9:
            return '%s[<=%d]' % (base, n), n * (bound + 8) + 48
        return '%s[<%d]' % (base, n + 1), n * (bound + 8) + 48

    # -- one definition -------------------------------------------------------------------------
    def body(self, deps: typing.List[typing.Tuple[str, int]], shape: str, union: bool) -> typing.Tuple[str, int]:
        """one struct/union section (no service separator); returns (text, size bound in bits: the extent when not sealed)"""
        r = self.rng
        lines = []
        total = 64
        if shape == 'padding' and not union:
            # only void padding fields: the structure has fields but no members (a reserved placeholder layout)
            lines = ['void%d' % r.choice([1, 8, 16, 64]) for _ in range(r.randrange(1, 3))]
            total = 64 * len(lines) + 64
            total = (total + 7) // 8
            if r.random() < 0.6:
                lines.append('@sealed')
            else:
                lines.append('@extent %d * 8' % (total + r.choice([0, 8])))
            return '\n'.join(lines) + '\n', total * 8 + 64
        if shape == 'empty' and not union:
            nf = 0
        elif union:
            nf = r.randrange(2, 5)
        else:
            nf = r.randrange(1, 6)
        wide = shape == 'wide'
        if union:
            lines.append('@union')
        names: typing.List[str] = []
        for _ in range(nf):
            n = self.name(names, 'attr')
            names.append(n)
            if not union and r.random() < 0.12:
                lines.append('void%d' % r.choice([1, 3, 8, 16, 64]))
                total += 64
            ft, fb = self.field_type(deps, wide, union)
            total += fb
            if r.random() < 0.2:
                lines.append('%s %s  # %s' % (ft, n, r.choice(DOC_POOL)))
                if r.random() < 0.5:
                    lines.append('# %s' % r.choice(DOC_POOL))
            else:
                lines.append('%s %s' % (ft, n))
        nconst = r.randrange(0, 4) if shape != 'consts' else r.randrange(6, 14)
        for _ in range(nconst):
            t, v = r.choice(CONSTANTS)
            n = self.name(names, 'const')
            names.append(n)
            lines.append('%s %s = %s' % (t, n, v) + ('  # %s' % r.choice(DOC_POOL) if r.random() < 0.15 else ''))
        total = (total + 7) // 8
        if r.random() < 0.6:
            lines.append('@sealed')
        else:
            total += r.choice([0, 0, 1, 16, 100])
            lines.append('@extent %d * 8' % total)
        return '\n'.join(lines) + '\n', total * 8

    def definition(self, deps: typing.List[typing.Tuple[str, int]], deprecated: bool) -> typing.Tuple[str, str, int]:
        r = self.rng
        kind = r.choice(['struct', 'struct', 'struct', 'union', 'service', 'service'])
        shape = r.choice(['normal', 'normal', 'empty', 'padding', 'wide', 'consts'])
        head = ''.join('# %s\n' % r.choice(DOC_POOL) for _ in range(r.choice([0, 0, 1, 3]))) + ('@deprecated\n' if deprecated else '')
        if kind == 'service':
            b1, _ = self.body(deps, shape, r.random() < 0.4)
            b2, bound = self.body(deps, r.choice(['normal', 'empty', 'padding', 'wide']), r.random() < 0.4)
            txt = head + b1 + '---\n' + b2
        else:
            b1, bound = self.body(deps, shape, kind == 'union')
            txt = head + b1
        return kind, txt, bound

    # -- whole case -------------------------------------------------------------------------------
    def root(self, root_name: str, n_types: int, ext_deps: typing.List[typing.Tuple[str, bool, int]], max_depth: int
             ) -> typing.Tuple[typing.Dict[str, str], typing.List[typing.Tuple[str, bool, int]]]:
        """returns files and the list of (full versioned reference, deprecated) of non-service types usable as dependencies"""
        r = self.rng
        files: typing.Dict[str, str] = {}
        avail = list(ext_deps)
        namespaces: typing.List[typing.List[str]] = [[root_name]]
        for _ in range(r.randrange(1, 5)):
            parent = r.choice(namespaces)
            if len(parent) >= max_depth:
                continue
            siblings = [ns[-1] for ns in namespaces if ns[:-1] == parent]
            namespaces.append(parent + [self.name(siblings, 'ns')])
        taken: typing.Dict[str, typing.Set[str]] = {}
        port_ids: typing.Set[int] = set()
        for _ in range(n_types):
            ns = r.choice(namespaces)
            key = '.'.join(ns)
            taken.setdefault(key, set())
            if r.random() < 0.15 and len(namespaces) > 1:
                short = r.choice(namespaces)[-1]          # a type named like some namespace (DSDL decides if allowed)
            else:
                short = self.name(taken[key], 'type')
            if short.lower() in {t.lower() for t in taken[key]}:
                continue
            taken[key].add(short)
            deprecated = r.random() < 0.15
            deps = [(d, b) for d, dep, b in avail if (deprecated or not dep) and b < (1 << 16)]
            kind, txt, bound = self.definition(deps, deprecated)
            major = r.choice([0, 1, 1, 1, 2, 255])
            minor = r.choice([0, 0, 0, 1, 7, 255])
            if major == 0 and minor == 0:
                minor = 1
            fname = '%s.%d.%d.dsdl' % (short, major, minor)
            if r.random() < 0.12:
                pid = r.randrange(0, 512) if kind == 'service' else r.randrange(0, 8192)
                if pid not in port_ids:
                    port_ids.add(pid)
                    fname = '%d.%s' % (pid, fname)
            files['/'.join(ns[1:] + [fname])] = txt
            if kind != 'service':
                avail.append(('%s.%s.%d.%d' % (key, short, major, minor), deprecated, bound))
        return files, avail

    def case(self, n_types: int = 8) -> dict:
        r = self.rng
        main = self.name([], 'ns')
        other = self.name([main], 'ns')
        other_files, other_types = self.root(other, r.randrange(1, 4), [], 3)
        main_files, _ = self.root(main, n_types, other_types, 5)
        return {'roots': {main: main_files, other: other_files}, 'main': main, 'lookup': [other]}


# -----------------------------------------------------------------------------------------------
# fixed regression corpus (always part of every run)
# -----------------------------------------------------------------------------------------------
def corpus() -> typing.List[dict]:
    cases = []
    # F-INT64MIN regression (fixed in /repo): must stay clean
    cases.append({'roots': {'regr': {
        'Limits.1.0.dsdl': 'int64 X = -9223372036854775808\nint64 Y = 9223372036854775807\nuint64 Z = 18446744073709551615\n'
                           'int32 W = -2147483648\nfloat64 F = 1.7976931348623157e308\nfloat32 G = -340282346638528859811704183484516925440.0\n'
                           'float16 H = 65504.0\nfloat64 D = 4.9406564584124654e-324\nuint8 C = \'a\'\nbool T = true\n@sealed\n',
        'Empty.1.0.dsdl': '@sealed\n',
        'EmptyExt.1.0.dsdl': '@extent 0\n',
        'Pad.1.0.dsdl': 'void64\n@sealed\n',
        'PadExt.1.0.dsdl': 'void3\nvoid13\n@extent 16 * 8\n',
        'PadSvc.1.0.dsdl': 'void8\n@sealed\n---\nvoid16\n@extent 64 * 8\n',
        'PadUser.1.0.dsdl': 'regr.Pad.1.0 p\nregr.PadExt.1.0[2] q\n@sealed\n',
        'Wide.1.0.dsdl': 'uint64[16] a\nint64[<=16] b\nfloat64[8] c\nbool[64] d\nbool[<=64] e\nregr.Empty.1.0[2] f\nregr.Limits.1.0[<=2] g\n@extent 8192 * 8\n',
        'nested/deeper/than/this/Leaf.1.0.dsdl': 'regr.Wide.1.0 w\nregr.nested.Mid.1.0 m\n@sealed\n',
        'nested/Mid.1.0.dsdl': 'float16 h\nvoid7\nuint1 bit\n@sealed\n',
        'Un.1.0.dsdl': '@union\nregr.Empty.1.0 e\nfloat64 f\nuint8[<=4] v\nbool b\n@sealed\n',
        'UnExt.1.0.dsdl': '@union\nfloat32 a\nfloat64 b\n@extent 64 * 8\n',
        'SvcUn.1.0.dsdl': '@union\nfloat32 a\nfloat64 b\n@sealed\n---\nfloat32 c\n@sealed\n',
        # bool arrays in every position (struct, union, service halves, delimited): exercised under every language option
        'BoolStruct.1.0.dsdl': 'bool[<=12] bits\nbool[5] fixed\nuint8[<=3] bytes\nregr.nested.Mid.1.0[<=2] inner\n@sealed\n',
        'BoolUnion.1.0.dsdl': '@union\nbool[<=9] bits\nbool[3] fixed\nint16[<=4] ints\nregr.Empty.1.0 one\n@sealed\n',
        'BoolSvc.1.0.dsdl': 'bool[<=7] req_bits\n@sealed\n---\n@union\nbool[<=70] resp_bits\nbool[2] f\n@extent 64 * 8\n',
        'BoolSvcEmpty.1.0.dsdl': '@sealed\n---\nbool[<=8] bits\nuint8 x\n@extent 32 * 8\n',
        'BoolDelim.1.0.dsdl': 'bool[<=4] a\nuint8 b\n@extent 32 * 8\n',
        'IntOnly.1.0.dsdl': 'int32[<=3] a\nuint64 b\nint7 c\nregr.BoolDelim.1.0[<=2] d\n@sealed\n',
        'DocHostile.1.0.dsdl': ''.join('# %s\n' % d for d in DOC_POOL if '\t' not in d) + 'uint8 a  # field doc ends with backslash \\\n# and goes on ??/\n'
                               'uint8 K = 1  # constant doc \\\n@sealed\n',
        'DocUnion.1.0.dsdl': '# union doc */ \\\n@union\nuint8 a  # opt ??/\nuint16 b  # opt \\\n@sealed\n---\n# response doc \\\nuint8 r  # \\\n@sealed\n',
        'Old.1.0.dsdl': '@deprecated\nuint8 x\n@sealed\n',
        'Older.1.0.dsdl': '@deprecated\nregr.Old.1.0 o\n@sealed\n',
        '300.Svc.1.0.dsdl': 'uint8 a\n@sealed\n---\nregr.Un.1.0 u\n@extent 1024 * 8\n',
        '7000.Msg.1.0.dsdl': 'truncated uint5 t\nsaturated int9 s\n@sealed\n',
    }}, 'main': 'regr', 'lookup': []})
    # hostile names, hand-picked: keywords of all three languages at every position
    cases.append({'roots': {
        'class': {
            'None.1.0.dsdl': 'uint8 str\nuint8 id\nfloat32 def\nbool[3] register\nint8 _Upper\nuint8 __dunder\nuint8 x__y\n@sealed\n',
            'goto/double.1.0.dsdl': 'class.None.1.0 long\nclass.None.1.0[<=2] short\nvolatile.static.1.0 return\n@sealed\n',
            'goto/for/while/do/if.1.0.dsdl': 'class.goto.double.1.0 else\nuint8 namespace\nuint8 operator\nuint8 new\nuint8 delete\n@extent 4096 * 8\n',
            # every ISO C11 / C++20 keyword and alternative token (independent table above) that pydsdl accepts, as a field name
            # (two types: `_Alignas` and `alignas` strop to the same identifier, which would fall under the stropping-fold exclusion)
            'KeywordsC.1.0.dsdl': ''.join('uint8 %s\n' % w for w in sorted(set(ISO_C11_KEYWORDS)) if dsdl_ok(w)) + '@sealed\n',
            'KeywordsCpp.1.0.dsdl': ''.join('uint8 %s\n' % w for w in sorted(set(ISO_CPP20_KEYWORDS)) if dsdl_ok(w)) + '@sealed\n',
            'lambda.1.0.dsdl': '@union\nuint8 del\nuint16 pass\nclass.None.1.0 yield\n@sealed\n',
            'import.1.0.dsdl': 'uint8 from\n@sealed\n---\n@union\nuint8 as\nfloat64 global\n@sealed\n',
            'NotImplemented.1.0.dsdl': 'uint8 Ellipsis = 1\nuint8 NULL = 2\nint64 EOF = -9223372036854775808\nuint8 uint8_t\nuint8 size_t\nuint8 errno\n@sealed\n',
        },
        'volatile': {'static.1.0.dsdl': 'uint8 inline\nuint8 restrict\n@sealed\n'},
    }, 'main': 'class', 'lookup': ['volatile']})
    return cases


def witness_corpus(repo: str = os.environ.get('VERIF_REPO', '/repo')) -> typing.List[dict]:
    """minimised witnesses of failure classes met while sweeping seeds (beyond the probed witnesses of known_findings.d/C06.json): they are
    part of every run; each must be recognised by the trigger of its class (a listed finding or the stropping-fold exclusion)"""
    def one(root, files, lookup=None):
        return {'roots': dict({root: files}, **(lookup or {})), 'main': root, 'lookup': sorted(lookup or {})}
    return [
        # F-C06-CPP-NS-SHADOW (a) deeper namespace component named like the root; sibling reference through the parent scope
        one('nsa', {'x/nsa/Plain.1.0.dsdl': 'uint8 v\n@sealed\n', 'c/U.1.0.dsdl': 'uint8 v\n@sealed\n',
                    'x/nsa/T.1.0.dsdl': 'nsa.c.U.1.0 u\n@sealed\n', 'x/Sib.1.0.dsdl': 'nsa.x.nsa.Plain.1.0 p\n@sealed\n',
                    'y/Far.1.0.dsdl': 'nsa.x.nsa.Plain.1.0 p\n@sealed\n'}),
        # (a') a service opens a namespace of its own short name: service named like the root (the lead's seed-7 case, minimised)
        one('atomic_flag', {'Z/alpha/break.255.0.dsdl': 'int5 Eta = -16\n@sealed\n',
                            'Z/alpha/atomic_flag.255.1.dsdl': 'atomic_flag.Z.alpha.break.255.0[<=16] _Alignas\n@sealed\n---\nfloat32 throw = 1e0\n@extent 126 * 8\n'}),
        # (b) root namespace spelled allocator_type (c++17-pmr: `using allocator_type` in every class)
        one('allocator_type', {'y/Obj.1.0.dsdl': 'uint8 v\n@sealed\n', 'User.1.0.dsdl': 'allocator_type.y.Obj.1.0 o\n@sealed\n'}),
        # (c) a field of class type named like the root namespace of a later reference
        one('foo', {'U.1.0.dsdl': 'uint8 v\n@sealed\n', 'T.1.0.dsdl': 'foo.U.1.0 foo\nfoo.U.1.0 other\n@sealed\n',
                    'T2.1.0.dsdl': 'uint8 foo\nfoo.U.1.0 other\n@sealed\n'}),
        # (d) namespace components named std / size_t hide the templates' own std:: and unqualified size_t
        one('chr', {'std/Break.1.0.dsdl': 'uint8[<=2] v\n@sealed\n', 'size_t/U.1.0.dsdl': '@union\nuint8 a\nuint16 b\n@sealed\n',
                    'size_t.0.1.dsdl': '@union\nfloat64 a\nuint11[4] b\n@sealed\n---\n@sealed\n'}),
        # the property's exclusion: names folded onto one identifier by the one-way stropping (field/field, field/constant)
        one('fold', {'A.1.0.dsdl': 'uint32 _Alignas\nuint8 _alignas\n@sealed\n', 'B.1.0.dsdl': 'uint8 pragma = 1\nuint8 _pragma\n@sealed\n',
                     'C.1.0.dsdl': 'fold.A.1.0 a\n@sealed\n'}),
        # F-C06-CPP-GLOBAL-CLASH: gcc built-in function name as root namespace (no header needed)
        one('tolower', {'T.1.0.dsdl': 'uint8 x\n@sealed\n'}),
        # ... and a root spelled std: its sub-namespaces are declared inside ::std and clash with library members (std::isalpha)
        one('std', {'isalpha/std.1.0.dsdl': '@sealed\n---\n@union\nuint8 tolower\nint16[8] delta\n@extent 115 * 8\n'}),
        # F-C06-C-GENERATED-NAME: constants / fields named like macros and functions the C templates generate for the same type
        one('gnm', {'C.1.0.dsdl': 'uint8 EXTENT_BYTES_ = 3\nuint8[<=3] a\nuint8 a_ARRAY_CAPACITY_ = 1\n@sealed\n', 'D.1.0.dsdl': 'uint8 serialize_ = 3\n@sealed\n',
                    'U.1.0.dsdl': '@union\nuint8 a\nuint16 is_a_\nuint8 UNION_OPTION_COUNT_ = 9\n@sealed\n'}),
        # F-C06-CPP-MEMBER-CLASH: fields / union options / constants named like members the C++ templates declare in the same class
        #  (names derived from the templates at run time; struct, union, constants, and a service with a union request)
        (lambda gm: one('gmc', {
            'S.1.0.dsdl': ''.join('uint8 %s\n' % n for n in gm) + 'uint64[<=8] arr\n@sealed\n',
            'U.1.0.dsdl': '@union\n' + ''.join('int32 %s\n' % n for n in gm) + 'uint64[<=8] arr\n@sealed\n',
            'K.1.0.dsdl': ''.join('uint8 %s = 1\n' % n for n in gm) + 'uint8 x\n@sealed\n',
            'V.1.1.dsdl': '@union\nint32 allocator_type\nuint64[<=8] arr\n@sealed\n---\n@sealed\n'}))(
            [n for n in generated_cpp_members(repo) if dsdl_ok(n)]),
        # F-C06-PY-MODULE-SHADOW, support/third-party names as ROOT
        one('nunavut_support', {'T.1.0.dsdl': 'uint8 a\n@sealed\n'}),
        one('numpy', {'T.1.0.dsdl': 'uint8 a\n@sealed\n'}),
        # F-C06-PY-MODULE-SHADOW: a LOOKUP root named like a stdlib module breaks every module generated into the same directory
        one('shd', {'T.1.0.dsdl': 'string.U.1.0 u\n@sealed\n'}, {'string': {'U.1.0.dsdl': 'uint8 v\n@sealed\n'}}),
    ]


# witnesses of the known findings (probed at run time)
def witness_guard_fold() -> dict:
    return {'roots': {'gf': {
        'a/b/C.1.0.dsdl': 'uint8 x\n@sealed\n',
        'a/b_C.1.0.dsdl': 'uint16 y\n@sealed\n',
        'a/Both.1.0.dsdl': 'gf.a.b.C.1.0 p\ngf.a.b_C.1.0 q\n@sealed\n',
    }}, 'main': 'gf', 'lookup': []}


def witness_svc_union() -> dict:
    return {'roots': {'sv': {'Svc.1.0.dsdl': '@union\nfloat32 a\nfloat64 b\n@sealed\n---\nfloat32 c\n@sealed\n'}}, 'main': 'sv', 'lookup': []}


def witness_pod() -> dict:
    return {'roots': {'pd': {
        'Empty.1.0.dsdl': '@sealed\n',
        'BoolArr.1.0.dsdl': 'bool[8] flags\n@sealed\n',
        'Un.1.0.dsdl': '@union\nfloat32 a\nfloat64 b\n@sealed\n',
        'Flt.1.0.dsdl': 'float32 a\n@sealed\n',
    }}, 'main': 'pd', 'lookup': []}
