/* C14: empty stand-in (the sandbox has no 32-bit glibc development files); used only by the 32-bit -fsyntax-only C++ build */
