/* C14 harness: line-command driver around the RENDERED C support header
 * (nunavut/support/serialization.h, found through -I).  Same protocol as ocaml/c14_driver.ml.
 * Every buffer argument is copied into a fresh heap block with GUARD bytes of a position-dependent
 * pattern on both sides; after the call the guards are verified ("GUARD" is printed instead of the
 * answer if one changed).  With -DEXACT_ALLOC the block is exactly as large as the buffer, so that
 * AddressSanitizer sees one-past-the-end accesses. */
#include <assert.h>
#include <inttypes.h>
#include <stdio.h>
#include <stdlib.h>
#include <string.h>
#include "nunavut/support/serialization.h"

#ifdef EXACT_ALLOC
#define GUARD 0
#else
#define GUARD 16
#endif

typedef struct { uint8_t* base; uint8_t* p; size_t n; } Buf;

static uint8_t guard_byte(size_t i) { return (uint8_t)(0xA5U ^ (uint8_t)(i * 29U)); }

static int hexval(int c)
{
    if (c >= '0' && c <= '9') return c - '0';
    if (c >= 'a' && c <= 'f') return c - 'a' + 10;
    if (c >= 'A' && c <= 'F') return c - 'A' + 10;
    return -1;
}

static Buf mkbuf(const char* hex)
{
    Buf b;
    size_t n = (hex[0] == '-') ? 0 : strlen(hex) / 2;
    b.n = n;
    b.base = (uint8_t*) malloc(n + 2 * GUARD + ((n + 2 * GUARD) == 0 ? 1 : 0));
    if (b.base == NULL) { fprintf(stderr, "oom\n"); exit(3); }
    for (size_t i = 0; i < GUARD; i++) { b.base[i] = guard_byte(i); b.base[GUARD + n + i] = guard_byte(i + 7); }
    b.p = b.base + GUARD;
    for (size_t i = 0; i < n; i++) b.p[i] = (uint8_t)(hexval(hex[2 * i]) * 16 + hexval(hex[2 * i + 1]));
    return b;
}

static int guards_ok(const Buf* b)
{
    for (size_t i = 0; i < GUARD; i++)
        if (b->base[i] != guard_byte(i) || b->base[GUARD + b->n + i] != guard_byte(i + 7)) return 0;
    return 1;
}

static void show(const Buf* b)
{
    if (b->n == 0) { fputs("-", stdout); return; }
    for (size_t i = 0; i < b->n; i++) printf("%02x", b->p[i]);
}

static void finish_buf(const char* prefix, Buf* b)
{
    if (!guards_ok(b)) { puts("GUARD"); }
    else { fputs(prefix, stdout); show(b); putchar('\n'); }
    free(b->base);
}

#define MAXTOK 8
int main(void)
{
    static char line[1 << 16];
    while (fgets(line, sizeof line, stdin) != NULL)
    {
        char* tok[MAXTOK]; int nt = 0;
        for (char* s = strtok(line, " \r\n"); s != NULL && nt < MAXTOK; s = strtok(NULL, " \r\n")) tok[nt++] = s;
        if (nt == 0) { puts("ERR empty"); continue; }
        const char* c = tok[0];
        char pre[16];
        if (!strcmp(c, "sat") && nt == 4)
        {
            printf("%zu\n", nunavutSaturateBufferFragmentBitLength((size_t) strtoull(tok[1], 0, 10), (size_t) strtoull(tok[2], 0, 10),
                                                                   (size_t) strtoull(tok[3], 0, 10)));
        }
        else if (!strcmp(c, "cp") && nt == 6)
        {
            Buf d = mkbuf(tok[1]), s = mkbuf(tok[4]);
            nunavutCopyBits(d.p, (size_t) strtoull(tok[2], 0, 10), (size_t) strtoull(tok[3], 0, 10), s.p, (size_t) strtoull(tok[5], 0, 10));
            if (!guards_ok(&s)) { puts("GUARD"); free(d.base); } else finish_buf("", &d);
            free(s.base);
        }
        else if (!strcmp(c, "gb") && nt == 6)
        {
            Buf o = mkbuf(tok[1]), b = mkbuf(tok[2]);
            nunavutGetBits(o.p, b.p, (size_t) strtoull(tok[3], 0, 10), (size_t) strtoull(tok[4], 0, 10), (size_t) strtoull(tok[5], 0, 10));
            if (!guards_ok(&b)) { puts("GUARD"); free(o.base); } else finish_buf("", &o);
            free(b.base);
        }
        else if (!strcmp(c, "sb") && nt == 5)
        {
            Buf b = mkbuf(tok[1]);
            int rc = nunavutSetBit(b.p, (size_t) strtoull(tok[2], 0, 10), (size_t) strtoull(tok[3], 0, 10), tok[4][0] != '0');
            snprintf(pre, sizeof pre, "%d ", rc); finish_buf(pre, &b);
        }
        else if (!strcmp(c, "su") && nt == 6)
        {
            Buf b = mkbuf(tok[1]);
            int rc = nunavutSetUxx(b.p, (size_t) strtoull(tok[2], 0, 10), (size_t) strtoull(tok[3], 0, 10),
                                   (uint64_t) strtoull(tok[4], 0, 10), (uint8_t) strtoul(tok[5], 0, 10));
            snprintf(pre, sizeof pre, "%d ", rc); finish_buf(pre, &b);
        }
        else if (!strcmp(c, "si") && nt == 6)
        {
            Buf b = mkbuf(tok[1]);
            int rc = nunavutSetIxx(b.p, (size_t) strtoull(tok[2], 0, 10), (size_t) strtoull(tok[3], 0, 10),
                                   (int64_t) strtoll(tok[4], 0, 10), (uint8_t) strtoul(tok[5], 0, 10));
            snprintf(pre, sizeof pre, "%d ", rc); finish_buf(pre, &b);
        }
        else if (!strcmp(c, "gu") && nt == 6)
        {
            Buf b = mkbuf(tok[2]);
            const size_t size = (size_t) strtoull(tok[3], 0, 10), off = (size_t) strtoull(tok[4], 0, 10);
            const uint8_t len = (uint8_t) strtoul(tok[5], 0, 10);
            uint64_t v = 0;
            switch (atoi(tok[1]))
            {
            case 8: v = nunavutGetU8(b.p, size, off, len); break;
            case 16: v = nunavutGetU16(b.p, size, off, len); break;
            case 32: v = nunavutGetU32(b.p, size, off, len); break;
            default: v = nunavutGetU64(b.p, size, off, len); break;
            }
            if (!guards_ok(&b)) puts("GUARD"); else printf("%" PRIu64 "\n", v);
            free(b.base);
        }
        else if (!strcmp(c, "gi") && nt == 6)
        {
            Buf b = mkbuf(tok[2]);
            const size_t size = (size_t) strtoull(tok[3], 0, 10), off = (size_t) strtoull(tok[4], 0, 10);
            const uint8_t len = (uint8_t) strtoul(tok[5], 0, 10);
            int64_t v = 0;
            switch (atoi(tok[1]))
            {
            case 8: v = nunavutGetI8(b.p, size, off, len); break;
            case 16: v = nunavutGetI16(b.p, size, off, len); break;
            case 32: v = nunavutGetI32(b.p, size, off, len); break;
            default: v = nunavutGetI64(b.p, size, off, len); break;
            }
            if (!guards_ok(&b)) puts("GUARD"); else printf("%" PRId64 "\n", v);
            free(b.base);
        }
        else if (!strcmp(c, "gbit") && nt == 4)
        {
            Buf b = mkbuf(tok[1]);
            bool v = nunavutGetBit(b.p, (size_t) strtoull(tok[2], 0, 10), (size_t) strtoull(tok[3], 0, 10));
            if (!guards_ok(&b)) puts("GUARD"); else puts(v ? "1" : "0");
            free(b.base);
        }
#ifndef C14_OMIT_FLOAT   /* rendering with --omit-float-serialization-support has none of these */
        else if ((!strcmp(c, "sf32") || !strcmp(c, "sf64") || !strcmp(c, "sf16")) && nt == 5)
        {
            Buf b = mkbuf(tok[1]);
            const size_t size = (size_t) strtoull(tok[2], 0, 10), off = (size_t) strtoull(tok[3], 0, 10);
            int rc;
            if (c[2] == '6') { union { uint64_t u; double d; } x; x.u = strtoull(tok[4], 0, 10); rc = nunavutSetF64(b.p, size, off, x.d); }
            else { union { uint32_t u; float f; } x; x.u = (uint32_t) strtoul(tok[4], 0, 10);
                   rc = (c[2] == '3') ? nunavutSetF32(b.p, size, off, x.f) : nunavutSetF16(b.p, size, off, x.f); }
            snprintf(pre, sizeof pre, "%d ", rc); finish_buf(pre, &b);
        }
        else if ((!strcmp(c, "gf32") || !strcmp(c, "gf64") || !strcmp(c, "gf16")) && nt == 4)
        {
            Buf b = mkbuf(tok[1]);
            const size_t size = (size_t) strtoull(tok[2], 0, 10), off = (size_t) strtoull(tok[3], 0, 10);
            uint64_t v;
            if (c[2] == '6') { union { uint64_t u; double d; } x; x.d = nunavutGetF64(b.p, size, off); v = x.u; }
            else { union { uint32_t u; float f; } x; x.f = (c[2] == '3') ? nunavutGetF32(b.p, size, off) : nunavutGetF16(b.p, size, off); v = x.u; }
            if (!guards_ok(&b)) puts("GUARD"); else printf("%" PRIu64 "\n", v);
            free(b.base);
        }
        else if (!strcmp(c, "f16p") && nt == 2)
        {
            union { uint32_t u; float f; } x; x.u = (uint32_t) strtoul(tok[1], 0, 10);
            printf("%u\n", (unsigned) nunavutFloat16Pack(x.f));
        }
        else if (!strcmp(c, "f16u") && nt == 2)
        {
            union { uint32_t u; float f; } x; x.f = nunavutFloat16Unpack((uint16_t) strtoul(tok[1], 0, 10));
            printf("%u\n", (unsigned) x.u);
        }
        else if (!strcmp(c, "f16pr") && nt == 4)
        {   /* range: start count step -> one line with a 64-bit FNV-1a digest and the outputs are NOT printed; see f16pl */
            uint32_t a = (uint32_t) strtoul(tok[1], 0, 10); uint64_t n = strtoull(tok[2], 0, 10); uint32_t st = (uint32_t) strtoul(tok[3], 0, 10);
            uint64_t h = 1469598103934665603ULL;
            for (uint64_t i = 0; i < n; i++, a += st)
            {
                union { uint32_t u; float f; } x; x.u = a;
                uint16_t r = nunavutFloat16Pack(x.f);
                h = (h ^ (r & 0xFFU)) * 1099511628211ULL; h = (h ^ (r >> 8U)) * 1099511628211ULL;
            }
            printf("%" PRIu64 "\n", h);
        }
        else if (!strcmp(c, "f16pb") && nt == 4)
        {   /* range: start count path -> the packed values as raw little-endian uint16 in a file */
            uint32_t a = (uint32_t) strtoul(tok[1], 0, 10); uint64_t n = strtoull(tok[2], 0, 10);
            FILE* f = fopen(tok[3], "wb");
            if (f == NULL) { puts("ERR open"); continue; }
            static uint16_t chunk[1 << 16];
            uint64_t done = 0;
            while (done < n)
            {
                size_t m = (size_t)((n - done) < (1U << 16) ? (n - done) : (1U << 16));
                for (size_t i = 0; i < m; i++, a++) { union { uint32_t u; float f; } x; x.u = a; chunk[i] = nunavutFloat16Pack(x.f); }
                fwrite(chunk, sizeof(uint16_t), m, f);
                done += m;
            }
            fclose(f);
            puts("ok");
        }
        else if (!strcmp(c, "f16pl") && nt == 4)
        {   /* range: start count step -> the packed values, space separated, on one line */
            uint32_t a = (uint32_t) strtoul(tok[1], 0, 10); uint64_t n = strtoull(tok[2], 0, 10); uint32_t st = (uint32_t) strtoul(tok[3], 0, 10);
            for (uint64_t i = 0; i < n; i++, a += st)
            {
                union { uint32_t u; float f; } x; x.u = a;
                printf(i ? " %u" : "%u", (unsigned) nunavutFloat16Pack(x.f));
            }
            putchar('\n');
        }
        else if (!strcmp(c, "f16ul") && nt == 3)
        {   /* range: start count -> the unpacked bit patterns on one line */
            uint32_t a = (uint32_t) strtoul(tok[1], 0, 10); uint32_t n = (uint32_t) strtoul(tok[2], 0, 10);
            for (uint32_t i = 0; i < n; i++)
            {
                union { uint32_t u; float f; } x; x.f = nunavutFloat16Unpack((uint16_t)(a + i));
                printf(i ? " %u" : "%u", (unsigned) x.u);
            }
            putchar('\n');
        }
#endif
        else
        {
            puts("ERR unknown command");
        }
    }
    return 0;
}
