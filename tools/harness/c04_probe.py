"""C04 probes on hand-written C drivers (real nnvg output, clang -fsanitize=address,undefined, exactly-sized heap blocks):

  * the documented per-field capacity override (--enable-override-variable-array-capacity + -D<T>_<f>_ARRAY_CAPACITY_=k):
    deserialization / serialization with counts between the reduced and the DSDL capacity, serialization into a buffer that is
    too small while the up-front check is compiled out, and the well-behaved uses (counts within the reduced capacity);
  * the address `&buffer[offset_bits / 8U]` handed to a nested deserializer when the cursor has run past the capacity
    (implicit zero extension): observed by intercepting the nested routine with a function-like macro.

`run(repo, workdir)` returns a dict of observations; interpretation is done by tools/checks/c04.py."""
from __future__ import annotations

import os
import re
import subprocess
import typing

PY = '/venv/bin/python'

FILES = {
    'c04p/B.1.0.dsdl': 'uint7[<=8] xs\n@sealed\n',
    'c04p/S.1.0.dsdl': 'uint8 a\nuint8[<=4] v\n@sealed\n',
    'c04p/In.1.0.dsdl': 'uint8 a\nuint8 b\n@sealed\n',
    'c04p/Out.1.0.dsdl': 'uint64 big\nc04p.In.1.0 inner\n@sealed\n',
    'c04p/Dl.1.0.dsdl': 'uint8 a\nuint8 b\n@extent 64\n',
    'c04p/OutD.1.0.dsdl': 'uint64 big\nc04p.Dl.1.0 inner\n@sealed\n',
}

DRIVER = r'''
#include <stdio.h>
#include <stdlib.h>
#include <string.h>
#include <stdint.h>
#include "c04p/B_1_0.h"
#include "c04p/S_1_0.h"
#include "c04p/In_1_0.h"
#include "c04p/Dl_1_0.h"
static const uint8_t* g_base = NULL;
static long g_ptr_off = -1;
static long g_sub_cap = -1;
static inline int8_t probe_In(c04p_In_1_0* o, const uint8_t* b, size_t* s)
{
    g_ptr_off = (long) ((uintptr_t) b - (uintptr_t) g_base);
    g_sub_cap = (long) *s;
    return c04p_In_1_0_deserialize_(o, b, s);
}
static inline int8_t probe_Dl(c04p_Dl_1_0* o, const uint8_t* b, size_t* s)
{
    g_ptr_off = (long) ((uintptr_t) b - (uintptr_t) g_base);
    g_sub_cap = (long) *s;
    return c04p_Dl_1_0_deserialize_(o, b, s);
}
#define c04p_In_1_0_deserialize_(o, b, s) probe_In((o), (b), (s))
#define c04p_Dl_1_0_deserialize_(o, b, s) probe_Dl((o), (b), (s))
#include "c04p/Out_1_0.h"
#include "c04p/OutD_1_0.h"

static uint8_t* hexbuf(const char* h, size_t* n)
{
    size_t l = (strcmp(h, "-") == 0) ? 0 : strlen(h) / 2;
    uint8_t* b = (uint8_t*) malloc(l);
    if (b == NULL) { b = (uint8_t*) malloc(1); }
    for (size_t i = 0; i < l; i++) { unsigned v = 0; sscanf(h + 2 * i, "%2x", &v); b[i] = (uint8_t) v; }
    *n = l;
    return b;
}
static void hexout(const uint8_t* b, size_t n) { for (size_t i = 0; i < n; i++) { printf("%02x", b[i]); } if (n == 0) { putchar('-'); } }

int main(int argc, char** argv)
{
    if (argc < 3) { return 2; }
    const char* cmd = argv[1];
    if (strcmp(cmd, "des_b") == 0)
    {
        size_t n = 0; uint8_t* b = hexbuf(argv[2], &n);
        c04p_B_1_0* o = (c04p_B_1_0*) malloc(sizeof(c04p_B_1_0)); memset(o, 0, sizeof(*o));
        size_t sz = n; const int rc = c04p_B_1_0_deserialize_(o, b, &sz);
        printf("rc=%d size=%zu count=%zu storage=%zu\n", rc, sz, o->xs.count, (size_t) c04p_B_1_0_xs_ARRAY_CAPACITY_);
        free(o); free(b);
    }
    else if (strcmp(cmd, "ser_b") == 0 && argc >= 4)
    {
        c04p_B_1_0* o = (c04p_B_1_0*) malloc(sizeof(c04p_B_1_0)); memset(o, 0, sizeof(*o));
        o->xs.count = (size_t) atoi(argv[2]);
        size_t cap = (size_t) atoi(argv[3]); uint8_t* b = (uint8_t*) malloc(cap); if (b == NULL) { b = (uint8_t*) malloc(1); }
        memset(b, 0xFF, cap);
        size_t sz = cap; const int rc = c04p_B_1_0_serialize_(o, b, &sz);
        printf("rc=%d size=%zu ", rc, sz); if (rc >= 0 && sz <= cap) { hexout(b, sz); } putchar('\n');
        free(o); free(b);
    }
    else if (strcmp(cmd, "ser_s") == 0 && argc >= 4)
    {
        c04p_S_1_0* o = (c04p_S_1_0*) malloc(sizeof(c04p_S_1_0)); memset(o, 0, sizeof(*o));
        o->a = 7; o->v.count = (size_t) atoi(argv[2]);
        size_t cap = (size_t) atoi(argv[3]); uint8_t* b = (uint8_t*) malloc(cap); if (b == NULL) { b = (uint8_t*) malloc(1); }
        memset(b, 0xFF, cap);
        size_t sz = cap; const int rc = c04p_S_1_0_serialize_(o, b, &sz);
        printf("rc=%d size=%zu ", rc, sz); if (rc >= 0 && sz <= cap) { hexout(b, sz); } putchar('\n');
        free(o); free(b);
    }
    else if (strcmp(cmd, "ptr") == 0 || strcmp(cmd, "ptrd") == 0)
    {
        size_t n = 0; uint8_t* b = hexbuf(argv[2], &n);
        g_base = b;
        size_t sz = n; int rc = 0;
        if (strcmp(cmd, "ptr") == 0)
        {
            c04p_Out_1_0* o = (c04p_Out_1_0*) malloc(sizeof(c04p_Out_1_0)); memset(o, 0xA5, sizeof(*o));
            rc = c04p_Out_1_0_deserialize_(o, b, &sz);
            printf("rc=%d size=%zu a=%u b=%u ", rc, sz, (unsigned) o->inner.a, (unsigned) o->inner.b);
            free(o);
        }
        else
        {
            c04p_OutD_1_0* o = (c04p_OutD_1_0*) malloc(sizeof(c04p_OutD_1_0)); memset(o, 0xA5, sizeof(*o));
            rc = c04p_OutD_1_0_deserialize_(o, b, &sz);
            printf("rc=%d size=%zu a=%u b=%u ", rc, sz, (unsigned) o->inner.a, (unsigned) o->inner.b);
            free(o);
        }
        printf("cap=%zu ptr_off=%ld sub_cap=%ld\n", n, g_ptr_off, g_sub_cap);
        free(b);
    }
    else { return 2; }
    return 0;
}
'''


from tools.harness.codec import target_c as _tc


class OvrCTarget(_tc.CTarget):
    """the C01/C02 C runner with --enable-override-variable-array-capacity (capacities NOT reduced: the generated code must then
    behave exactly like the default rendering, guards and storage-capacity checks included)"""

    def generate(self, ns_dirs, outdir, repo):
        env = dict(os.environ)
        env['PYTHONPATH'] = os.path.join(repo, 'src')
        env.setdefault('PYTHONHASHSEED', '0')
        env['PYTHONDONTWRITEBYTECODE'] = '1'
        log = ''
        for i, d in enumerate(ns_dirs):
            cmd = [PY, '-m', 'nunavut', '--target-language', 'c', '--outdir', outdir, '--allow-unregulated-fixed-port-id',
                   '--enable-override-variable-array-capacity', '--target-endianness', self.options.get('target_endianness', 'any')]
            if self.options.get('enable_serialization_asserts'):
                cmd.append('--enable-serialization-asserts')
            for j, o in enumerate(ns_dirs):
                if j != i:
                    cmd += ['-I', o]
            cmd.append(d)
            p = subprocess.run(cmd, env=env, stdout=subprocess.PIPE, stderr=subprocess.STDOUT, text=True, errors='replace', timeout=600)
            log += p.stdout
            if p.returncode != 0:
                return False, 'nnvg failed (%s): %s' % (' '.join(cmd), p.stdout[-3000:])
        return True, log


def _run(cmd, timeout=300, env=None, cwd=None):
    return subprocess.run(cmd, stdout=subprocess.PIPE, stderr=subprocess.PIPE, text=True, errors='replace', timeout=timeout, env=env, cwd=cwd)


def build(repo: str, workdir: str) -> typing.Tuple[typing.Dict[str, str], str]:
    """-> ({'ovr': exe built with reduced capacities, 'std': exe with the default capacities (override option on),
           'plain': exe generated WITHOUT the option}, log)"""
    os.makedirs(workdir, exist_ok=True)
    ns = os.path.join(workdir, 'dsdl', 'c04p')
    os.makedirs(ns, exist_ok=True)
    for rel, text in FILES.items():
        with open(os.path.join(workdir, 'dsdl', rel), 'w', encoding='utf-8') as f:
            f.write(text)
    env = dict(os.environ)
    env['PYTHONPATH'] = os.path.join(repo, 'src')
    env['PYTHONDONTWRITEBYTECODE'] = '1'
    env.setdefault('PYTHONHASHSEED', '0')
    log = ''
    exes: typing.Dict[str, str] = {}
    src = os.path.join(workdir, 'probe.c')
    with open(src, 'w', encoding='utf-8') as f:
        f.write(DRIVER)
    for gen_name, flags in (('gen_ovr', ['--enable-override-variable-array-capacity']), ('gen_plain', []),
                            ('gen_ovr_as', ['--enable-override-variable-array-capacity', '--enable-serialization-asserts'])):
        out = os.path.join(workdir, gen_name)
        p = _run([PY, '-m', 'nunavut', '--target-language', 'c', '--target-endianness', 'any', '--outdir', out] + flags + [ns], env=env)
        log += p.stdout + p.stderr
        if p.returncode != 0:
            return {}, 'nnvg failed: ' + (p.stdout + p.stderr)[-2000:]
    base = ['clang', '-std=c11', '-O1', '-g', '-fsanitize=address,undefined', '-fno-sanitize-recover=all', '-fno-omit-frame-pointer']
    jobs = {
        'ovr': base + ['-I', os.path.join(workdir, 'gen_ovr'), '-Dc04p_B_1_0_xs_ARRAY_CAPACITY_=2', '-Dc04p_S_1_0_v_ARRAY_CAPACITY_=2'],
        'std': base + ['-I', os.path.join(workdir, 'gen_ovr')],
        'plain': base + ['-I', os.path.join(workdir, 'gen_plain')],
        # both options together with REDUCED capacities: a valid serialization must not trip an assertion
        'ovr_as': base + ['-I', os.path.join(workdir, 'gen_ovr_as'), '-DNUNAVUT_ASSERT=assert', '-Dc04p_B_1_0_xs_ARRAY_CAPACITY_=2',
                          '-Dc04p_S_1_0_v_ARRAY_CAPACITY_=2'],
    }
    procs = {}
    for k, cmd in jobs.items():
        exe = os.path.join(workdir, 'probe_' + k)
        procs[k] = (exe, subprocess.Popen(cmd + [src, '-o', exe, '-lm'], stdout=subprocess.PIPE, stderr=subprocess.STDOUT, text=True))
    for k, (exe, pr) in procs.items():
        o, _ = pr.communicate(timeout=600)
        log += o
        if pr.returncode != 0:
            return {}, 'compile failed (%s): %s' % (k, o[-2500:])
        exes[k] = exe
    return exes, log


def call(exe: str, args: typing.List[str]) -> dict:
    env = dict(os.environ)
    env['ASAN_OPTIONS'] = 'detect_leaks=1:abort_on_error=0:allocator_may_return_null=1'
    env['UBSAN_OPTIONS'] = 'print_stacktrace=0:halt_on_error=1'
    try:
        p = _run([exe] + args, timeout=60, env=env)
    except subprocess.TimeoutExpired:
        return {'rc': 'timeout', 'out': '', 'report': 'timeout'}
    m = re.search(r'(ERROR: \w+: [^\n]*|runtime error: [^\n]*|[^\n]*Assertion[^\n]*failed[^\n]*)', p.stderr)
    rep = re.sub(r'0x[0-9a-f]+', '0x..', m.group(1)) if m else ''
    kv = dict(x.split('=', 1) for x in p.stdout.split() if '=' in x)
    return {'rc': p.returncode, 'out': p.stdout.strip(), 'report': rep, 'kv': kv, 'args': args}


# ------------------------------------------------------------------------------------------------
# C++ probes: pointer formed by any_bitspan::subspan(); VariantType() on storage that held garbage, alternative 0 non-trivial
# ------------------------------------------------------------------------------------------------

CPP_FILES = {
    'c04q/Inner.1.0.dsdl': 'uint8[<=3] v\n@sealed\n',
    'c04q/U0.1.0.dsdl': '@union\nc04q.Inner.1.0 v\nuint8 a\nuint16[<=4] w\n@sealed\n',
    'c04q/U1.1.0.dsdl': '@union\nuint16[<=4] w\nuint8 a\n@sealed\n',
    'c04q/U2.1.0.dsdl': '@union\nc04q.U0.1.0 u\nuint8 a\n@sealed\n',
    'c04q/Out.1.0.dsdl': 'uint64 big\nc04q.Inner.1.0 inner\n@sealed\n',
}

CPP_DRIVER = r'''
#include <cstdio>
#include <cstdint>
#include <cstdlib>
#include <cstring>
#include <new>
#include <vector>
#include <array>
#include <limits>
#include <type_traits>
#include <memory>
#define protected public
#include "c04q/U0_1_0.hpp"
#include "c04q/U1_1_0.hpp"
#include "c04q/U2_1_0.hpp"
#include "c04q/Out_1_0.hpp"
template <typename T> static void churn(const char* name)
{
    alignas(T) unsigned char raw[sizeof(T)];
    std::memset(raw, 0xA5, sizeof(T));           // the storage held garbage before the object is constructed in it
    T* p = new (raw) T();
    std::printf("%s_index=%zu ", name, p->union_value.index());
    p->~T();
    T* q = new T();
    T r(*q);                                      // copy, then assign over a live object
    *q = r;
    delete q;
}
int main(int argc, char** argv)
{
    if (argc < 2) { return 2; }
    if (std::strcmp(argv[1], "ctor") == 0)
    {
        churn<c04q::U0_1_0>("U0"); churn<c04q::U1_1_0>("U1"); churn<c04q::U2_1_0>("U2");
        std::printf("rc=0\n");
        return 0;
    }
    const size_t n = (size_t) std::atoi(argv[2]);
    const size_t skip_bits = (size_t) std::atoi(argv[3]);
    uint8_t* b = new uint8_t[n ? n : 1];
    std::memset(b, 1, n ? n : 1);
    nunavut::support::const_bitspan s(b, n);
    s.add_offset(skip_bits);
    auto sub = s.subspan();
    std::printf("rc=0 cap=%zu ptr_off=%ld sub_bits=%zu ", n, (long) ((uintptr_t) sub.unchecked_aligned_ptr() - (uintptr_t) b), (size_t) sub.size());
    c04q::Out_1_0 o{};
    nunavut::support::const_bitspan s2(b, n);
    auto r = deserialize(o, s2);
    std::printf("des_ok=%d\n", (int) bool(r));
    delete[] b;
    return 0;
}
'''


def build_cpp(repo: str, workdir: str) -> typing.Tuple[str, str]:
    os.makedirs(workdir, exist_ok=True)
    ns = os.path.join(workdir, 'dsdl', 'c04q')
    os.makedirs(ns, exist_ok=True)
    for rel, text in CPP_FILES.items():
        with open(os.path.join(workdir, 'dsdl', rel), 'w', encoding='utf-8') as f:
            f.write(text)
    env = dict(os.environ)
    env['PYTHONPATH'] = os.path.join(repo, 'src')
    env['PYTHONDONTWRITEBYTECODE'] = '1'
    env.setdefault('PYTHONHASHSEED', '0')
    out = os.path.join(workdir, 'gen')
    p = _run([PY, '-m', 'nunavut', '--target-language', 'cpp', '--experimental-languages', '--language-standard', 'c++14', '--outdir', out, ns], env=env)
    if p.returncode != 0:
        return '', 'nnvg failed: ' + (p.stdout + p.stderr)[-2000:]
    src = os.path.join(workdir, 'probe.cpp')
    with open(src, 'w', encoding='utf-8') as f:
        f.write(CPP_DRIVER)
    exe = os.path.join(workdir, 'probe_cpp')
    q = _run(['clang++', '-std=c++14', '-O0', '-g', '-fsanitize=address,undefined', '-fno-sanitize-recover=all', '-I', out, src, '-o', exe], timeout=600)
    if q.returncode != 0:
        return '', 'compile failed: ' + (q.stdout + q.stderr)[-2500:]
    return exe, p.stdout + q.stdout
