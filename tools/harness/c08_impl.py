"""C08 harness: runs the real nnvg (tree under test = PYTHONPATH set by core.repo_env()) for ONE case in its four modes with
recursive file-system snapshots around every invocation, measures which template files the two generators' environments
load and which DSDL files the generated types transitively depend on, and probes influence by editing one input at a time.

stdin : JSON {work, files{rel: text}, appends{rel: text appended after copies/files}, copies[{from (relative to <repo>/src/nunavut/lang), to, skip[]}], args[...], root, lookups[...],
              probes[{id, path (relative to work), text | append}], want_trace}
stdout: 'RESULT' + JSON
The harness itself never writes outside `work`.
"""
import hashlib
import json
import os
import shutil
import stat
import subprocess
import sys

PY = sys.executable


def snapshot(root):
    out = {}
    for dirpath, dirnames, filenames in os.walk(root):
        for n in dirnames + filenames:
            p = os.path.join(dirpath, n)
            st = os.lstat(p)
            rel = os.path.relpath(p, root)
            if stat.S_ISLNK(st.st_mode):
                out[rel] = ['l', 0, st.st_mtime_ns, 0, os.readlink(p)]
            elif stat.S_ISDIR(st.st_mode):
                out[rel] = ['d', 0, st.st_mtime_ns, stat.S_IMODE(st.st_mode), '']
            else:
                with open(p, 'rb') as f:
                    h = hashlib.sha256(f.read()).hexdigest()
                out[rel] = ['f', st.st_size, st.st_mtime_ns, stat.S_IMODE(st.st_mode), h]
    return out


def snap_diff(a, b):
    d = []
    for k in sorted(set(a) | set(b)):
        if a.get(k) != b.get(k):
            d.append([k, a.get(k), b.get(k)])
    return d


def nnvg(work, args):
    p = subprocess.run([PY, '-m', 'nunavut'] + args, cwd=work, stdout=subprocess.PIPE, stderr=subprocess.PIPE, text=True, timeout=120)
    return p.returncode, p.stdout, p.stderr[-600:]


def split_list(s):
    return [x for x in s.split(';') if x != '']


def content_map(root):
    out = {}
    if not os.path.isdir(root):
        return out
    for dirpath, _, filenames in os.walk(root):
        for n in filenames:
            p = os.path.join(dirpath, n)
            with open(p, 'rb') as f:
                out[os.path.relpath(p, root)] = hashlib.sha256(f.read()).hexdigest()
    return out


def force_rm(path):
    if os.path.isdir(path):
        for dirpath, dirnames, filenames in os.walk(path):
            for n in dirnames + filenames:
                try:
                    os.chmod(os.path.join(dirpath, n), 0o700)
                except OSError:
                    pass
        shutil.rmtree(path, ignore_errors=True)


TRACE_SCRIPT = r'''
import json, os, sys
import pydsdl
from nunavut.cli import _make_parser
from nunavut.cli.runners import ArgparseRunner
from nunavut.jinja.loaders import DSDLTemplateLoader
args = _make_parser().parse_args(sys.argv[1:])
runner = ArgparseRunner(args.root_namespace, args, args.lookup_dir if args.lookup_dir is not None else [])
ids = {id(runner._generator.dsdl_loader): 'types', id(runner._support_generator.dsdl_loader): 'support'}
loaded = {'types': [], 'support': []}
orig = DSDLTemplateLoader.get_source
def get_source(self, environment, template):
    r = orig(self, environment, template)
    loaded[ids.get(id(self), 'other')].append([template, os.path.realpath(r[1]) if r[1] else None])
    return r
DSDLTemplateLoader.get_source = get_source
def deps(t, seen):
    for a in getattr(t, 'attributes', []):
        dt = a.data_type
        while isinstance(dt, pydsdl.ArrayType):
            dt = dt.element_type
        if isinstance(dt, pydsdl.CompositeType) and str(dt.source_file_path) not in seen:
            seen.add(str(dt.source_file_path))
            deps(dt, seen)
    for sub in ('request_type', 'response_type'):
        if hasattr(t, sub):
            deps(getattr(t, sub), seen)
closure = set()
roots = []
for t, _ in runner._root_namespace.get_all_datatypes():
    roots.append(str(t.source_file_path))
    closure.add(str(t.source_file_path))
    deps(t, closure)
# every definition the DSDL front end reads to build the generated types (also those referred to only inside expressions)
if roots:
    import pathlib
    _, also_read = pydsdl.read_files([pathlib.Path(p) for p in roots], pathlib.Path(args.root_namespace).resolve(),
                                     args.lookup_dir if args.lookup_dir is not None else [],
                                     allow_unregulated_fixed_port_id=args.allow_unregulated_fixed_port_id)
    closure.update(str(t.source_file_path) for t in also_read)
err = None
try:
    runner.run()
except BaseException as ex:
    err = repr(ex)[:300]
sys.stdout.write('TRACE' + json.dumps({'loaded': loaded, 'closure': sorted(closure), 'roots': sorted(roots), 'error': err,
                                      'ns_types': bool(runner._generator.generate_namespace_types)}) + '\n')
'''


def main():
    job = json.load(sys.stdin)
    work = os.path.realpath(job['work'])
    os.makedirs(work, exist_ok=True)
    repo_lang = os.path.join(os.environ['PYTHONPATH'].split(os.pathsep)[0], 'nunavut', 'lang')
    for c in job.get('copies', []):
        src, dst = os.path.join(repo_lang, c['from']), os.path.join(work, c['to'])
        skip = set(c.get('skip', []))
        for dirpath, dirnames, filenames in os.walk(src):
            dirnames[:] = [d for d in dirnames if d != '__pycache__']
            for n in filenames:
                rel = os.path.relpath(os.path.join(dirpath, n), src)
                if rel in skip or n == '__init__.py' or n.endswith('.pyc'):
                    continue
                if c.get('only') is not None and rel not in c['only']:
                    continue
                os.makedirs(os.path.dirname(os.path.join(dst, rel)) or dst, exist_ok=True)
                shutil.copyfile(os.path.join(dirpath, n), os.path.join(dst, rel))
        os.makedirs(dst, exist_ok=True)
    for rel, text in job['files'].items():
        p = os.path.join(work, rel)
        os.makedirs(os.path.dirname(p), exist_ok=True)
        with open(p, 'w', encoding='utf-8') as f:
            f.write(text)
    for rel, text in job.get('appends', {}).items():
        with open(os.path.join(work, rel), 'a', encoding='utf-8') as f:
            f.write(text)
    for d in job.get('mkdirs', []):
        os.makedirs(os.path.join(work, d), exist_ok=True)
    for link, target in job.get('symlinks', {}).items():
        os.symlink(target, os.path.join(work, link))
    # inventories of the custom template directories: what a loader can SERVE (it opens <dir>/<name>, so linked
    # sub-directories are followed)
    inventories = {}
    for d in job.get('inventory', []):
        inv = []
        for dirpath, _, filenames in os.walk(os.path.join(work, d), followlinks=True):
            for n in filenames:
                inv.append(os.path.relpath(os.path.join(dirpath, n), os.path.join(work, d)))
        inventories[d] = sorted(inv)
    outdir = job.get('outdir', 'out')      # as spelled on the command line, relative to `work`

    def real_rel(p):
        return os.path.relpath(os.path.realpath(os.path.join(work, p)), work)
    base = list(job['args']) + ['-O', outdir] + [x for lk in job.get('lookups', []) for x in ('-I', lk)]
    root = job['root']
    res = {'work': work, 'inventories': inventories, 'modes': {}, 'real_outdir': real_rel(outdir)}
    s0 = snapshot(work)
    res['pre_dirs'] = sorted(k for k, v in s0.items() if v[0] == 'd')
    for mode, extra in (('list_outputs', ['--list-outputs']), ('list_inputs', ['--list-inputs']), ('dry_run', ['--dry-run'])):
        rc, out, err = nnvg(work, base + extra + [root])
        s1 = snapshot(work)
        res['modes'][mode] = {'rc': rc, 'listing': split_list(out) if mode != 'dry_run' else [], 'stdout_len': len(out),
                              'listing_real': [real_rel(x) for x in split_list(out)] if mode == 'list_outputs' else [],
                              'fs_diff': snap_diff(s0, s1)[:20], 'stderr': err if rc != 0 else ''}
    rc, out, err = nnvg(work, base + [root])
    s4 = snapshot(work)
    created_files = sorted(k for k, v in s4.items() if k not in s0 and v[0] == 'f')
    created_dirs = sorted(k for k, v in s4.items() if k not in s0 and v[0] == 'd')
    touched = sorted(k for k in s0 if s4.get(k) != s0[k])
    res['modes']['real'] = {'rc': rc, 'created_files': created_files, 'created_dirs': created_dirs, 'touched_existing': touched,
                            'stdout_len': len(out), 'stderr': err if rc != 0 else ''}
    # a second dry run / listing over the now existing output must not touch it either
    s5 = snapshot(work)
    rc2, out2, _ = nnvg(work, base + ['--list-outputs', root])
    rc3, _, _ = nnvg(work, base + ['--dry-run', root])
    res['modes']['over_existing'] = {'rc': [rc2, rc3], 'fs_diff': snap_diff(s5, snapshot(work))[:20], 'listing': split_list(out2)}

    # a second real run over the output of the first (succeeds and keeps the file set; fails with --no-overwrite)
    rc4, _, err4 = nnvg(work, base + [root])
    s6 = snapshot(work)
    res['modes']['rerun'] = {'rc': rc4, 'files_changed': sorted(k for k in set(s5) | set(s6) if (k in s5) != (k in s6))[:20],
                             'stderr': err4[-200:] if rc4 != 0 else ''}
    if job.get('list_configuration'):
        s7 = snapshot(work)
        rcs = []
        for extra in (['--list-configuration'], ['--list-configuration', '--dry-run']):
            rc5, out5, _ = nnvg(work, base + extra + [root])
            rcs.append(rc5)
        res['modes']['list_configuration'] = {'rc': rcs, 'fs_diff': snap_diff(s7, snapshot(work))[:20], 'stdout_len': len(out5)}

    if job.get('want_trace', True):
        targs = list(job['args']) + ['-O', 'out_trace'] + [x for lk in job.get('lookups', []) for x in ('-I', lk)] + [root]
        p = subprocess.run([PY, '-c', TRACE_SCRIPT] + targs, cwd=work, stdout=subprocess.PIPE, stderr=subprocess.STDOUT, text=True, timeout=120)
        tr = None
        for line in p.stdout.splitlines():
            if line.startswith('TRACE'):
                tr = json.loads(line[5:])
        res['trace'] = tr if tr is not None else {'error': 'trace failed: ' + p.stdout[-400:]}
        force_rm(os.path.join(work, 'out_trace'))

    probes = job.get('probes', [])
    res['probes'] = []
    if probes and res['modes']['real']['rc'] == 0:
        basemap = content_map(os.path.realpath(os.path.join(work, outdir)))
        pargs = lambda o: list(job['args']) + ['-O', o] + [x for lk in job.get('lookups', []) for x in ('-I', lk)] + [root]
        rc, _, _ = nnvg(work, pargs('out_ctl'))
        ctl = content_map(os.path.join(work, 'out_ctl'))
        unstable = sorted(k for k in set(basemap) | set(ctl) if basemap.get(k) != ctl.get(k))
        force_rm(os.path.join(work, 'out_ctl'))
        for pr in probes:
            path = os.path.join(work, pr['path'])
            with open(path, 'r', encoding='utf-8') as f:
                old = f.read()
            with open(path, 'w', encoding='utf-8') as f:
                f.write(pr['text'] if 'text' in pr else old + pr['append'])
            rc, _, err = nnvg(work, pargs('out_probe'))
            pm = content_map(os.path.join(work, 'out_probe'))
            changed = sorted(k for k in set(basemap) | set(pm) if basemap.get(k) != pm.get(k) and k not in unstable)
            res['probes'].append({'id': pr['id'], 'path': os.path.realpath(path), 'rc': rc, 'changed': changed[:10], 'n_changed': len(changed),
                                  'stderr': err if rc != 0 else ''})
            force_rm(os.path.join(work, 'out_probe'))
            with open(path, 'w', encoding='utf-8') as f:
                f.write(old)
        res['unstable_outputs'] = unstable
    sys.stdout.write('RESULT' + json.dumps(res) + '\n')


if __name__ == '__main__':
    main()
