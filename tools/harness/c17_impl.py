"""C17 implementation harness: runs the real nnvg (support-only and types-only runs per option set) and the real
compilers on translation units that mix the support header of one run with the type headers of another.

stdin JSON:
  {"scratch": dir, "dsdl": {"demo/A.1.0.dsdl": text, ...}, "root": "demo", "jobs": 6,
   "sets":  [{"id": str, "lang": "c"|"cpp", "cli": [extra nnvg args], "overrides": {key: value} | null, "omit": bool}],
   "pairs": [{"id": str, "lang": ..., "sup": set-id | null, "typ": set-id, "std": "c11"|"c++14"|...}]}
stdout JSON (after the marker @@):
  {"sets": {id: {"ok": bool, "log": str, "sup_options": [[k, text]], "typ_options": {header: [[k, text]]},
                 "defs": {symbol: number}, "asserts": {header: [[symbol, number, line]]}}},
   "pairs": {id: {"rc": int, "failed": [[header, line, symbol]], "undeclared": [symbol], "message_ok": bool,
                  "fatal": str | null, "tail": str}}}
Everything runs with the environment given by the caller (PYTHONPATH=<repo>/src).
"""
import concurrent.futures
import json
import os
import re
import subprocess
import sys

MESSAGE = 'different language options'
PY = sys.executable


def run(cmd, cwd=None, timeout=300):
    try:
        p = subprocess.run(cmd, cwd=cwd, stdout=subprocess.PIPE, stderr=subprocess.STDOUT, timeout=timeout, text=True, errors='replace')
        return p.returncode, p.stdout
    except subprocess.TimeoutExpired:
        return 124, '[timeout]'


def yaml_scalar(v):
    if isinstance(v, bool):
        return 'true' if v else 'false'
    if isinstance(v, int):
        return str(v)
    return json.dumps(v)          # a JSON string is a valid YAML double-quoted scalar


def parse_options_comment(text):
    """the `// Language Options` block at the top of every generated header"""
    out = []
    lines = text.splitlines()
    for i, l in enumerate(lines):
        if l.strip() == '// Language Options':
            for m in lines[i + 1:]:
                mm = re.match(r'//\s+(\w+)\s*:(?: {1,2}(.*))?$', m.rstrip('\n'))
                if not mm:
                    break
                out.append([mm.group(1), (mm.group(2) or '').rstrip()])
            break
    return out


def parse_support(lang, text, ks=None):
    """ks: the key-set fingerprint symbol the template scanner found (None in a tree without it)"""
    if lang == 'c':
        out = {m.group(1): int(m.group(2)) for m in re.finditer(r'^#define (NUNAVUT_SUPPORT_LANGUAGE_OPTION_\w+) (-?\d+)\s*$', text, re.M)}
        if ks:
            for m in re.finditer(r'^#define (%s) (-?\d+)\s*$' % re.escape(ks), text, re.M):
                out[m.group(1)] = int(m.group(2))
        return out
    m = re.search(r'^namespace options\s*\{(.*?)^\}', text, re.S | re.M)
    body = m.group(1) if m else ''
    out = {'nunavut::support::options::' + d.group(1): int(d.group(2))
           for d in re.finditer(r'^constexpr std::uint32_t (\w+) = (-?\d+);', body, re.M)}
    if ks:
        for d in re.finditer(r'^constexpr std::uint32_t (%s) = (-?\d+);' % re.escape(ks.split('::')[-1]), text, re.M):
            out[ks] = int(d.group(2))
    return out


def sym_rx(ks):
    alt = r'(?:NUNAVUT_SUPPORT_LANGUAGE_OPTION_|nunavut::support::options::)\w+'
    if ks:
        alt = r'(?:%s|%s)' % (re.escape(ks) + r'\b', alt)
    return alt


def parse_asserts(text, ks=None):
    out = []
    for i, l in enumerate(text.splitlines(), 1):
        m = re.match(r'\s*static_assert\(\s*(' + sym_rx(ks) + r')\s*==\s*(-?\d+)\s*,', l)
        if m:
            out.append([m.group(1), int(m.group(2)), i])
    return out


def ns_base(job, s):
    """directory that holds the root namespaces of this set: plain, or below a directory name hostile to string literals"""
    h = s.get('hostile')
    return os.path.join(job['scratch'], 'ns_h%d' % h, job['hostile_dirs'][h - 1]) if h else os.path.join(job['scratch'], 'ns')


def standalone(job, s, d, ext):
    """every generated header compiled on its own (nothing pre-included): header -> exit status"""
    out = {}
    c = s['lang'] == 'c'
    files = []
    if not s.get('omit'):
        files.append('nunavut/support/serialization' + ext)
    for root, _, names in os.walk(os.path.join(d, 'typ')):
        files += [os.path.relpath(os.path.join(root, n), os.path.join(d, 'typ')) for n in sorted(names) if n.endswith(ext)]
    os.makedirs(os.path.join(d, 'alone'), exist_ok=True)
    for i, h in enumerate(files):
        tu = os.path.join(d, 'alone', 'a%d%s' % (i, '.c' if c else '.cpp'))
        with open(tu, 'w') as f:
            f.write('#include "%s"\nint main(void) { return 0; }\n' % h)
        rc, log = run(['gcc' if c else 'g++', '-std=' + (s.get('std') or ('c11' if c else 'c++14')), '-fsyntax-only', '-fno-diagnostics-color',
                       '-I', os.path.join(d, 'sup'), '-I', os.path.join(d, 'typ'), '-I', os.path.join(job['scratch'], 'inc'), tu])
        out[h] = [rc, log[-300:] if rc else '']
    return out


def gen_set(job, s):
    d = os.path.join(job['scratch'], 'out', s['id'])
    os.makedirs(d, exist_ok=True)
    roots = job.get('roots') or [job['root']]
    common = ['--target-language', s['lang'], '--experimental-languages', '--allow-unregulated-fixed-port-id'] + list(s.get('cli') or [])
    for r_ in roots:
        common += ['--lookup-dir', os.path.join(ns_base(job, s), r_)]
    base = [PY, '-m', 'nunavut', os.path.join(ns_base(job, s), roots[0])] + common
    if s.get('overrides'):
        cfg = os.path.join(d, 'cfg.yaml')
        with open(cfg, 'w', encoding='utf-8') as f:
            f.write('nunavut.lang.%s:\n  options:\n' % s['lang'])
            for k, v in s['overrides'].items():
                f.write('    %s: %s\n' % (k, yaml_scalar(v)))
        base += ['--configuration', cfg]
    res = {'ok': True, 'log': '', 'sup_options': [], 'typ_options': {}, 'defs': {}, 'asserts': {}}
    ext = '.h' if s['lang'] == 'c' else '.hpp'
    if s.get('omit'):
        rc, out = run(base + ['--outdir', os.path.join(d, 'typ'), '--omit-serialization-support'])
    else:
        rc, out = run(base + ['--outdir', os.path.join(d, 'sup'), '--generate-support', 'only'])
        if rc == 0:
            rc, out2 = run(base + ['--outdir', os.path.join(d, 'typ'), '--generate-support', 'never'])
            out += out2
    for extra in roots[1:]:
        if rc == 0:
            cmd2 = [PY, '-m', 'nunavut', os.path.join(ns_base(job, s), extra)] + base[4:] + ['--outdir', os.path.join(d, 'typ')]
            cmd2 += ['--omit-serialization-support'] if s.get('omit') else ['--generate-support', 'never']
            rc, out2 = run(cmd2)
            out += out2
    if rc != 0:
        res['ok'] = False
        res['log'] = out[-1500:]
        return s['id'], res
    if not s.get('omit'):
        sp = os.path.join(d, 'sup', 'nunavut', 'support', 'serialization' + ext)
        try:
            text = open(sp, encoding='utf-8').read()
        except OSError as ex:
            res['ok'] = False
            res['log'] = 'no support header: %s' % ex
            return s['id'], res
        res['sup_options'] = parse_options_comment(text)
        res['defs'] = parse_support(s['lang'], text, (job.get('keyset') or {}).get(s['lang']))
    for root, _, names in os.walk(os.path.join(d, 'typ')):
        for n in sorted(names):
            if n.endswith(ext):
                rel = os.path.relpath(os.path.join(root, n), os.path.join(d, 'typ'))
                text = open(os.path.join(root, n), encoding='utf-8').read()
                res['typ_options'][rel] = parse_options_comment(text)
                res['asserts'][rel] = parse_asserts(text, (job.get('keyset') or {}).get(s['lang']))
    if not res['asserts']:
        res['ok'] = False
        res['log'] = 'no type headers generated'
    elif s.get('standalone'):
        res['standalone'] = standalone(job, s, d, ext)
    return s['id'], res


def guard_spans(text, ks):
    """line ranges (1-based, inclusive) of the option-guard static_assert statements of a type header"""
    spans, start = [], None
    for i, l in enumerate(text.splitlines(), 1):
        if start is None and re.match(r'\s*static_assert\(\s*' + sym_rx(ks) + r'\s*==', l):
            start = i
        if start is not None and ');' in l:
            spans.append((start, i))
            start = None
    return spans


def compile_pair(job, p, sets):
    d = os.path.join(job['scratch'], 'tu')
    os.makedirs(d, exist_ok=True)
    typ_dir = os.path.join(job['scratch'], 'out', p['typ'], 'typ')
    headers = sorted(sets[p['typ']]['asserts'])
    c = p['lang'] == 'c'
    tu = os.path.join(d, p['id'] + ('.c' if c else '.cpp'))
    with open(tu, 'w') as f:
        # nothing is pre-included: the generated headers must bring in what they use (assert.h / cassert included)
        for h in headers:
            f.write('#include "%s"\n' % h)
        f.write('int main(void) { return 0; }\n')
    cmd = ['gcc' if c else 'g++', '-std=' + p['std'], '-fsyntax-only', '-fmax-errors=0', '-fno-diagnostics-color',
           '-fdiagnostics-show-caret', '-DNUNAVUT_ASSERT(x)=((void)(x))']
    if p.get('sup'):
        cmd += ['-I', os.path.join(job['scratch'], 'out', p['sup'], 'sup')]
    cmd += ['-I', os.path.join(job['scratch'], 'inc')]
    base_cmd = list(cmd)
    cmd += ['-I', typ_dir, tu]
    rc, out = run(cmd)
    ks = (job.get('keyset') or {}).get(p['lang'])
    spans = {}
    for h in headers:
        try:
            spans[h] = guard_spans(open(os.path.join(typ_dir, h), encoding='utf-8').read(), ks)
        except OSError:
            spans[h] = []
    region = []
    failed, undeclared = [], []
    fatal = None
    msg_ok = True
    lines = out.splitlines()
    for i, l in enumerate(lines):
        m = re.match(r'(.+?):(\d+):(\d+): (fatal error|error): (.*)$', l)
        if not m:
            continue
        path, line, kind, text = m.group(1), int(m.group(2)), m.group(4), m.group(5)
        if kind == 'fatal error':
            fatal = text
            continue
        try:
            src = open(path, encoding='utf-8').read().splitlines()[line - 1]
        except Exception:
            src = ''
        sm = re.search(r'(' + sym_rx((job.get('keyset') or {}).get(p['lang'])) + r')\s*==', src)
        rel = os.path.relpath(path, typ_dir) if os.path.abspath(path).startswith(os.path.abspath(typ_dir)) else path
        if 'static assertion failed' in text and sm:
            failed.append([rel, line, sm.group(1)])
            if MESSAGE not in text:
                msg_ok = False
        elif rel in spans and any(a <= line <= b for a, b in spans[rel]) and not (sm and re.search(r"undeclared|was not declared|is not a member of|has not been declared|expected '\)' before '=='|expression in static assertion is not an integer", text)):
            region.append([rel, line, text[:160]])
        elif sm and re.search(r"undeclared|was not declared|is not a member of|has not been declared|expected '\)' before '=='|expression in static assertion is not an integer", text):
            undeclared.append([rel, line, sm.group(1)])
    control_rc = None
    if rc != 0 and not failed and not undeclared and not fatal:
        # differential: the same translation unit with the guard statements blanked out of the type headers
        cdir = os.path.join(d, p['id'] + '_ctl')
        for h in headers:
            text = open(os.path.join(typ_dir, h), encoding='utf-8').read().splitlines(True)
            for a, b in spans.get(h, []):
                for i in range(a - 1, b):
                    text[i] = '\n'
            os.makedirs(os.path.dirname(os.path.join(cdir, h)), exist_ok=True)
            with open(os.path.join(cdir, h), 'w', encoding='utf-8') as f:
                f.writelines(text)
        control_rc, _ = run(base_cmd + ['-I', cdir, tu])
    return p['id'], {'rc': rc, 'failed': failed, 'undeclared': undeclared, 'message_ok': msg_ok, 'fatal': fatal, 'tail': out[-1200:] if rc else '',
                     'guard_region_errors': region, 'control_rc': control_rc,
                     'errors': [m_.group(1)[:200] for m_ in re.finditer(r': (?:fatal )?error: (.*)', out)][:60]}


def main():
    job = json.load(sys.stdin)
    bases = ['ns'] + [os.path.join('ns_h%d' % (i + 1), hd) for i, hd in enumerate(job.get('hostile_dirs') or [])]
    for nsd in bases:
        for rel, text in job['dsdl'].items():
            path = os.path.join(job['scratch'], nsd, rel)
            os.makedirs(os.path.dirname(path), exist_ok=True)
            with open(path, 'w', encoding='utf-8') as f:
                f.write(text)
    for name, text in (job.get('local_headers') or {}).items():
        os.makedirs(os.path.join(job['scratch'], 'inc'), exist_ok=True)
        with open(os.path.join(job['scratch'], 'inc', name), 'w', encoding='utf-8') as f:
            f.write(text)
    jobs = max(1, min(6, int(job.get('jobs', 6))))
    sets, pairs = {}, {}
    with concurrent.futures.ThreadPoolExecutor(jobs) as ex:
        for sid, r in ex.map(lambda s: gen_set(job, s), job['sets']):
            sets[sid] = r
        todo = [p for p in job['pairs'] if sets.get(p['typ'], {}).get('ok') and (not p.get('sup') or sets.get(p['sup'], {}).get('ok'))]
        for pid, r in ex.map(lambda p: compile_pair(job, p, sets), todo):
            pairs[pid] = r
    sys.stdout.write('@@' + json.dumps({'sets': sets, 'pairs': pairs}))


if __name__ == '__main__':
    main()
