"""C11 harness: runs the real namespace-tree builder / generators of the tree under PYTHONPATH on JSON cases.

stdin: {"work": <scratch dir>, "cases": [case, ...]};  stdout: {"out": [result, ...]}
case = {"id": str, "types": [[ns components], short, major, minor] ...,
        "lang": "c"|"cpp"|"py", "ext": str|None, "stem": str|None, "es": bool|None,
        "outdir": "rel"|"abs"|"trail"|"dot", "shuffle": int, "generate": "no"|"api"|"cli"|"cli-support",
        "user": [ns components of the referenced type, short, major, minor] | None}
Everything a case creates lives under <work>/<id>/ :  dsdl/<root>/...  (inputs),  sandbox/ (snapshotted parent of
the output directory),  sandbox/<outname>/ (output directory).
"""
import json
import os
import pathlib
import random
import subprocess
import sys
import traceback

import pydsdl

from nunavut import build_namespace_tree, DSDLCodeGenerator, Namespace
from nunavut.lang import Language, LanguageContextBuilder
from nunavut.lang._common import IncludeGenerator

BODY = 'uint8 x\n@sealed\n'


class _Ver:
    def __init__(self, major, minor):
        self.major, self.minor = major, minor


class FakeType:
    """the attributes of pydsdl.CompositeType that build_namespace_tree / make_path / the enumeration read; used for type sets
    pydsdl itself refuses (a type named like a sibling sub-namespace, spellings differing only in case)"""

    def __init__(self, ns, short, major, minor):
        self.full_namespace = '.'.join(ns)
        self.short_name = short
        self.full_name = self.full_namespace + '.' + short
        self.name_components = list(ns) + [short]
        self.version = _Ver(major, minor)
        self.attributes = []

    def __hash__(self):
        return hash((self.full_name, self.version.major, self.version.minor))

    def __eq__(self, other):
        return isinstance(other, FakeType) and (self.full_name, self.version.major, self.version.minor) == \
            (other.full_name, other.version.major, other.version.minor)


def snapshot(root, rel_to=None):
    """every file (and symlinked directory) below `root`, named relative to `rel_to` (default root): the case directory -- the
    PARENT of the sandbox that is the parent of the output directory -- is walked, so that files escaping the output directory
    and even the sandbox show up (as ../...)"""
    out = set()
    rel_to = rel_to or root
    for d, dirs, files in os.walk(root):
        for f in files:
            out.add(os.path.relpath(os.path.join(d, f), rel_to))
        for x in dirs:
            if os.path.islink(os.path.join(d, x)):
                out.add(os.path.relpath(os.path.join(d, x), rel_to))
    return out


def tkey(t):
    return [t.full_namespace.split('.'), t.short_name, t.version.major, t.version.minor]


def make_lctx(case):
    b = LanguageContextBuilder(include_experimental_languages=True).set_target_language(case['lang'])
    if case.get('ext') is not None:
        b.set_target_language_extension(case['ext'])
    if case.get('stem') is not None:
        b.set_target_language_configuration_override(Language.WKCV_NAMESPACE_FILE_STEM, case['stem'])
    if case.get('es') is not None:
        b.set_target_language_configuration_override(Language.WKCV_ENABLE_STROPPING, case['es'])
    if case.get('sn') is not None:
        b.set_target_language_configuration_override(Language.WKCV_SUPPORT_NAMESPACE, case['sn'])
    return b.create()


def write_types(base, types, body_of=None):
    for ns, short, major, minor in types:
        d = os.path.join(base, *ns)
        os.makedirs(d, exist_ok=True)
        with open(os.path.join(d, '%s.%d.%d.dsdl' % (short, major, minor)), 'w') as f:
            f.write(body_of(ns, short, major, minor) if body_of else BODY)


def run_case(work, case):
    res = {'id': case['id']}
    cdir = os.path.join(work, case['id'])
    dsdl = os.path.join(cdir, 'dsdl')
    sandbox = os.path.join(cdir, 'sandbox')
    os.makedirs(sandbox)
    types = case['types']
    if case.get('stem') is not None and '@ABS@' in case['stem']:
        # an absolute namespace-file stem, confined to this case's own directory
        case = dict(case, stem=case['stem'].replace('@ABS@', os.path.join(cdir, 'absstem')))
    if case.get('sn') is not None and '@ABS@' in case['sn']:
        # an absolute support namespace, confined to this case's own directory (NEVER a relative escape: '.' splits the
        # namespace, so 'x/../..' style values degenerate into the file-system root)
        case = dict(case, sn=case['sn'].replace('@ABS@', os.path.join(cdir, 'abssn')))
    if case.get('sn') is not None:      # configuration file for the command line runs (written before any snapshot)
        with open(os.path.join(cdir, 'sn.yaml'), 'w') as f:
            f.write('nunavut.lang.%s:\n  support_namespace: %s\n' % (case['lang'], json.dumps(case['sn'])))
    res['sandbox'] = sandbox
    root_name = types[0][0][0]
    write_types(dsdl, types)
    root_dir = os.path.join(dsdl, root_name)
    os.chdir(sandbox)
    spelled = {'rel': 'out', 'trail': 'out/', 'dot': './out', 'abs': os.path.join(sandbox, 'out'),
               'abstrail': os.path.join(sandbox, 'out') + '/'}[case['outdir']]
    outdir_abs = os.path.join(sandbox, 'out')
    res['outdir_spelled'] = spelled
    res['outdir_parts'] = list(pathlib.PurePath(spelled).parts)

    lctx = make_lctx(case)
    lang = lctx.get_target_language()
    res['es'] = bool(lang.enable_stropping)
    res['ext'] = lang.extension
    res['stem'] = lang.get_config_value(Language.WKCV_NAMESPACE_FILE_STEM, Namespace.DefaultOutputStem)
    res['sn'] = lang.get_config_value(Language.WKCV_SUPPORT_NAMESPACE, '')
    res['sn_overridden'] = case.get('sn') is not None

    if case.get('mock'):
        parsed = [FakeType(*t) for t in types]      # build_namespace_tree is duck-typed; the source folders exist (write_types)
    else:
        parsed = pydsdl.read_namespace(root_dir, [])
    random.Random(case.get('shuffle', 0)).shuffle(parsed)
    res['order'] = [tkey(t) for t in parsed]

    names = set()
    for ns, short, major, minor in types:
        names.update(ns)
        names.add('%s_%d_%d' % (short, major, minor))
    res['strop'] = {n: lang.filter_id(n, 'path') for n in sorted(names)}
    res['strop_any'] = {n: lang.filter_id(n) for n in sorted(names)}     # coverage statistics only

    before = snapshot(cdir, sandbox)
    try:
        lang.support_namespace      # validated where it is first consumed (C11_support_namespace_fix.patch); every generator run reads it
    except ValueError as ex:
        res['raised'] = str(ex)
        res['after_build_new_files'] = []
        res['nodes'] = []
        return res
    try:
        root = build_namespace_tree(parsed, root_dir, spelled, lctx)
    except ValueError as ex:
        # the stem check (C11_stem_collide_fix.patch) refuses the configuration; nothing may have been written
        res['raised'] = str(ex)
        res['after_build_new_files'] = sorted(snapshot(cdir, sandbox) - before)
        res['nodes'] = []
        return res
    res['after_build_new_files'] = sorted(snapshot(cdir, sandbox) - before)

    # ---- dump of the tree as reachable from the returned root --------------------------------------------------
    def nk(n):
        return list(n._namespace_components)

    nodes = []
    seen = []
    stack = [root]
    while stack:
        n = stack.pop()
        if any(n is m for m in seen):
            res.setdefault('anomalies', []).append('node reached twice: %s' % '.'.join(nk(n)))
            continue
        seen.append(n)
        kids = list(n.get_nested_namespaces())
        nodes.append({'key': nk(n), 'parent': nk(n._parent) if n._parent is not None else None,
                      'children': [nk(c) for c in kids],
                      'path': list(pathlib.PurePath(n.find_output_path_for_type(n)).parts),
                      'types': [[tkey(t), list(pathlib.PurePath(p).parts)] for t, p in n.get_nested_types()],
                      'root_from_here': nk(n.get_root_namespace())})
        stack.extend(kids)
    res['root'] = nk(root)
    res['root_parent_is_none'] = root._parent is None
    res['nodes'] = nodes
    res['all'] = [(['N', nk(t)] if isinstance(t, Namespace) else ['T', tkey(t)]) + [list(pathlib.PurePath(p).parts)]
                  for t, p in root.get_all_types()]
    res['datatypes'] = [[tkey(t), list(pathlib.PurePath(p).parts)] for t, p in root.get_all_datatypes()]
    res['namespaces'] = [[nk(n), list(pathlib.PurePath(p).parts)] for n, p in root.get_all_namespaces()]
    finds = []
    for n in seen:
        for t in parsed:
            try:
                p = n.find_output_path_for_type(t)
                finds.append([nk(n), tkey(t), list(pathlib.PurePath(p).parts)])
            except KeyError:
                finds.append([nk(n), tkey(t), None])
    res['find'] = finds
    res['make_path'] = [[tkey(t), list(IncludeGenerator.make_path(t, lang, lang.extension).parts)] for t in parsed]

    # ---- real generation into the sandbox ------------------------------------------------------------------------
    gen = case.get('generate', 'no')
    if gen != 'no':
        before = snapshot(cdir, sandbox)
        if gen == 'api':
            g = DSDLCodeGenerator(root)
            res['generate_namespace_types'] = bool(g.generate_namespace_types)
            res['generated_returned'] = [list(pathlib.PurePath(p).parts) for p in g.generate_all()]
            # include path as the template filter computes it, for every type of the tree
            res['include_filter'] = []
            for t in parsed:
                try:
                    res['include_filter'].append([tkey(t), g.filter_type_to_include_path(t)])
                except KeyError:
                    res['include_filter'].append([tkey(t), None])
        else:
            cmd = [sys.executable, '-m', 'nunavut', '--target-language', case['lang'], '--experimental-languages',
                   '--outdir', spelled, root_dir]
            if gen == 'cli':
                cmd += ['--generate-support', 'never']
            if case.get('ext') is not None:
                cmd += ['--output-extension', case['ext']]
            if case.get('stem') is not None:
                cmd += ['--namespace-output-stem', case['stem']]
            if case.get('sn') is not None:
                cmd += ['--configuration', os.path.join(cdir, 'sn.yaml')]
            p = subprocess.run(cmd, cwd=sandbox, stdout=subprocess.PIPE, stderr=subprocess.STDOUT, text=True, timeout=300)
            res['cli_rc'] = p.returncode
            res['cli_out'] = p.stdout[-600:]
            res['generate_namespace_types'] = bool(lang.has_standard_namespace_files)
        res['new_files'] = sorted(snapshot(cdir, sandbox) - before)
        if gen == 'cli-support':
            # the support files alone (same options, --generate-support only, fresh directory): with them the COMPLETE set of files
            # the run may create is known, nothing is masked
            sb3 = os.path.join(cdir, 'sandbox3')
            os.makedirs(sb3)
            cmd3 = [sys.executable, '-m', 'nunavut', '--target-language', case['lang'], '--experimental-languages',
                    '--outdir', 'out', '--generate-support', 'only', root_dir]
            if case.get('ext') is not None:
                cmd3 += ['--output-extension', case['ext']]
            if case.get('stem') is not None:
                cmd3 += ['--namespace-output-stem', case['stem']]
            if case.get('sn') is not None:
                cmd3 += ['--configuration', os.path.join(cdir, 'sn.yaml')]
            p3 = subprocess.run(cmd3, cwd=sb3, stdout=subprocess.PIPE, stderr=subprocess.STDOUT, text=True, timeout=300)
            res['support_rc'] = p3.returncode
            res['support_files'] = sorted(snapshot(sb3))

    # ---- the same type merely referenced from another root namespace -----------------------------------------------
    if case.get('user') is not None:
        ref = case['user']
        other = os.path.join(cdir, 'dsdl2')
        write_types(other, [[['zzuser'], 'User', 1, 0]],
                    lambda *_: '%s.%d.%d dep\n@sealed\n' % ('.'.join(ref[0] + [ref[1]]), ref[2], ref[3]))
        parsed2 = pydsdl.read_namespace(os.path.join(other, 'zzuser'), [root_dir])
        user_t = parsed2[0]
        res['user_includes'] = IncludeGenerator(lang, user_t, True).generate_include_filepart_list(lang.extension, False)
        dep_t = user_t.fields[0].data_type
        if case['lang'] == 'py':
            # Python refers to a type through its package: filter_imports (dotted, stropped namespace) and
            # filter_full_reference_name; both must name the directory chain / module the type file was written to
            from nunavut.lang.py import filter_imports, filter_full_reference_name
            res['user_py_imports'] = list(filter_imports(lang, user_t))
            res['user_py_full_reference'] = filter_full_reference_name(lang, dep_t)
        res['user_dep_make_path'] = list(IncludeGenerator.make_path(dep_t, lang, lang.extension).parts)
        if gen == 'api':
            sb2 = os.path.join(cdir, 'sandbox2')
            os.makedirs(sb2)
            os.chdir(sb2)
            root2 = build_namespace_tree(parsed2, os.path.join(other, 'zzuser'), 'out', lctx)
            DSDLCodeGenerator(root2).generate_all()
            files2 = sorted(snapshot(sb2))
            res['user_new_files'] = files2
            texts = [open(os.path.join(sb2, f), encoding='utf-8').read() for f in files2 if 'User_1_0' in f]
            res['user_file_text_includes'] = [l.strip() for tx in texts for l in tx.splitlines()
                                              if '#include' in l or l.startswith('import ') or l.startswith('from ')]
            os.chdir(sandbox)
    return res


def main():
    doc = json.load(sys.stdin)
    outs = []
    for c in doc['cases']:
        try:
            outs.append(run_case(doc['work'], c))
        except Exception as ex:  # noqa
            outs.append({'id': c['id'], 'err': repr(ex), 'tb': traceback.format_exc()[-1500:]})
    sys.stdout.write('\n' + json.dumps({'out': outs}))


if __name__ == '__main__':
    main()
