"""C14 thorough tier: native comparison of nunavutFloat16Pack (compiled C driver) with NumPy's float32 -> float16 conversion
over whole ranges of binary32 bit patterns.  usage: c14_f16_numpy.py <c driver exe> <scratch dir> <start> <count> [<start> <count> ...]
prints one JSON object: counts of equal / tie-only differences / NaN pairs / other differences (with the first few witnesses).
NumPy rounds to nearest even, the C code to nearest with ties away from zero: the only allowed differences are exact ties."""
import json
import os
import subprocess
import sys

import numpy as np


def half_value(h):
    """magnitude halves (uint16 < 0x7C01) as float64, 0x7C00 -> 65536.0"""
    e = (h >> 10).astype(np.int64)
    m = (h & 1023).astype(np.float64)
    return np.where(e == 0, m * 2.0 ** -24, (1024.0 + m) * np.exp2((e - 25).astype(np.float64)))


def main():
    exe, scratch = sys.argv[1], sys.argv[2]
    pairs = [(int(sys.argv[i]), int(sys.argv[i + 1])) for i in range(3, len(sys.argv), 2)]
    res = {'values': 0, 'equal': 0, 'tie_differences': 0, 'nan_pairs': 0, 'other': 0, 'witnesses': []}
    for start, count in pairs:
        path = os.path.join(scratch, 'f16_%d.bin' % start)
        p = subprocess.run([exe], input='f16pb %d %d %s\n' % (start, count, path), stdout=subprocess.PIPE, text=True, timeout=600)
        if p.stdout.strip() != 'ok':
            res['witnesses'].append({'start': start, 'error': p.stdout[-200:]})
            res['other'] += 1
            continue
        c = np.fromfile(path, dtype='<u2')
        os.unlink(path)
        x = np.arange(start, start + count, dtype=np.uint64).astype(np.uint32)
        with np.errstate(over='ignore', invalid='ignore'):
            n = x.view(np.float32).astype(np.float16).view(np.uint16)
        res['values'] += count
        diff = np.nonzero(c != n)[0]
        res['equal'] += count - len(diff)
        if len(diff) == 0:
            continue
        cd, nd, xd = c[diff], n[diff], x[diff]
        cm, nm = cd & 0x7FFF, nd & 0x7FFF
        both_nan = (cm > 0x7C00) & (nm > 0x7C00)
        res['nan_pairs'] += int(both_nan.sum())
        rest = ~both_nan
        same_sign = (cd >> 15) == (nd >> 15)
        lo = np.minimum(cm, nm)
        hi = np.maximum(cm, nm)
        adjacent = (hi == lo + 1) & (hi <= 0x7C00)
        xv = np.abs(xd.view(np.float32).astype(np.float64))
        with np.errstate(over='ignore', invalid='ignore'):
            tie = adjacent & ((xv - half_value(lo)) == (half_value(hi) - xv)) & (cm == hi)     # C rounded away, NumPy to even
        ok = rest & same_sign & tie
        res['tie_differences'] += int(ok.sum())
        bad = rest & ~ok
        res['other'] += int(bad.sum())
        for i in np.nonzero(bad)[0][:3]:
            res['witnesses'].append({'x': int(xd[i]), 'c': int(cd[i]), 'numpy': int(nd[i])})
    print(json.dumps(res))


if __name__ == '__main__':
    main()
