"""C14 harness: line-command driver around the RENDERED Python support module (nunavut_support.py, found on sys.path;
the check puts the scratch output directory, build/pydeps (NumPy) and /repo/src on PYTHONPATH).
Protocol: see ocaml/c14_driver.ml (variant `py`): one line = one operation sequence on a Serializer / Deserializer,
plus f16p / f16u (struct-based half conversion used by add_*_f16 / fetch_*_f16)."""
import struct
import sys

import numpy

import nunavut_support as ns

Byte = numpy.uint8


def unhex(s):
    return b'' if s == '-' else bytes.fromhex(s)


def hx(b):
    b = bytes(b)
    return b.hex() if b else '-'


def arr(s):
    return numpy.frombuffer(unhex(s), dtype=Byte)


def bits(s):
    return numpy.array([c == '1' for c in ('' if s == '-' else s)], dtype=bool)


def bitstr(a):
    return ''.join('1' if x else '0' for x in a) or '-'


def dbl(h):
    return struct.unpack('<d', bytes.fromhex(h))[0]


def ser_op(s, t):
    c = t[0]
    if c == 'sk':
        s.skip_bits(int(t[1]))
    elif c == 'pad':
        s.pad_to_alignment(int(t[1]))
    elif c == 'bit':
        s.add_unaligned_bit(t[1] != '0')
    elif c == 'ub':
        s.add_unaligned_bytes(arr(t[1]))
    elif c == 'ab':
        s.add_aligned_bytes(arr(t[1]))
    elif c == 'au':
        s.add_aligned_unsigned(int(t[1], 0), int(t[2]))
    elif c == 'uu':
        s.add_unaligned_unsigned(int(t[1], 0), int(t[2]))
    elif c == 'as':
        s.add_aligned_signed(int(t[1]), int(t[2]))
    elif c == 'us':
        s.add_unaligned_signed(int(t[1]), int(t[2]))
    elif c in ('u8', 'u16', 'u32', 'u64', 'i8', 'i16', 'i32', 'i64'):
        getattr(s, 'add_aligned_' + c)(int(t[1], 0))
    elif c == 'abits':
        s.add_aligned_array_of_bits(bits(t[1]))
    elif c == 'ubits':
        s.add_unaligned_array_of_bits(bits(t[1]))
    elif c in ('af', 'uf'):
        getattr(s, ('add_aligned_f' if c == 'af' else 'add_unaligned_f') + str(int(t[1]) * 8))(dbl(t[2]))
    elif c in ('aa', 'ua'):  # array of standard-bit-length primitives: dtype, little-endian bytes
        a = numpy.frombuffer(unhex(t[2]), dtype=numpy.dtype(t[1]))
        (s.add_aligned_array_of_standard_bit_length_primitives if c == 'aa' else s.add_unaligned_array_of_standard_bit_length_primitives)(a)
    else:
        raise RuntimeError('bad op ' + c)


EXC = (ValueError, IndexError, AssertionError, OverflowError, ZeroDivisionError, TypeError, NotImplementedError)


def run_pyser(n, ops, big_endian=False):
    idx = 0
    try:
        if big_endian:  # the class for big-endian hosts, instantiated directly (Serializer.new picks by sys.byteorder)
            s = ns._BigEndianSerializer(numpy.zeros(int(n) + ns.Serializer._EXTRA_BUFFER_CAPACITY_BYTES, dtype=Byte))
        else:
            s = ns.Serializer.new(int(n))
        root = s
        stack = []
        for idx, op in enumerate(ops):
            t = op.split(':')
            if t[0] == 'fork':
                stack.append(s)
                s = s.fork_bytes(int(t[1]))
            elif t[0] == 'join':
                s = stack.pop()
            else:
                ser_op(s, t)
        return '%d %s %s' % (s.current_bit_length, hx(root._buf.tobytes()), hx(s.buffer.tobytes()))
    except EXC:
        return 'EXC@%d' % idx


def own(d, a):
    """the application owns what a fetch returned and may overwrite it: results that do not alias the source buffer are filled with ones
    after they have been printed.  Later reads (of this or of any other Deserializer) must not see that: zero extension yields FRESH
    zeros on every call."""
    try:
        src = d._buf._buf if hasattr(d, '_buf') and hasattr(d._buf, '_buf') else getattr(d, '_buf', None)
        if isinstance(a, numpy.ndarray) and a.size and a.flags.writeable and (src is None or not numpy.shares_memory(a, src)):
            a[...] = True if a.dtype == numpy.bool_ else 0xFF
    except Exception:
        pass


def des_op(d, t, out):
    c = t[0]
    if c == 'sk':
        d.skip_bits(int(t[1]))
    elif c == 'pad':
        d.pad_to_alignment(int(t[1]))
    elif c == 'ab':
        a = d.fetch_aligned_bytes(int(t[1]))
        out.append(hx(a.tobytes()))
        own(d, a)
    elif c == 'ub':
        a = d.fetch_unaligned_bytes(int(t[1]))
        out.append(hx(a.tobytes()))
        own(d, a)
    elif c in ('au', 'uu', 'as', 'us'):
        f = {'au': d.fetch_aligned_unsigned, 'uu': d.fetch_unaligned_unsigned, 'as': d.fetch_aligned_signed, 'us': d.fetch_unaligned_signed}[c]
        out.append(str(int(f(int(t[1])))))
    elif c in ('u8', 'u16', 'u32', 'u64', 'i8', 'i16', 'i32', 'i64'):
        out.append(str(int(getattr(d, 'fetch_aligned_' + c)())))
    elif c == 'bit':
        out.append('1' if d.fetch_unaligned_bit() else '0')
    elif c == 'abits':
        a = d.fetch_aligned_array_of_bits(int(t[1]))
        out.append(bitstr(a))
        own(d, a)
    elif c == 'ubits':
        a = d.fetch_unaligned_array_of_bits(int(t[1]))
        out.append(bitstr(a))
        own(d, a)
    elif c in ('af', 'uf'):
        size = int(t[1])
        v = getattr(d, ('fetch_aligned_f' if c == 'af' else 'fetch_unaligned_f') + str(size * 8))()
        fmt = {2: '<e', 4: '<f', 8: '<d'}[size]
        if v != v:
            out.append('nan')
        else:
            out.append(hx(struct.pack(fmt, v)))
    elif c in ('aa', 'ua'):
        f = d.fetch_aligned_array_of_standard_bit_length_primitives if c == 'aa' else d.fetch_unaligned_array_of_standard_bit_length_primitives
        a = f(numpy.dtype(t[1]), int(t[2]))
        assert len(a) == int(t[2])
        out.append(hx(a.tobytes()) + (('/' + '.'.join(str(int(x)) for x in a)) if t[1][1] == 'u' else ''))
        own(d, a)
    elif c == 'rem':
        out.append(str(d.remaining_bit_length))
    else:
        raise RuntimeError('bad op ' + c)


def run_zeb(buf, ops):
    idx = 0
    out = []
    try:
        z = ns.ZeroExtendingBuffer([memoryview(unhex(buf))])
        for idx, op in enumerate(ops):
            t = op.split(':')
            if t[0] == 'gb':
                out.append(str(z.get_byte(int(t[1]))))
            elif t[0] == 'sl':
                a = z.get_unsigned_slice(int(t[1]), int(t[2]))
                out.append(hx(a.tobytes()))
                own(z, a)
            elif t[0] == 'fk':
                out.append(hx(b''.join(bytes(m) for m in z.fork_bytes(int(t[1]), int(t[2])))))
            elif t[0] == 'bl':
                out.append(str(z.bit_length))
            else:
                raise RuntimeError('bad zeb op')
        return ','.join(out)
    except EXC:
        return 'EXC@%d' % idx


def run_pydes(buf, ops, big_endian=False):
    idx = 0
    out = []
    try:
        d = ns._BigEndianDeserializer([memoryview(unhex(buf))]) if big_endian else ns.Deserializer.new([memoryview(unhex(buf))])
        stack = []
        for idx, op in enumerate(ops):
            t = op.split(':')
            if t[0] == 'fork':
                stack.append(d)
                d = d.fork_bytes(int(t[1]))
            elif t[0] == 'join':
                d = stack.pop()
            else:
                des_op(d, t, out)
        return ','.join(out + [str(d.consumed_bit_length)])
    except EXC:
        return 'EXC@%d' % idx


def main():
    w = sys.stdout.write
    f32 = numpy.float32
    for line in sys.stdin:
        t = line.split()
        try:
            if not t:
                w('ERR empty\n')
            elif t[0] == 'pyser':
                w(run_pyser(t[1], t[2].split(';') if len(t) > 2 else []) + '\n')
            elif t[0] == 'pydes':
                w(run_pydes(t[1], t[2].split(';') if len(t) > 2 else []) + '\n')
            elif t[0] == 'pyserbe':
                w(run_pyser(t[1], t[2].split(';') if len(t) > 2 else [], True) + '\n')
            elif t[0] == 'pydesbe':
                w(run_pydes(t[1], t[2].split(';') if len(t) > 2 else [], True) + '\n')
            elif t[0] == 'zeb':
                w(run_zeb(t[1], t[2].split(';') if len(t) > 2 else []) + '\n')
            elif t[0] == 'f16p':
                x = struct.unpack('<f', int(t[1]).to_bytes(4, 'little'))[0]
                w('%d\n' % int.from_bytes(ns.Serializer._float_to_bytes('e', x).tobytes(), 'little'))
            elif t[0] == 'f16u':
                d = ns.Deserializer.new([memoryview(int(t[1]).to_bytes(2, 'little'))])
                v = d.fetch_aligned_f16()
                w('%d\n' % int.from_bytes(struct.pack('<f', v), 'little'))
            else:
                w('ERR unknown command\n')
        except Exception as ex:  # noqa
            w('ERR %r\n' % (ex,))
    sys.stdout.flush()


if __name__ == '__main__':
    main()
