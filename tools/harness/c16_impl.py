"""C16 harness: runs the real DSDLTemplateLoader / DSDLCodeGenerator / CodeGenEnvironment of the tree under PYTHONPATH.

stdin: one JSON document {"work": <scratch dir>, "lookup": [...], "tests": bool, "env": [...]};  stdout: 'C16OUT' + JSON.

lookup case = {"policy": "FIND_ALL"|"FIND_FIRST", "fs": null | [relative paths of the first user dir], "fs_more": [[...], ...] (further
               user dirs, searched in this order), "pkg": null | [relative paths], "seq": [pydsdl class names], "get": [names]}
  -> {"res": [str(path) | null per lookup], "src": ["U<i>:<rel>"|"P:<rel>"|null per lookup: the file that
      get_source(filter_type_to_template's name) loads], "get": ["U<i>:<rel>"|"P:<rel>"|null per name]}
      (the content of every file is its own tag: "U<i>:<rel>" in user dir i, "P:<rel>" in the package)
tests -> {"names": [...all DSDL test names...], "env_has": {lang: [names missing from env.tests]},
          "values": [{"cls": class name, "dt": class name | null, "res": {test name: bool}}]}   on real parsed pydsdl objects
e2e case = {"lang": "c"|"py", "policy": "FIND_FIRST"|"FIND_ALL", "dirs": null | [[relative paths], ...]}   (user template dirs)
  -> {"seq": [class name of every data type in generation order], "out": [outcome per generated type, up to and including the first
      failure]}  outcome = "R:U<i>:<rel>" (marker found in the output file) | "R:P" (no marker: a built-in template) |
      "T" (RuntimeError: no template) | "N:<name>" (TemplateNotFound).  FIND_FIRST runs the real DSDLCodeGenerator(namespace,
      templates_dir=dirs).generate_all(); FIND_ALL a subclass whose constructor passes search_policy=FIND_ALL to CodeGenerator.__init__.
env case = {"lang": str, "allow": bool, "globals": {name: int}, "filters": {name: int}, "tests": {name: int}, "dsdl": bool,
            "post": [["test"|"filter", name, int] ...]}
  -> {"err": "RuntimeError"|..., "at": "create"|"dsdl"|"post<i>"}  or
     {"globals": {name: tag}, "filters": {name: tag}, "tests": {name: tag}}  with tag = "U<int>" for a user object, "D" for a
     DSDL instance test, "S" (same object as in a reference environment built without user additions) or "X" (other object)
"""
import json
import os
import pathlib
import shutil
import sys

import pydsdl

PKG = 'c16pkg'


def populate(d, names, tag):
    for n in os.listdir(d):
        p = os.path.join(d, n)
        if n in ('__init__.py', '__pycache__'):
            continue
        if os.path.isdir(p) and not os.path.islink(p):
            shutil.rmtree(p)
        else:
            os.unlink(p)
    for rel in names or []:
        p = os.path.join(d, rel)
        os.makedirs(os.path.dirname(p), exist_ok=True)
        with open(p, 'w') as f:
            f.write('%s:%s' % (tag, rel))


def run_lookup(work, cases):
    from nunavut.jinja.loaders import DSDLTemplateLoader
    from nunavut._utilities import ResourceSearchPolicy
    from nunavut.jinja.jinja2 import TemplateNotFound
    users = [os.path.join(work, 'user%d' % i) for i in range(4)]
    pk = os.path.join(work, 'pk', PKG, 'templates')
    for u in users:
        os.makedirs(u, exist_ok=True)
    os.makedirs(pk, exist_ok=True)
    open(os.path.join(work, 'pk', PKG, '__init__.py'), 'w').close()
    open(os.path.join(pk, '__init__.py'), 'w').close()
    sys.path.insert(0, os.path.join(work, 'pk'))
    out = []
    for c in cases:
        try:
            roots = None if c['fs'] is None else [c['fs']] + list(c.get('fs_more') or [])
            for i, u in enumerate(users):
                populate(u, roots[i] if roots is not None and i < len(roots) else [], 'U%d' % i)
            for rel in (c.get('dangling') or []):     # names listed by the loader that cannot be loaded (first user dir)
                os.symlink(os.path.join(work, 'no-such-target', rel), os.path.join(users[0], rel))
            populate(pk, c['pkg'], 'P')
            loader = DSDLTemplateLoader(
                templates_dirs=[pathlib.Path(u) for u in users[:len(roots)]] if roots is not None else None,
                package_name_for_templates=PKG if c['pkg'] is not None else None,
                search_policy=ResourceSearchPolicy[c['policy']])

            def get(name):
                try:
                    return loader.get_source(None, name)[0]
                except TemplateNotFound:
                    return None
            res, src = [], []
            for cn in c['seq']:
                cls = getattr(pydsdl, cn) if hasattr(pydsdl, cn) else _extra_class(cn)
                r = loader.type_to_template(cls)
                res.append(None if r is None else r.as_posix())
                src.append(None if r is None else get(template_name(loader, cls, r)))
            out.append({'res': res, 'src': src, 'get': [get(n) for n in c.get('get', [])]})
        except Exception as ex:  # noqa
            out.append({'err': repr(ex)})
    return out


class _Gen:
    """just enough of a generator for the real DSDLCodeGenerator.filter_type_to_template(self, value)"""

    def __init__(self, loader):
        self.dsdl_loader = loader


class _Blank(__import__("abc").ABC):
    pass


def template_name(loader, cls, fallback_path):
    """the NAME _generate_type hands to env.get_template: the real filter_type_to_template applied to an object whose type is cls"""
    from nunavut.jinja import DSDLCodeGenerator
    try:
        v = _Blank()
        v.__class__ = cls          # abstract classes cannot be instantiated; the filter only looks at type(value)
    except TypeError:
        try:
            v = object.__new__(cls)
        except TypeError:
            return fallback_path.name
    return DSDLCodeGenerator.filter_type_to_template(_Gen(loader), v)


def _extra_class(name):
    import abc
    import pydsdl._expression as ex
    for m in (ex, abc):
        if hasattr(m, name):
            return getattr(m, name)
    raise KeyError(name)


DSDL = {
    'S.1.0.dsdl': 'uint8 a\nvoid3\nint5 b\nfloat32 c\nbool d\nutf8[<=4] f\nbyte[3] g\nuint5 K = 3\nfloat16 F = 1.5\n'
                  'Inner.1.0 h\nInner.1.0[2] i\nU.1.0 u\nD.1.0 dd\nD.1.0[<=2] dl\n@sealed\n',
    'Inner.1.0.dsdl': 'int16 z\n@sealed\n',
    'U.1.0.dsdl': '@union\nuint8 a\nInner.1.0 b\nbool[3] c\n@sealed\n',
    'D.1.0.dsdl': 'uint8 a\nvoid8\n@extent 64\n',
    'Svc.1.0.dsdl': 'uint8 q\nbool W = true\n@sealed\n---\nvoid1\nint7 r\n@extent 128\n',
}


def real_values(work):
    root = os.path.join(work, 'ns', 'c16ns')
    os.makedirs(root, exist_ok=True)
    for n, t in DSDL.items():
        with open(os.path.join(root, n), 'w') as f:
            f.write(t)
    types = pydsdl.read_namespace(root)
    seen, vals = set(), []

    def add(v):
        if id(v) in seen:
            return
        seen.add(id(v))
        vals.append(v)
        if isinstance(v, pydsdl.Attribute):
            add(v.data_type)
        if isinstance(v, pydsdl.ArrayType):
            add(v.element_type)
        if isinstance(v, pydsdl.DelimitedType):
            add(v.inner_type)
        if isinstance(v, pydsdl.ServiceType):
            add(v.request_type)
            add(v.response_type)
        if isinstance(v, pydsdl.CompositeType):
            for a in v.attributes:
                add(a)
            if isinstance(v, pydsdl.UnionType):
                add(v.tag_field_type)
    for t in types:
        add(t)
    return types, root, vals


def run_tests(work):
    from nunavut import build_namespace_tree
    from nunavut.jinja import DSDLCodeGenerator
    from nunavut.lang import LanguageContextBuilder
    types, root, vals = real_values(work)
    table = DSDLCodeGenerator._create_all_dsdl_tests()
    env_missing = {}
    env_tests = None
    for lang in ('c', 'cpp', 'py', 'html'):
        try:
            lctx = LanguageContextBuilder(include_experimental_languages=True).set_target_language(lang).create()
            ns = build_namespace_tree(types, root, os.path.join(work, 'out-' + lang), lctx)
            g = DSDLCodeGenerator(ns)
            env_missing[lang] = sorted(n for n in table if n not in g._env.tests)
            if env_tests is None:
                env_tests = g._env.tests
            else:   # the same truth values through every language's environment
                for v in vals:
                    for n in table:
                        if n in g._env.tests and n in env_tests and bool(g._env.tests[n](v)) != bool(env_tests[n](v)):
                            env_missing[lang].append('<%s differs from the first language on a %s>' % (n, type(v).__name__))
        except Exception as ex:  # noqa
            env_missing[lang] = ['<error: %r>' % (ex,)]
    use = env_tests if env_tests is not None else table
    out = []
    for v in vals:
        out.append({'cls': type(v).__name__,
                    'dt': type(v.data_type).__name__ if isinstance(v, pydsdl.Attribute) else None,
                    'res': {n: bool(use[n](v)) for n in table if n in use}})
    return {'names': sorted(table), 'env_has': env_missing, 'values': out, 'through_env': env_tests is not None}


class Obj:
    """user supplied filter/test/global value; callable, tagged"""

    def __init__(self, tag):
        self.tag = tag
        self.__name__ = 'user_obj_%s' % tag

    def __call__(self, *a, **k):
        return self.tag


def run_env(work, cases):
    from nunavut import build_namespace_tree
    from nunavut.jinja import DSDLCodeGenerator, CodeGenEnvironmentBuilder
    from nunavut.jinja.jinja2 import DictLoader
    from nunavut.lang import LanguageContextBuilder
    types, root, _ = real_values(work)
    out = []
    dsdl_names = set(DSDLCodeGenerator._create_all_dsdl_tests())
    for c in cases:
        stage = 'create'
        try:
            def mk_lctx():
                return LanguageContextBuilder(include_experimental_languages=True).set_target_language(c['lang']).create()
            kw = {}
            for k, arg in (('globals', 'additional_globals'), ('filters', 'additional_filters'), ('tests', 'additional_tests')):
                if c.get(k) is not None:
                    kw[arg] = {n: Obj('U%d' % v) for n, v in c[k].items()}
            if c['dsdl']:
                ref = DSDLCodeGenerator(build_namespace_tree(types, root, os.path.join(work, 'o1'), mk_lctx()))._env
                # the constructor of DSDLCodeGenerator creates the environment and then adds the DSDL tests: tell the stages apart
                try:
                    env = DSDLCodeGenerator(build_namespace_tree(types, root, os.path.join(work, 'o2'), mk_lctx()), **kw)._env
                except RuntimeError as ex:
                    name = str(ex).split(' ')[0]
                    stage = 'dsdl' if (name in dsdl_names and name in (c.get('tests') or {})) else 'create'
                    raise
            else:
                ref = CodeGenEnvironmentBuilder(DictLoader({}), mk_lctx()).create()
                b = CodeGenEnvironmentBuilder(DictLoader({}), mk_lctx())
                if 'additional_globals' in kw:
                    b.add_globals(**kw['additional_globals'])
                if 'additional_filters' in kw:
                    b.add_filters(**kw['additional_filters'])
                if 'additional_tests' in kw:
                    b.add_tests(**kw['additional_tests'])
                b.set_allow_filter_test_or_use_query_overwrite(bool(c.get('allow')))
                env = b.create()
            for i, (kind, name, v) in enumerate(c.get('post', [])):
                stage = 'post%d' % i
                if kind == 'test':
                    env.add_test(name, Obj('U%d' % v))
                else:
                    env._add_to_environment(name, Obj('U%d' % v), env.filters)

            def same(o, r):
                o, r = getattr(o, 'func', o), getattr(r, 'func', r)
                o, r = getattr(o, '__func__', o), getattr(r, '__func__', r)
                if o is r:
                    return True
                if type(o) is not type(r):
                    return False
                qo, qr = getattr(o, '__qualname__', None), getattr(r, '__qualname__', None)
                if qo is not None or qr is not None:
                    return qo == qr
                if isinstance(o, (str, int, float, tuple)):
                    return o == r
                return True

            def tag(coll, refcoll, n, is_tests=False):
                o = coll[n]
                if isinstance(getattr(o, 'func', o), Obj):
                    return getattr(o, 'func', o).tag
                if is_tests and n in dsdl_names and c['dsdl']:
                    return 'D'
                return 'S' if (n in refcoll and same(o, refcoll[n])) else 'X'
            out.append({'globals': {n: tag(env.globals, ref.globals, n) for n in env.globals},
                        'filters': {n: tag(env.filters, ref.filters, n) for n in env.filters},
                        'tests': {n: tag(env.tests, ref.tests, n, True) for n in env.tests}})
        except Exception as ex:  # noqa
            out.append({'err': type(ex).__name__, 'at': stage, 'msg': str(ex)[:200]})
    return out


def run_e2e(work, cases):
    from nunavut import build_namespace_tree
    from nunavut.jinja import DSDLCodeGenerator, CodeGenerator
    from nunavut._utilities import ResourceSearchPolicy, YesNoDefault
    from nunavut.jinja.jinja2 import TemplateNotFound
    from nunavut.lang import LanguageContextBuilder
    types, root, _ = real_values(work)

    class AllPolicyGenerator(DSDLCodeGenerator):
        # DSDLCodeGenerator.__init__ with the policy as a parameter (it hard-wires FIND_FIRST); everything else is the real class
        def __init__(self, namespace, policy, **kwargs):
            CodeGenerator.__init__(self, namespace, search_policy=policy, **kwargs)
            for test_name, test in self._create_all_dsdl_tests().items():
                self._env.add_test(test_name, test)
            self._env.add_conventional_methods_to_environment(self)

    out = []
    for n, c in enumerate(cases):
        try:
            dirs = None
            if c['dirs'] is not None:
                dirs = []
                for i, names in enumerate(c['dirs']):
                    dpath = os.path.join(work, 'e2e%d' % n, 'user%d' % i)
                    os.makedirs(dpath, exist_ok=True)
                    for rel in names:
                        fpath = os.path.join(dpath, rel)
                        os.makedirs(os.path.dirname(fpath), exist_ok=True)
                        with open(fpath, 'w') as f:
                            f.write('RENDERED:U%d:%s\n' % (i, rel))
                    dirs.append(pathlib.Path(dpath))
            lctx = LanguageContextBuilder(include_experimental_languages=True).set_target_language(c['lang']).create()
            ns = build_namespace_tree(types, root, os.path.join(work, 'e2e%d' % n, 'out'), lctx)
            # namespace files (py, html) would add lookups of nunavut.Namespace, a class outside the pydsdl forest of the model
            kw = {'generate_namespace_types': YesNoDefault.NO}
            if dirs is not None:
                kw['templates_dir'] = dirs
            g = DSDLCodeGenerator(ns, **kw) if c['policy'] == 'FIND_FIRST' else AllPolicyGenerator(ns, ResourceSearchPolicy.FIND_ALL, **kw)
            todo = [(type(t).__name__, pathlib.Path(o)) for t, o in ns.get_all_datatypes()]
            # observe the template _generate_type asks the environment for (calls without a parent template; include/extends pass one)
            # and the FILE it was loaded from; the generator, its loader and generate_all are the real ones
            top_level = []
            real_get_template = g._env.get_template

            def recording_get_template(name, parent=None, globals=None):
                t = real_get_template(name, parent, globals)
                if parent is None:
                    top_level.append(t.filename)
                return t
            g._env.get_template = recording_get_template
            err = None
            try:
                g.generate_all(omit_serialization_support=True)
            except TemplateNotFound as ex:
                err = 'N:' + str(ex.name)
            except RuntimeError as ex:
                err = 'T' if 'No template found' in str(ex) else 'ERR:' + repr(ex)[:120]
            outs = []
            for k, (_, o) in enumerate(todo):
                if k >= len(top_level) or not o.exists():
                    outs.append(err if err is not None else 'ERR:missing output or template')
                    break
                fn = os.path.realpath(top_level[k])
                tag = 'R:P'
                for i, dpath in enumerate(dirs or []):
                    base = os.path.realpath(str(dpath)) + os.sep
                    if fn.startswith(base):
                        tag = 'R:U%d:%s' % (i, fn[len(base):].replace(os.sep, '/'))
                        head = o.read_text().split('\n', 1)[0]
                        if head.strip() != 'RENDERED:' + tag[2:]:
                            tag = 'ERR:output of %s does not start with the marker of %s' % (o.name, tag)
                        break
                outs.append(tag)
            out.append({'seq': [cn for cn, _ in todo][:len(outs)], 'out': outs})
        except Exception as ex:  # noqa
            out.append({'err': repr(ex)[:300]})
    return out


def main():
    doc = json.load(sys.stdin)
    work = doc['work']
    res = {}
    if doc.get('lookup') is not None:
        res['lookup'] = run_lookup(work, doc['lookup'])
    if doc.get('tests'):
        try:
            res['tests'] = run_tests(work)
        except Exception as ex:  # noqa
            res['tests'] = {'err': repr(ex)}
    if doc.get('e2e') is not None:
        try:
            res['e2e'] = run_e2e(work, doc['e2e'])
        except Exception as ex:  # noqa
            res['e2e'] = [{'err': 'harness: ' + repr(ex)[:300]}] * len(doc['e2e'])
    if doc.get('env') is not None:
        try:
            res['env'] = run_env(work, doc['env'])
        except Exception as ex:  # noqa
            res['env'] = [{'err': 'harness', 'at': 'setup', 'msg': repr(ex)}] * len(doc['env'])
    sys.stdout.write('C16OUT' + json.dumps(res))


if __name__ == '__main__':
    main()
