/* C14: compile-only translation unit for a 32-bit (ILP32) target: instantiates every function of the rendered C support header
 * so that width errors (shift counts >= width, implicit narrowing of a 64-bit quantity to size_t, static_asserts on sizeof) surface
 * at compile time.  Built by tools/checks/c14.py with
 *   clang --target=i386-unknown-linux-gnu -std=c11 -c -O1 -Wall -Wextra -Wconversion -Werror
 *         -isystem tools/harness/c14_stub32xx -isystem /usr/include/x86_64-linux-gnu -I <rendered>
 * (the x86_64 glibc headers serve both word sizes; only <gnu/stubs-32.h> is missing in the sandbox and is an empty stand-in).
 * Nothing is linked or run: there is no 32-bit C library here (gcc -m32 stops at <bits/libc-header-start.h>). */
#include "nunavut/support/serialization.h"
_Static_assert(sizeof(size_t) == 4U, "this translation unit is meant for a 32-bit size_t");
_Static_assert(sizeof(unsigned long) == 4U, "ILP32");

uint64_t c14_probe32(uint8_t* const w, const uint8_t* const r, const size_t n, const size_t off, const uint8_t len, const uint64_t v)
{
    uint8_t tmp[16] = {0};
    uint64_t acc = nunavutSaturateBufferFragmentBitLength(n, off, len);
    nunavutCopyBits(w, off, len, r, 3U);
    nunavutGetBits(&tmp[0], r, n, off, 100U);
    acc += (uint64_t) nunavutSetBit(w, n, off, true) + (uint64_t) nunavutSetUxx(w, n, off, v, len) + (uint64_t) nunavutSetIxx(w, n, off, (int64_t) v, len);
    acc += nunavutGetBit(r, n, off) ? 1U : 0U;
    acc += nunavutGetU8(r, n, off, len) + nunavutGetU16(r, n, off, len) + nunavutGetU32(r, n, off, len) + nunavutGetU64(r, n, off, len);
    acc += (uint64_t) nunavutGetI8(r, n, off, len) + (uint64_t) nunavutGetI16(r, n, off, len) + (uint64_t) nunavutGetI32(r, n, off, len)
           + (uint64_t) nunavutGetI64(r, n, off, len);
#ifndef C14_OMIT_FLOAT
    acc += nunavutFloat16Pack(nunavutFloat16Unpack((uint16_t) v));
    acc += (uint64_t) nunavutSetF16(w, n, off, 1.5F) + (uint64_t) nunavutSetF32(w, n, off, 1.5F) + (uint64_t) nunavutSetF64(w, n, off, 1.5);
    acc += (uint64_t) nunavutGetF16(r, n, off) + (uint64_t) nunavutGetF32(r, n, off) + (uint64_t) nunavutGetF64(r, n, off);
#endif
    return acc + tmp[0];
}
