"""C05 probe: every exported macro / constexpr of the generated C and C++ headers, read from COMPILED code.

The shared runners (tools/harness/codec/target_{c,cpp}.py) print a subset of the metadata and echo major/minor from the type JSON.
This probe is compiled against the headers a built runner left in <workdir>/gen and prints, per composite:

  C    has=<_HAS_FIXED_PORT_ID_ as 0|1> port=<_FIXED_PORT_ID_|none> name=<_FULL_NAME_> namever=<_FULL_NAME_AND_VERSION_>
       ext=<_EXTENT_BYTES_> buf=<_SERIALIZATION_BUFFER_SIZE_BYTES_> [cap.<f>=<_ARRAY_CAPACITY_> var.<f>=<_ARRAY_IS_VARIABLE_LENGTH_ as 0|1>]...
       [count=<_UNION_OPTION_COUNT_>]
  C++  has=<_traits_::HasFixedPortID> port=<_traits_::FixedPortId|none> svc=<IsServiceType> [req=<IsRequest> rsp=<IsResponse>
       issvc=<IsService>] ext=<ExtentBytes> buf=<SerializationBufferSizeBytes> [count=<VariantType::MAX_INDEX>]

probe_c(tgt, db) / probe_cpp(tgt, db) -> (ok, {type id: {key: value}} | log)"""
from __future__ import annotations

import os
import subprocess
import typing

from tools.harness.codec import proto, target_c


def _owner(c: dict) -> str:
    """C name prefix of the macros of base.j2 (rendered once per file: for a service part they carry the service's name)"""
    if c.get('service_id'):
        parts = c['service_id'].split('.')
        return '%s_%s_%s' % ('_'.join(parts[:-2]), parts[-2], parts[-1])
    return target_c.c_type_name(c)


def c_source(db: proto.TypeDB) -> str:
    L = ['#include <stdio.h>', '#include <stdbool.h>', '#include <stddef.h>', '#include <assert.h>']
    for h in sorted({target_c.header_of(db.comp(t)) for t in db.ids()}):
        L.append('#include "%s"' % h)
    L += ['int main(void)', '{']
    for tid in db.ids():
        c = db.comp(tid)
        T, O = target_c.c_type_name(c), _owner(c)
        L.append('    printf("T %s has=%%d", (int) (%s_HAS_FIXED_PORT_ID_));' % (tid, O))
        L += ['#if defined(%s_FIXED_PORT_ID_)' % O, '    printf(" port=%%lu", (unsigned long) %s_FIXED_PORT_ID_);' % O, '#else',
              '    fputs(" port=none", stdout);', '#endif']
        L.append('    printf(" name=%%s namever=%%s ext=%%lu buf=%%lu", %s_FULL_NAME_, %s_FULL_NAME_AND_VERSION_, '
                 '(unsigned long) %s_EXTENT_BYTES_, (unsigned long) %s_SERIALIZATION_BUFFER_SIZE_BYTES_);' % (T, T, T, T))
        for f in c['fields']:
            if f['type']['k'] in ('farr', 'varr'):
                L.append('    printf(" cap.%s=%%lu var.%s=%%d", (unsigned long) %s_%s_ARRAY_CAPACITY_, (int) (%s_%s_ARRAY_IS_VARIABLE_LENGTH_));'
                         % (f['name'], f['name'], T, f['name'], T, f['name']))
        if c['kind'] == 'union':
            L.append('    printf(" count=%%lu", (unsigned long) %s_UNION_OPTION_COUNT_);' % T)
        L.append('    putchar(\'\\n\');')
    L += ['    return 0;', '}', '']
    return '\n'.join(L)


def cpp_type(c: dict) -> str:
    return '::' + '::'.join(c['full_name'].split('.')) + '_%d_%d' % (c['major'], c['minor'])


CPP_HEAD = r'''
#include <cstdio>
#include <type_traits>
template <class...> struct voider { using type = void; };
template <class Tr, class = void> struct Port { static void put() { std::fputs(" port=none", stdout); } };
template <class Tr> struct Port<Tr, typename voider<decltype(Tr::FixedPortId)>::type>
{ static void put() { std::printf(" port=%lu", static_cast<unsigned long>(Tr::FixedPortId)); } };
template <class Tr, class = void> struct Svc { static void put() {} };
template <class Tr> struct Svc<Tr, typename voider<decltype(Tr::IsRequest)>::type>
{ static void put() { std::printf(" req=%d rsp=%d issvc=%d", int(Tr::IsRequest), int(Tr::IsResponse), int(Tr::IsService)); } };
template <class T> void common(const char* id)
{
    using Tr = typename T::_traits_;
    std::printf("T %s has=%d", id, int(Tr::HasFixedPortID));
    Port<Tr>::put();
    std::printf(" svc=%d", int(Tr::IsServiceType));
    Svc<Tr>::put();
    std::printf(" ext=%lu buf=%lu", static_cast<unsigned long>(Tr::ExtentBytes), static_cast<unsigned long>(Tr::SerializationBufferSizeBytes));
}
'''


def cpp_source(db: proto.TypeDB, gen: str) -> str:
    heads = []
    for root, _, names in os.walk(gen):
        for n in names:
            if n.endswith('.hpp') and os.sep + 'support' + os.sep not in os.path.join(root, n):
                heads.append(os.path.relpath(os.path.join(root, n), gen))
    L = ['#include "%s"' % h for h in sorted(heads)] + [CPP_HEAD, 'int main()', '{']
    for tid in db.ids():
        c = db.comp(tid)
        T = cpp_type(c)
        L.append('    common<%s>("%s");' % (T, tid))
        if c['kind'] == 'union':
            L.append('    std::printf(" count=%%lu", static_cast<unsigned long>(%s::VariantType::MAX_INDEX));' % T)
        L.append('    std::putchar(\'\\n\');')
    L += cpp_service_lines(db)
    L += ['    return 0;', '}', '']
    return '\n'.join(L)


def services(db: proto.TypeDB) -> typing.Dict[str, dict]:
    out: typing.Dict[str, dict] = {}
    for t in db.ids():
        c = db.comp(t)
        if c.get('service_id'):
            out.setdefault(c['service_id'], {})[c['service_part']] = c
    return out


def cpp_service_lines(db: proto.TypeDB) -> typing.List[str]:
    L = []
    for sid, parts in services(db).items():
        p = sid.split('.')
        S = '::' + '::'.join(p[:-2]) + '_%s_%s' % (p[-2], p[-1])
        L.append('    { using Tr = %s::_traits_; std::printf("S %s svc=%%d issvc=%%d req=%%d rsp=%%d reqalias=%%d rspalias=%%d\\n", '
                 'int(Tr::IsServiceType), int(Tr::IsService), int(Tr::IsRequest), int(Tr::IsResponse), '
                 'int(std::is_same<%s::Request, %s>::value), int(std::is_same<%s::Response, %s>::value)); }'
                 % (S, sid, S, cpp_type(parts['Request']), S, cpp_type(parts['Response'])))
    return L


def probe_py_services(tgt, db: proto.TypeDB) -> typing.Tuple[bool, typing.Any]:
    """_FIXED_PORT_ID_ of the generated Python SERVICE classes (py/templates/ServiceType.j2), read from the imported modules"""
    sids = sorted(services(db))
    script = ('import importlib, sys\n'
              'for sid in sys.argv[1:]:\n'
              '    p = sid.split(".")\n'
              '    name = "%s_%s_%s" % (p[-3], p[-2], p[-1])\n'
              '    m = importlib.import_module(".".join(p[:-3] + [name]))\n'
              '    cls = getattr(m, name)\n'
              '    print("S", sid, "port=%s" % getattr(cls, "_FIXED_PORT_ID_", "none"), "has_req=%d" % hasattr(cls, "Request"), '
              '"has_rsp=%d" % hasattr(cls, "Response"))\n')
    p = subprocess.run([target_c.PY, '-c', script] + sids, env=tgt.env, cwd=tgt.workdir, stdout=subprocess.PIPE, stderr=subprocess.STDOUT,
                       text=True, errors='replace', timeout=300)
    if p.returncode != 0:
        return False, 'python service probe failed: %s' % p.stdout[-2000:]
    res = {}
    for line in p.stdout.splitlines():
        t = line.split()
        if len(t) >= 2 and t[0] == 'S':
            res[t[1]] = dict(x.split('=', 1) for x in t[2:] if '=' in x)
    return True, res


CLASH_FILES = {'nsk/Clash.1.0.dsdl': 'uint16 EXTENT_BYTES_ = 999\nuint8 SERIALIZATION_BUFFER_SIZE_BYTES_ = 1\nuint8[<=3] xs\n@sealed\n'}


def probe_macro_clash(repo: str, workdir: str) -> typing.Tuple[bool, str]:
    """witness of F-C-MACRO-CLASH: (reproduces, detail).  Generated with the real nnvg, compiled WITHOUT -Werror (gcc only warns)."""
    ns = os.path.join(workdir, 'nsk')
    os.makedirs(ns, exist_ok=True)
    with open(os.path.join(ns, 'Clash.1.0.dsdl'), 'w') as f:
        f.write(CLASH_FILES['nsk/Clash.1.0.dsdl'])
    env = dict(os.environ, PYTHONPATH=os.path.join(repo, 'src'), PYTHONDONTWRITEBYTECODE='1')
    gen = os.path.join(workdir, 'gen')
    p = subprocess.run([target_c.PY, '-m', 'nunavut', '--target-language', 'c', '--outdir', gen, ns], env=env, stdout=subprocess.PIPE,
                       stderr=subprocess.STDOUT, text=True, errors='replace', timeout=300)
    if p.returncode != 0:
        return False, 'nnvg refused the witness (no longer reproduces): %s' % p.stdout[-300:].replace('\n', ' ')
    src, exe = os.path.join(workdir, 'clash.c'), os.path.join(workdir, 'clash')
    with open(src, 'w') as f:
        f.write('#include <stdio.h>\n#include <stdint.h>\n#include "nsk/Clash_1_0.h"\nint main(void){ nsk_Clash_1_0 o; uint8_t b[16]; size_t n = '
                '(size_t) nsk_Clash_1_0_SERIALIZATION_BUFFER_SIZE_BYTES_; nsk_Clash_1_0_initialize_(&o); o.xs.count = 3; '
                'printf("ext=%lu buf=%lu rc=%d\\n", (unsigned long) nsk_Clash_1_0_EXTENT_BYTES_, '
                '(unsigned long) nsk_Clash_1_0_SERIALIZATION_BUFFER_SIZE_BYTES_, (int) nsk_Clash_1_0_serialize_(&o, b, &n)); return 0; }\n')
    q = subprocess.run(['gcc', '-std=c11', '-w', '-I', gen, src, '-o', exe, '-lm'], stdout=subprocess.PIPE, stderr=subprocess.STDOUT, text=True,
                       errors='replace', timeout=300)
    if q.returncode != 0:
        return False, 'the witness header does not compile (no longer reproduces as a silent clash): %s' % q.stdout[-300:].replace('\n', ' ')
    r = subprocess.run([exe], stdout=subprocess.PIPE, stderr=subprocess.STDOUT, text=True, timeout=60)
    out = r.stdout.strip()
    return out != 'ext=4 buf=4 rc=0', out


def _parse(out: str) -> typing.Dict[str, typing.Dict[str, str]]:
    res: typing.Dict[str, typing.Dict[str, str]] = {}
    for line in out.splitlines():
        t = line.split()
        if len(t) >= 2 and t[0] in ('T', 'S'):
            res[('svc:' if t[0] == 'S' else '') + t[1]] = dict(x.split('=', 1) for x in t[2:] if '=' in x)
    return res


def _run(cmd: typing.List[str], exe: str) -> typing.Tuple[bool, typing.Any]:
    p = subprocess.run(cmd, stdout=subprocess.PIPE, stderr=subprocess.STDOUT, text=True, errors='replace', timeout=900)
    if p.returncode != 0:
        return False, 'probe does not compile (%s): %s' % (' '.join(cmd[:6]), p.stdout[-3000:])
    q = subprocess.run([exe], stdout=subprocess.PIPE, stderr=subprocess.STDOUT, text=True, errors='replace', timeout=120)
    if q.returncode != 0:
        return False, 'probe failed: %s' % q.stdout[-2000:]
    return True, _parse(q.stdout)


def probe_c(tgt, db: proto.TypeDB) -> typing.Tuple[bool, typing.Any]:
    wd = tgt.workdir
    src, exe = os.path.join(wd, 'c05_probe.c'), os.path.join(wd, 'c05_probe')
    with open(src, 'w', encoding='utf-8') as f:
        f.write(c_source(db))
    cmd = ['gcc', '-std=c11', '-O0', '-Wall', '-Wextra', '-Werror', '-pedantic']
    if tgt.options.get('enable_serialization_asserts'):
        cmd.append('-DNUNAVUT_ASSERT=assert')      # headers generated with --enable-serialization-asserts require it
    return _run(cmd + ['-I', os.path.join(wd, 'gen'), src, '-o', exe, '-lm'], exe)


def probe_cpp(tgt, db: proto.TypeDB) -> typing.Tuple[bool, typing.Any]:
    wd = tgt.workdir
    gen = os.path.join(wd, 'gen')
    src, exe = os.path.join(wd, 'c05_probe.cpp'), os.path.join(wd, 'c05_probe_cpp')
    with open(src, 'w', encoding='utf-8') as f:
        f.write(cpp_source(db, gen))
    cmd = [c for c in tgt.compile_cmd(src, exe, gen) if not c.startswith('-fsanitize') and c != '-fno-sanitize-recover=all']
    return _run(cmd, exe)
