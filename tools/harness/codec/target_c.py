"""C target runner of the codec harness (proto.Target): real nnvg run from the repository, a generated per-namespace driver
translation unit walking the type JSON (read_/dump_ per composite, ser/des/meta dispatch), compiled with gcc or clang+sanitizers.

options: target_endianness any|little|big (default any); enable_serialization_asserts (bool; compiled with
-DNUNAVUT_ASSERT=assert); sanitize (bool: clang -fsanitize=address,undefined -fno-sanitize-recover=all); cc (compiler override);
opt (optimisation level, default '-O1'); enable_override_variable_array_capacity,
omit_float_serialization_support (nnvg flags; defaults untouched, the latter needs a float-free namespace).

Buffers handed to the generated code are heap blocks of exactly the requested size (malloc(0) for empty ones) so that the
sanitizers see any access past the end.  `fresh` destination objects are zero-filled, `poison` ones 0xA5-filled."""
from __future__ import annotations

import os
import re
import subprocess
import typing

from . import proto

PY = '/venv/bin/python'


def c_type_name(c: dict) -> str:
    return '%s_%d_%d' % (c['full_name'].replace('.', '_'), c['major'], c['minor'])


def header_of(c: dict) -> str:
    if c.get('service_id'):
        parts = c['service_id'].split('.')
        name, major, minor = parts[:-2], parts[-2], parts[-1]
        return '/'.join(name[:-1] + ['%s_%s_%s.h' % (name[-1], major, minor)])
    parts = c['full_name'].split('.')
    return '/'.join(parts[:-1] + ['%s_%d_%d.h' % (parts[-1], c['major'], c['minor'])])


def std_width(w: int) -> int:
    return 8 if w <= 8 else 16 if w <= 16 else 32 if w <= 32 else 64


PRELUDE = r'''
#include <stdio.h>
#include <stdlib.h>
#include <string.h>
#include <stdint.h>
#include <stdbool.h>
#include <inttypes.h>
#include <errno.h>

static char** g_tok = NULL;
static size_t g_ntok = 0, g_cap = 0, g_pos = 0;

__attribute__((unused)) static int rd_u(uint64_t* out)
{
    if (g_pos >= g_ntok) { return 1; }
    const char* s = g_tok[g_pos++];
    if (*s < '0' || *s > '9') { return (*s == '-') ? 2 : 1; }
    char* end = NULL;
    errno = 0;
    unsigned long long v = strtoull(s, &end, 10);
    if (*end != '\0') { return 1; }
    if (errno == ERANGE) { return 2; }
    *out = (uint64_t) v;
    return 0;
}
__attribute__((unused)) static int rd_i(int64_t* out)
{
    if (g_pos >= g_ntok) { return 1; }
    const char* s = g_tok[g_pos++];
    if (!((*s >= '0' && *s <= '9') || *s == '-')) { return 1; }
    char* end = NULL;
    errno = 0;
    long long v = strtoll(s, &end, 10);
    if (*end != '\0' || end == s) { return 1; }
    if (errno == ERANGE) { return 2; }
    *out = (int64_t) v;
    return 0;
}
__attribute__((unused)) static int rd_x(uint64_t* out)
{
    if (g_pos >= g_ntok) { return 1; }
    const char* s = g_tok[g_pos++];
    char* end = NULL;
    errno = 0;
    if (*s == '-' || *s == '+' || *s == '\0') { return 1; }
    unsigned long long v = strtoull(s, &end, 16);
    if (*end != '\0') { return 1; }
    if (errno == ERANGE) { return 2; }
    *out = (uint64_t) v;
    return 0;
}
static int hexval(int ch)
{
    if (ch >= '0' && ch <= '9') { return ch - '0'; }
    if (ch >= 'a' && ch <= 'f') { return ch - 'a' + 10; }
    if (ch >= 'A' && ch <= 'F') { return ch - 'A' + 10; }
    return -1;
}
/* parses hex ('-' = empty) into an exactly sized heap block; returns 0 on success */
static int parse_hex(const char* s, uint8_t** out, size_t* out_len)
{
    size_t n = 0;
    if (!(s[0] == '-' && s[1] == '\0'))
    {
        size_t l = strlen(s);
        if (l % 2U != 0U) { return 1; }
        n = l / 2U;
    }
    uint8_t* b = (uint8_t*) malloc(n);
    if (b == NULL) { b = (uint8_t*) malloc(1); }
    for (size_t i = 0; i < n; i++)
    {
        int hi = hexval(s[2U * i]), lo = hexval(s[2U * i + 1U]);
        if (hi < 0 || lo < 0) { free(b); return 1; }
        b[i] = (uint8_t) ((hi << 4) | lo);
    }
    *out = b;
    *out_len = n;
    return 0;
}
static void print_hex(const uint8_t* b, size_t n)
{
    if (n == 0) { fputs("-", stdout); return; }
    for (size_t i = 0; i < n; i++) { printf("%02x", (unsigned) b[i]); }
}
static const char* err_class(int rc, char* tmp)
{
    switch (-rc)
    {
    case NUNAVUT_ERROR_INVALID_ARGUMENT: return "invalid_arg";
    case NUNAVUT_ERROR_SERIALIZATION_BUFFER_TOO_SMALL: return "too_small";
    case NUNAVUT_ERROR_REPRESENTATION_BAD_ARRAY_LENGTH: return "bad_length";
    case NUNAVUT_ERROR_REPRESENTATION_BAD_UNION_TAG: return "bad_tag";
    case NUNAVUT_ERROR_REPRESENTATION_BAD_DELIMITER_HEADER: return "bad_header";
    default: sprintf(tmp, "code%d", rc); return tmp;
    }
}
static void fill_buf(uint8_t* b, size_t n, const char* fill)
{
    if (fill[0] == 'z') { memset(b, 0, n); }
    else if (fill[0] == 'f') { memset(b, 0xFF, n); }
    else
    {
        uint64_t seed = strtoull(fill + 1, NULL, 10);
        for (size_t i = 0; i < n; i++) { b[i] = (uint8_t) ((((1103515245ULL * (seed + i)) + 12345ULL) >> 16U) & 0xFFU); }
    }
}
__attribute__((unused)) static void put_f32(float f) { uint32_t b; memcpy(&b, &f, 4); printf(" %" PRIx32, b); }
__attribute__((unused)) static void put_f64(double f) { uint64_t b; memcpy(&b, &f, 8); printf(" %" PRIx64, b); }
'''

MAIN = r'''
int main(void)
{
    char* line = NULL;
    size_t line_cap = 0;
    for (;;)
    {
        ssize_t n = getline(&line, &line_cap, stdin);
        if (n < 0) { break; }
        g_ntok = 0;
        char* p = line;
        while (*p)
        {
            while (*p == ' ' || *p == '\n' || *p == '\r' || *p == '\t') { *p++ = '\0'; }
            if (!*p) { break; }
            if (g_ntok == g_cap)
            {
                g_cap = g_cap ? 2U * g_cap : 1024U;
                g_tok = (char**) realloc(g_tok, g_cap * sizeof(char*));
            }
            g_tok[g_ntok++] = p;
            while (*p && *p != ' ' && *p != '\n' && *p != '\r' && *p != '\t') { p++; }
        }
        const entry_t* e = NULL;
        if (g_ntok >= 2)
        {
            for (size_t i = 0; i < sizeof(g_types) / sizeof(g_types[0]); i++)
            {
                if (strcmp(g_types[i].id, g_tok[1]) == 0) { e = &g_types[i]; break; }
            }
        }
        if (e == NULL) { puts("err invalid_arg"); }
        else if (strcmp(g_tok[0], "ser") == 0 && g_ntok >= 4)
        {
            uint64_t cap = 0;
            g_pos = 2;
            if (rd_u(&cap) != 0 || cap > (1ULL << 30)) { puts("err invalid_arg"); }
            else { g_pos = 4; e->ser((size_t) cap, g_tok[3]); }
        }
        else if (strcmp(g_tok[0], "des") == 0 && g_ntok == 4) { e->des(g_tok[2], g_tok[3]); }
        else if (strcmp(g_tok[0], "meta") == 0 && g_ntok == 2) { e->meta(); }
        else { puts("err invalid_arg"); }
        fflush(stdout);
    }
    free(line);
    free(g_tok);
    return 0;
}
'''

HANDLERS = r'''
static void ser_@T@(size_t cap, const char* fill)
{
    @T@* obj = (@T@*) malloc(sizeof(@T@));
    memset(obj, 0, sizeof(@T@));
    int st = read_@T@(obj);
    if (st == 0 && g_pos != g_ntok) { st = 1; }
    if (st != 0) { puts(st == 2 ? "err rejected" : "err invalid_arg"); free(obj); return; }
    uint8_t* buf = (uint8_t*) malloc(cap);
    if (buf == NULL) { buf = (uint8_t*) malloc(1); }
    fill_buf(buf, cap, fill);
    size_t size = cap;
    const int rc = @T@_serialize_(obj, buf, &size);
    char tmp[32];
    if (rc < 0) { printf("err %s\n", err_class(rc, tmp)); }
    else if (size > cap) { printf("err size_exceeds_capacity_%zu\n", size); }
    else { printf("ok %zu ", size); print_hex(buf, size); putchar('\n'); }
    free(buf);
    free(obj);
}
static void des_@T@(const char* prior, const char* hex)
{
    uint8_t* buf = NULL;
    size_t len = 0;
    if (parse_hex(hex, &buf, &len) != 0) { puts("err invalid_arg"); return; }
    @T@* obj = (@T@*) malloc(sizeof(@T@));
    if (strcmp(prior, "poison") == 0) { memset(obj, 0xA5, sizeof(@T@)); }
    else
    {
        memset(obj, 0, sizeof(@T@));
        if (strncmp(prior, "prev:", 5) == 0)
        {
            uint8_t* pb = NULL;
            size_t pl = 0;
            if (parse_hex(prior + 5, &pb, &pl) != 0) { puts("err invalid_arg"); free(buf); free(obj); return; }
            size_t ps = pl;
            (void) @T@_deserialize_(obj, pb, &ps);
            free(pb);
        }
        else if (strcmp(prior, "fresh") != 0) { puts("err invalid_arg"); free(buf); free(obj); return; }
    }
    size_t size = len;
    const int rc = @T@_deserialize_(obj, buf, &size);
    char tmp[32];
    if (rc < 0) { printf("err %s\n", err_class(rc, tmp)); }
    else { printf("ok %zu", size); dump_@T@(obj); putchar('\n'); }
    free(buf);
    free(obj);
}
'''


class Emitter:
    def __init__(self, db: proto.TypeDB):
        self.db = db
        self.lines: typing.List[str] = []
        self.uid = 0

    def fresh(self, p: str) -> str:
        self.uid += 1
        return '%s%d' % (p, self.uid)

    # ---- read -----------------------------------------------------------------------------
    def read_scalar(self, t: dict, lv: str, ind: str) -> None:
        k, L = t['k'], self.lines
        if k == 'bool':
            u = self.fresh('u')
            L.append('%s{ uint64_t %s = 0; st = rd_u(&%s); if (st) { return st; } if (%s > 1U) { return 2; } %s = (%s != 0U); }' % (ind, u, u, u, lv, u))
        elif k == 'uint':
            u, s = self.fresh('u'), std_width(t['w'])
            chk = '' if s == 64 else ' if (%s > UINT%d_MAX) { return 2; }' % (u, s)
            L.append('%s{ uint64_t %s = 0; st = rd_u(&%s); if (st) { return st; }%s %s = (uint%d_t) %s; }' % (ind, u, u, chk, lv, s, u))
        elif k == 'int':
            u, s = self.fresh('s'), std_width(t['w'])
            chk = '' if s == 64 else ' if (%s > INT%d_MAX || %s < INT%d_MIN) { return 2; }' % (u, s, u, s)
            L.append('%s{ int64_t %s = 0; st = rd_i(&%s); if (st) { return st; }%s %s = (int%d_t) %s; }' % (ind, u, u, chk, lv, s, u))
        elif k == 'float':
            u = self.fresh('x')
            if t['w'] == 64:
                L.append('%s{ uint64_t %s = 0; st = rd_x(&%s); if (st) { return st; } memcpy(&%s, &%s, 8); }' % (ind, u, u, lv, u))
            else:
                L.append('%s{ uint64_t %s = 0; st = rd_x(&%s); if (st) { return st; } if (%s > UINT32_MAX) { return 2; } '
                         'uint32_t b%s = (uint32_t) %s; memcpy(&%s, &b%s, 4); }' % (ind, u, u, u, u, u, lv, u))
        elif k == 'ref':
            L.append('%sst = read_%s(&%s); if (st) { return st; }' % (ind, c_type_name(self.db.comp(t['id'])), lv))
        else:
            raise ValueError(k)

    def scratch_decl(self, t: dict, name: str) -> str:
        k = t['k']
        if k == 'bool':
            return 'bool %s = false;' % name
        if k == 'uint':
            return 'uint%d_t %s = 0;' % (std_width(t['w']), name)
        if k == 'int':
            return 'int%d_t %s = 0;' % (std_width(t['w']), name)
        if k == 'float':
            return '%s %s = 0;' % ('double' if t['w'] == 64 else 'float', name)
        if k == 'ref':
            n = c_type_name(self.db.comp(t['id']))
            return 'static %s %s;' % (n, name)
        raise ValueError(k)

    def read_field(self, f: dict, base: str, ind: str) -> None:
        t, name, L = f['type'], f['name'], self.lines
        k = t['k']
        if k == 'void':
            return
        if k == 'farr':
            e, i = t['elem'], self.fresh('i')
            if e['k'] == 'bool':
                u = self.fresh('u')
                L.append('%sfor (size_t %s = 0; %s < %dU; %s++) { uint64_t %s = 0; st = rd_u(&%s); if (st) { return st; } if (%s > 1U) { return 2; } '
                         'if (%s) { %s%s_bitpacked_[%s / 8U] |= (uint8_t) (1U << (%s %% 8U)); } }'
                         % (ind, i, i, t['n'], i, u, u, u, u, base, name, i, i))
            else:
                L.append('%sfor (size_t %s = 0; %s < %dU; %s++)' % (ind, i, i, t['n'], i))
                L.append(ind + '{')
                self.read_scalar(e, '%s%s[%s]' % (base, name, i), ind + '    ')
                L.append(ind + '}')
            return
        if k == 'varr':
            e, i, n = t['elem'], self.fresh('i'), self.fresh('n')
            L.append('%s{' % ind)
            L.append('%s    uint64_t %s = 0; st = rd_u(&%s); if (st) { return st; } if (%s > 1000000U) { return 2; }' % (ind, n, n, n))
            L.append('%s    %s%s.count = (size_t) %s;' % (ind, base, name, n))
            if e['k'] == 'bool':
                u = self.fresh('u')
                L.append('%s    for (size_t %s = 0; %s < %s; %s++) { uint64_t %s = 0; st = rd_u(&%s); if (st) { return st; } if (%s > 1U) { return 2; } '
                         'if (%s && %s < %dU) { %s%s.bitpacked[%s / 8U] |= (uint8_t) (1U << (%s %% 8U)); } }'
                         % (ind, i, i, n, i, u, u, u, u, i, t['cap'], base, name, i, i))
            else:
                tmp = self.fresh('tmp')
                L.append('%s    %s' % (ind, self.scratch_decl(e, tmp)))
                L.append('%s    for (size_t %s = 0; %s < %s; %s++)' % (ind, i, i, n, i))
                L.append('%s    {' % ind)
                L.append('%s        if (%s < %dU)' % (ind, i, t['cap']))
                L.append('%s        {' % ind)
                self.read_scalar(e, '%s%s.elements[%s]' % (base, name, i), ind + '            ')
                L.append('%s        }' % ind)
                L.append('%s        else' % ind)
                L.append('%s        {' % ind)
                self.read_scalar(e, tmp, ind + '            ')
                L.append('%s        }' % ind)
                L.append('%s    }' % ind)
                L.append('%s    (void) %s;' % (ind, tmp))
            L.append('%s}' % ind)
            return
        self.read_scalar(t, base + name, ind)

    # ---- dump -----------------------------------------------------------------------------
    def dump_scalar(self, t: dict, rv: str, ind: str) -> None:
        k, L = t['k'], self.lines
        if k == 'bool':
            L.append('%sfputs((%s) ? " 1" : " 0", stdout);' % (ind, rv))
        elif k == 'uint':
            L.append('%sprintf(" %%" PRIu64, (uint64_t) (%s));' % (ind, rv))
        elif k == 'int':
            L.append('%sprintf(" %%" PRId64, (int64_t) (%s));' % (ind, rv))
        elif k == 'float':
            L.append('%sput_f%d(%s);' % (ind, 64 if t['w'] == 64 else 32, rv))
        elif k == 'ref':
            L.append('%sdump_%s(&%s);' % (ind, c_type_name(self.db.comp(t['id'])), rv))
        else:
            raise ValueError(k)

    def dump_field(self, f: dict, base: str, ind: str) -> None:
        t, name, L = f['type'], f['name'], self.lines
        k = t['k']
        if k == 'void':
            return
        if k == 'farr':
            e, i = t['elem'], self.fresh('i')
            if e['k'] == 'bool':
                L.append('%sfor (size_t %s = 0; %s < %dU; %s++) { fputs(((%s%s_bitpacked_[%s / 8U] >> (%s %% 8U)) & 1U) ? " 1" : " 0", stdout); }'
                         % (ind, i, i, t['n'], i, base, name, i, i))
            else:
                L.append('%sfor (size_t %s = 0; %s < %dU; %s++)' % (ind, i, i, t['n'], i))
                L.append(ind + '{')
                self.dump_scalar(e, '%s%s[%s]' % (base, name, i), ind + '    ')
                L.append(ind + '}')
            return
        if k == 'varr':
            e, i = t['elem'], self.fresh('i')
            L.append('%sprintf(" %%zu", %s%s.count);' % (ind, base, name))
            lim = '((%s%s.count < %dU) ? %s%s.count : %dU)' % (base, name, t['cap'], base, name, t['cap'])
            if e['k'] == 'bool':
                L.append('%sfor (size_t %s = 0; %s < %s; %s++) { fputs(((%s%s.bitpacked[%s / 8U] >> (%s %% 8U)) & 1U) ? " 1" : " 0", stdout); }'
                         % (ind, i, i, lim, i, base, name, i, i))
            else:
                L.append('%sfor (size_t %s = 0; %s < %s; %s++)' % (ind, i, i, lim, i))
                L.append(ind + '{')
                self.dump_scalar(e, '%s%s.elements[%s]' % (base, name, i), ind + '    ')
                L.append(ind + '}')
            return
        self.dump_scalar(t, base + name, ind)

    # ---- composites -----------------------------------------------------------------------
    def composite(self, c: dict) -> None:
        T, L = c_type_name(c), self.lines
        L.append('static int read_%s(%s* const obj)' % (T, T))
        L.append('{')
        L.append('    int st = 0;')
        L.append('    (void) obj; (void) st;')
        if c['kind'] == 'union':
            L.append('    uint64_t tag = 0; st = rd_u(&tag); if (st) { return st; } if (tag > 255U) { return 2; }')
            L.append('    obj->_tag_ = (uint8_t) tag;')
            L.append('    switch (tag)')
            L.append('    {')
            for i, f in enumerate(c['fields']):
                L.append('    case %dU:' % i)
                self.read_field(f, 'obj->', '        ')
                L.append('        break;')
            L.append('    default: break;')
            L.append('    }')
        else:
            for f in c['fields']:
                self.read_field(f, 'obj->', '    ')
        L.append('    return 0;')
        L.append('}')
        L.append('static void dump_%s(const %s* const obj)' % (T, T))
        L.append('{')
        L.append('    (void) obj;')
        if c['kind'] == 'union':
            L.append('    printf(" %u", (unsigned) obj->_tag_);')
            L.append('    switch (obj->_tag_)')
            L.append('    {')
            for i, f in enumerate(c['fields']):
                L.append('    case %dU:' % i)
                self.dump_field(f, 'obj->', '        ')
                L.append('        break;')
            L.append('    default: break;')
            L.append('    }')
        else:
            for f in c['fields']:
                self.dump_field(f, 'obj->', '    ')
        L.append('}')
        L.append(HANDLERS.replace('@T@', T))
        # meta
        L.append('static void meta_%s(void)' % T)
        L.append('{')
        L.append('    printf("ok extent_bytes=%%zu buffer_bytes=%%zu full_name=%%s major=%d minor=%d", (size_t) %s_EXTENT_BYTES_, '
                 '(size_t) %s_SERIALIZATION_BUFFER_SIZE_BYTES_, %s_FULL_NAME_);' % (c['major'], c['minor'], T, T, T))
        port_owner = T
        if c.get('service_id'):
            parts = c['service_id'].split('.')
            port_owner = '%s_%s_%s' % ('_'.join(parts[:-2]), parts[-2], parts[-1])
        if c.get('fixed_port_id') is not None or c.get('service_id'):
            L.append('#if defined(%s_FIXED_PORT_ID_)' % port_owner)
            L.append('    printf(" port_id=%%lu", (unsigned long) %s_FIXED_PORT_ID_);' % port_owner)
            L.append('#else')
            L.append('    fputs(" port_id=none", stdout);')
            L.append('#endif')
        else:
            L.append('    fputs(" port_id=none", stdout);')
        for f in c['fields']:
            if f['type']['k'] in ('farr', 'varr'):
                L.append('    printf(" cap.%s=%%lu", (unsigned long) %s_%s_ARRAY_CAPACITY_);' % (f['name'], T, f['name']))
        if c['kind'] == 'union':
            L.append('    printf(" union_count=%%lu", (unsigned long) %s_UNION_OPTION_COUNT_);' % T)
        for k in c.get('constants', []):
            kt = k['type']
            if kt['k'] == 'bool':
                L.append('    printf(" const.%s=%%d", (%s_%s) ? 1 : 0);' % (k['name'], T, k['name']))
            elif kt['k'] == 'uint':
                L.append('    printf(" const.%s=%%" PRIu64, (uint64_t) (%s_%s));' % (k['name'], T, k['name']))
            elif kt['k'] == 'int':
                L.append('    printf(" const.%s=%%" PRId64, (int64_t) (%s_%s));' % (k['name'], T, k['name']))
            elif kt['k'] == 'float':
                L.append('    fputs(" const.%s=", stdout); { %s cv = %s_%s; uint%d_t cb; memcpy(&cb, &cv, sizeof cb); printf("%%" PRIx%d, cb); }'
                         % (k['name'], 'double' if kt['w'] == 64 else 'float', T, k['name'], 64 if kt['w'] == 64 else 32, 64 if kt['w'] == 64 else 32))
        L.append('    putchar(\'\\n\');')
        L.append('}')


def topo(db: proto.TypeDB) -> typing.List[dict]:
    out, seen = [], set()

    def refs(t):
        if t['k'] in ('farr', 'varr'):
            return refs(t['elem'])
        return [t['id']] if t['k'] == 'ref' else []

    def visit(tid):
        if tid in seen:
            return
        seen.add(tid)
        c = db.comp(tid)
        for f in c['fields']:
            for r in refs(f['type']):
                visit(r)
        out.append(c)

    for tid in db.ids():
        visit(tid)
    return out


def driver_source(db: proto.TypeDB, asserts: bool) -> str:
    comps = topo(db)
    head = []
    if asserts:
        head.append('#include <assert.h>')
    head.append('#define _POSIX_C_SOURCE 200809L')
    head.append('#include <sys/types.h>')
    seen_h = []
    for c in comps:
        h = header_of(c)
        if h not in seen_h:
            seen_h.append(h)
    em = Emitter(db)
    for c in comps:
        em.composite(c)
    table = ['typedef struct { const char* id; void (*ser)(size_t, const char*); void (*des)(const char*, const char*); void (*meta)(void); } entry_t;',
             'static const entry_t g_types[] = {']
    for c in comps:
        T = c_type_name(c)
        table.append('    {"%s", ser_%s, des_%s, meta_%s},' % (c['id'], T, T, T))
    table.append('};')
    return '\n'.join(['#define _POSIX_C_SOURCE 200809L'] + (['#include <assert.h>'] if asserts else [])
                     + ['#include <sys/types.h>'] + ['#include "%s"' % h for h in seen_h]
                     + [PRELUDE] + em.lines + table + [MAIN]) + '\n'


class CTarget(proto.Target):
    name = 'c'

    def __init__(self, options: typing.Optional[dict] = None):
        super().__init__(options)
        self.exe: typing.Optional[str] = None
        self.workdir: typing.Optional[str] = None

    def label(self) -> str:
        o = self.options
        return 'c[%s%s%s]' % (o.get('target_endianness', 'any'), ',asserts' if o.get('enable_serialization_asserts') else '',
                              ',san' if o.get('sanitize') else '')

    def generate(self, ns_dirs: typing.List[str], outdir: str, repo: str) -> typing.Tuple[bool, str]:
        env = dict(os.environ)
        env['PYTHONPATH'] = os.path.join(repo, 'src')
        env.setdefault('PYTHONHASHSEED', '0')
        env['PYTHONDONTWRITEBYTECODE'] = '1'
        log = ''
        for i, d in enumerate(ns_dirs):
            cmd = [PY, '-m', 'nunavut', '--target-language', 'c', '--outdir', outdir, '--allow-unregulated-fixed-port-id',
                   '--target-endianness', self.options.get('target_endianness', 'any')]
            if self.options.get('enable_serialization_asserts'):
                cmd.append('--enable-serialization-asserts')
            if self.options.get('enable_override_variable_array_capacity'):
                cmd.append('--enable-override-variable-array-capacity')
            if self.options.get('omit_float_serialization_support'):
                cmd.append('--omit-float-serialization-support')       # only float-free namespaces compile then
            for j, o in enumerate(ns_dirs):
                if j != i:
                    cmd += ['-I', o]
            cmd.append(d)
            p = subprocess.run(cmd, env=env, stdout=subprocess.PIPE, stderr=subprocess.STDOUT, text=True, errors='replace', timeout=600)
            log += p.stdout
            if p.returncode != 0:
                return False, 'nnvg failed (%s): %s' % (' '.join(cmd), p.stdout[-3000:])
        return True, log

    def compile_cmd(self, gen: str, src: str, exe: str) -> typing.List[str]:
        o = self.options
        opt = o.get('opt', '-O1')
        if o.get('sanitize'):
            cmd = [o.get('cc', 'clang'), '-std=c11', opt, '-g', '-fsanitize=address,undefined', '-fno-sanitize-recover=all',
                   '-fno-omit-frame-pointer', '-Wall', '-Wextra']
        else:
            cmd = [o.get('cc', 'gcc'), '-std=c11', opt, '-Wall', '-Wextra', '-Werror', '-pedantic']
        if o.get('enable_serialization_asserts'):
            cmd.append('-DNUNAVUT_ASSERT=assert')
        return cmd + ['-I', gen, src, '-o', exe, '-lm']

    def build(self, ns_dirs: typing.List[str], db: proto.TypeDB, workdir: str, repo: str) -> typing.Tuple[bool, str]:
        os.makedirs(workdir, exist_ok=True)
        self.workdir = workdir
        gen = os.path.join(workdir, 'gen')
        ok, log = self.generate(ns_dirs, gen, repo)
        if not ok:
            return False, log
        src = os.path.join(workdir, 'driver.c')
        with open(src, 'w', encoding='utf-8') as f:
            f.write(driver_source(db, bool(self.options.get('enable_serialization_asserts'))))
        exe = os.path.join(workdir, 'driver')
        cmd = self.compile_cmd(gen, src, exe)
        p = subprocess.run(cmd, stdout=subprocess.PIPE, stderr=subprocess.STDOUT, text=True, errors='replace', timeout=900)
        if p.returncode != 0:
            return False, 'compile failed (%s): %s' % (' '.join(cmd), p.stdout[-4000:])
        self.exe = exe
        return True, log + p.stdout

    def run(self, requests: typing.List[str], timeout: float = 120.0) -> typing.List[str]:
        assert self.exe, 'build() first'
        env = dict(os.environ)
        env['ASAN_OPTIONS'] = 'detect_leaks=0:abort_on_error=0:allocator_may_return_null=1'
        env['UBSAN_OPTIONS'] = 'print_stacktrace=0:halt_on_error=1'
        out: typing.List[str] = []
        i = 0
        while i < len(requests):
            data = '\n'.join(requests[i:]) + '\n'
            try:
                p = subprocess.run([self.exe], input=data, stdout=subprocess.PIPE, stderr=subprocess.PIPE, text=True, errors='replace',
                                   env=env, timeout=timeout)
                so, se, rc = p.stdout, p.stderr, p.returncode
            except subprocess.TimeoutExpired as ex:
                so = ex.stdout or ''
                se = ex.stderr or ''
                if isinstance(so, bytes):
                    so = so.decode('utf-8', 'replace')
                if isinstance(se, bytes):
                    se = se.decode('utf-8', 'replace')
                rc = 'timeout'
            lines = so.split('\n')
            complete = lines[:-1]                      # the last element is '' or an unterminated fragment
            got = complete[:len(requests) - i]
            out += got
            i += len(got)
            if i < len(requests):
                out.append('crash ' + self._detail(rc, se))
                i += 1
        return out

    @staticmethod
    def _detail(rc, stderr: str) -> str:
        if rc == 'timeout':
            return 'timeout'
        m = re.search(r'(ERROR: \w+: [^\n]*|runtime error: [^\n]*|Assertion [^\n]*failed[^\n]*|[^\n]*Assertion[^\n]*)', stderr)
        d = m.group(1) if m else (stderr.strip().splitlines()[-1] if stderr.strip() else '')
        return ('rc=%s %s' % (rc, d)).strip()[:300].replace('\n', ' ')


Target = CTarget
