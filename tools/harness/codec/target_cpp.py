"""C++ target runner of the codec correspondence harness (interface: proto.Target; protocol: proto.py docstring).

build():  runs the real nnvg from `repo` (cpp, experimental) for ns_dirs[0] and once more per lookup dir into the same
          outdir, asks the generator's own name filters (subprocess, PYTHONPATH=<repo>/src) for the C++ spelling of every
          type / field / constant (falls back to the unstropped spelling), emits ONE translation unit `driver.cpp` that
          includes every generated header and contains read_/dump_/meta code per composite, compiles it with -O1.
run():    feeds request lines to the driver (one process, pipelined), one response per request; a dead driver yields
          `crash <detail>` for the request being processed, the driver is restarted for the rest.

Options honoured (self.options):
  std                                     'c++14' | 'c++17' (default) | 'c++20' | 'c++17-pmr'   ('cetl++14-17' -> error)
  target_endianness                       'any' | 'little' | 'big'  (passed to nnvg)
  enable_serialization_asserts            bool  (nnvg flag + `-include cassert -DNUNAVUT_ASSERT=assert`)
  enable_override_variable_array_capacity bool  (nnvg flag)
  omit_float_serialization_support        bool  (nnvg flag; types with float fields will then fail to compile)
  sanitize                                bool  (-fsanitize=address,undefined -fno-sanitize-recover=all, detect_leaks=1)
  leak_check_each                         bool  (with sanitize: LSan recoverable leak check after every request, the
                                                 response becomes `crash leak` for the request that leaked)
  strict_includes                         bool  (default False: if the translation unit does not compile because a generated
                                                 header forgot a standard include, retry with <variant>, <vector>, ...
                                                 pre-included and record the fact in self.notes / the build log)
  cxx                                     compiler executable, default 'g++'
  opt                                     optimisation flag, default '-O1'
  extra_cxxflags                          list of additional compiler flags
  nnvg_extra                              list of additional nnvg arguments

Driver conventions beyond proto.py:
  * `ser` with result size 0 answers `ok 0 -`.
  * token value not representable in the generated storage type (300 for uint8_t, 2 for bool, >32 bit pattern for a
    `float`, union tag >= option count, array count > 2^24) -> `err rejected`; malformed / missing / surplus tokens,
    unknown type id or command, bad hex -> `err invalid_arg`.
  * serializer returned a size larger than the buffer -> `err oversize:<size>` (never observed; would be a defect).
  * error enumerator the runner has no class for -> `err unknown_<EnumeratorName>`.
  * meta: full_name/major/minor are parsed from the compiler's spelling of the C++ type (`ns::sub::T_1_0`), port_id from
    `_traits_::HasFixedPortID/FixedPortId`, union_count from `VariantType::MAX_INDEX`, constants from the static
    constexpr members; the generated C++ has no array-capacity constants, so no `cap.<field>` entries are printed.
"""
from __future__ import annotations

import json
import os
import re
import select
import shutil
import subprocess
import sys
import tempfile
import threading
import time
import typing

from . import proto

PY = '/venv/bin/python'

STD_FLAG = {'c++14': '-std=c++14', 'c++17': '-std=c++17', 'c++20': '-std=c++20', 'c++17-pmr': '-std=c++17'}

# generated enumerator -> protocol error class
ERROR_CLASS = {
    'SerializationBufferTooSmall': 'too_small',
    'SerializationBadArrayLength': 'bad_length',
    'RepresentationBadArrayLength': 'bad_length',
    'RepresentationBadUnionTag': 'bad_tag',
    'RepresentationBadDelimiterHeader': 'bad_header',
    'SerializationInvalidArgument': 'invalid_arg',
}

_NAME_HELPER = r'''
import sys, json, pydsdl
from nunavut.lang import LanguageContextBuilder
from nunavut.lang.cpp import filter_id, filter_full_reference_name
dirs = sys.argv[1:]
lang = LanguageContextBuilder(include_experimental_languages=True).set_target_language('cpp').create().get_target_language()
out = {}
def cid(t):
    return "%s.%d.%d" % (t.full_name, t.version.major, t.version.minor)
def one(t):
    out[cid(t)] = {'cpp': filter_full_reference_name(lang, t),
                   'fields': [filter_id(lang, f) for f in t.fields_except_padding],
                   'constants': [filter_id(lang, c) for c in t.constants]}
for i, d in enumerate(dirs):
    for t in pydsdl.read_namespace(d, dirs[:i] + dirs[i + 1:], allow_unregulated_fixed_port_id=True):
        if isinstance(t, pydsdl.ServiceType):
            one(t.request_type); one(t.response_type)
        else:
            one(t)
json.dump(out, sys.stdout)
'''


class BuildError(Exception):
    pass


# ------------------------------------------------------------------------------------------------
# driver source: fixed prelude
# ------------------------------------------------------------------------------------------------

_PRELUDE = r'''
#include <cerrno>
#include <cstdint>
#include <cstdio>
#include <cstdlib>
#include <cstring>
#include <limits>
#include <string>
#include <type_traits>
#include <utility>
#if defined(DRV_LSAN_EACH)
#include <sanitizer/lsan_interface.h>
#endif

namespace drv
{
struct Tokens
{
    char* p;
    bool  malformed;  // missing or unparsable token
    bool  rejected;   // value not representable in the generated storage type
    explicit Tokens(char* s) : p(s), malformed(false), rejected(false) {}
    static bool ws(char c) { return c == ' ' || c == '\t' || c == '\r' || c == '\n'; }
    char* next()
    {
        while (ws(*p)) { ++p; }
        if (*p == 0) { return nullptr; }
        char* s = p;
        while (*p != 0 && !ws(*p)) { ++p; }
        if (*p != 0) { *p = 0; ++p; }
        return s;
    }
    bool at_end()
    {
        while (ws(*p)) { ++p; }
        return *p == 0;
    }
    bool u64(unsigned long long& v)
    {
        char* s = next();
        if (s == nullptr || *s < '0' || *s > '9') { malformed = true; return false; }
        errno = 0;
        char* e = nullptr;
        v = std::strtoull(s, &e, 10);
        if (*e != 0 || errno != 0) { malformed = true; return false; }
        return true;
    }
    bool i64(long long& v)
    {
        char* s = next();
        if (s == nullptr) { malformed = true; return false; }
        const char* d = (*s == '-') ? s + 1 : s;
        if (*d < '0' || *d > '9') { malformed = true; return false; }
        errno = 0;
        char* e = nullptr;
        v = std::strtoll(s, &e, 10);
        if (*e != 0 || errno != 0) { malformed = true; return false; }
        return true;
    }
    bool hex64(unsigned long long& v)
    {
        char* s = next();
        if (s == nullptr || *s == 0) { malformed = true; return false; }
        std::size_t n = 0;
        for (const char* c = s; *c != 0; ++c, ++n)
        {
            const bool ok = (*c >= '0' && *c <= '9') || (*c >= 'a' && *c <= 'f') || (*c >= 'A' && *c <= 'F');
            if (!ok) { malformed = true; return false; }
        }
        const char* q = s;
        while (n > 16 && *q == '0') { ++q; --n; }
        if (n > 16) { rejected = true; return false; }
        v = std::strtoull(q, nullptr, 16);
        return true;
    }
};

static bool rd_bool(Tokens& tk, bool& out)
{
    unsigned long long v = 0;
    if (!tk.u64(v)) { return false; }
    if (v > 1ULL) { tk.rejected = true; return false; }
    out = (v == 1ULL);
    return true;
}

template <class T>
static bool rd_uint(Tokens& tk, T& out)
{
    static_assert(std::is_integral<T>::value && std::is_unsigned<T>::value, "unsigned storage expected");
    unsigned long long v = 0;
    if (!tk.u64(v)) { return false; }
    if (v > static_cast<unsigned long long>(std::numeric_limits<T>::max())) { tk.rejected = true; return false; }
    out = static_cast<T>(v);
    return true;
}

template <class T>
static bool rd_int(Tokens& tk, T& out)
{
    static_assert(std::is_integral<T>::value && std::is_signed<T>::value, "signed storage expected");
    long long v = 0;
    if (!tk.i64(v)) { return false; }
    if (v > static_cast<long long>(std::numeric_limits<T>::max()) || v < static_cast<long long>(std::numeric_limits<T>::min()))
    {
        tk.rejected = true;
        return false;
    }
    out = static_cast<T>(v);
    return true;
}

static bool rd_float(Tokens& tk, float& out)
{
    static_assert(sizeof(float) == 4, "binary32 expected");
    unsigned long long v = 0;
    if (!tk.hex64(v)) { return false; }
    if (v > 0xFFFFFFFFULL) { tk.rejected = true; return false; }
    const std::uint32_t b = static_cast<std::uint32_t>(v);
    std::memcpy(&out, &b, 4);
    return true;
}

static bool rd_float(Tokens& tk, double& out)
{
    static_assert(sizeof(double) == 8, "binary64 expected");
    unsigned long long v = 0;
    if (!tk.hex64(v)) { return false; }
    const std::uint64_t b = static_cast<std::uint64_t>(v);
    std::memcpy(&out, &b, 8);
    return true;
}

static bool rd_count(Tokens& tk, std::size_t& out)
{
    unsigned long long v = 0;
    if (!tk.u64(v)) { return false; }
    if (v > (1ULL << 24)) { tk.rejected = true; return false; }
    out = static_cast<std::size_t>(v);
    return true;
}

static void put_u(std::string& s, unsigned long long v)
{
    char b[32];
    std::snprintf(b, sizeof b, " %llu", v);
    s += b;
}
static void put_i(std::string& s, long long v)
{
    char b[32];
    std::snprintf(b, sizeof b, " %lld", v);
    s += b;
}
static void put_float(std::string& s, float f)
{
    std::uint32_t u = 0;
    std::memcpy(&u, &f, 4);
    char b[32];
    std::snprintf(b, sizeof b, " %llx", static_cast<unsigned long long>(u));
    s += b;
}
static void put_float(std::string& s, double f)
{
    std::uint64_t u = 0;
    std::memcpy(&u, &f, 8);
    char b[32];
    std::snprintf(b, sizeof b, " %llx", static_cast<unsigned long long>(u));
    s += b;
}

/// Heap buffer of EXACTLY n bytes; for n == 0 a one-past-the-end pointer into a 1-byte allocation (non-null, no
/// accessible byte), so that sanitizers see any access.
struct ExactBuf
{
    std::uint8_t* raw;
    std::uint8_t* ptr;
    std::size_t   n;
    explicit ExactBuf(std::size_t n_) : raw(new std::uint8_t[n_ ? n_ : 1]), ptr(n_ ? raw : raw + 1), n(n_)
    {
        std::memset(raw, 0, n_ ? n_ : 1);
    }
    ~ExactBuf() { delete[] raw; }
    ExactBuf(const ExactBuf&)            = delete;
    ExactBuf& operator=(const ExactBuf&) = delete;
};

static int hexval(char c)
{
    if (c >= '0' && c <= '9') { return c - '0'; }
    if (c >= 'a' && c <= 'f') { return c - 'a' + 10; }
    if (c >= 'A' && c <= 'F') { return c - 'A' + 10; }
    return -1;
}

/// "-" or an even number of hex digits -> length in bytes, or -1
static long hex_len(const char* s)
{
    if (s[0] == '-' && s[1] == 0) { return 0; }
    std::size_t n = 0;
    for (; s[n] != 0; ++n)
    {
        if (hexval(s[n]) < 0) { return -1; }
    }
    if (n == 0 || (n % 2) != 0) { return -1; }
    return static_cast<long>(n / 2);
}

static void hex_fill(const char* s, std::uint8_t* dst, std::size_t n)
{
    for (std::size_t i = 0; i < n; ++i)
    {
        dst[i] = static_cast<std::uint8_t>((hexval(s[2 * i]) << 4) | hexval(s[2 * i + 1]));
    }
}

static void put_hex(std::string& s, const std::uint8_t* p, std::size_t n)
{
    static const char D[] = "0123456789abcdef";
    s += ' ';
    if (n == 0) { s += '-'; return; }
    for (std::size_t i = 0; i < n; ++i)
    {
        s += D[p[i] >> 4];
        s += D[p[i] & 15];
    }
}

static bool apply_fill(const char* fill, std::uint8_t* p, std::size_t n)
{
    if (fill[0] == 'z' && fill[1] == 0) { if (n) { std::memset(p, 0, n); } return true; }
    if (fill[0] == 'f' && fill[1] == 0) { if (n) { std::memset(p, 0xFF, n); } return true; }
    if (fill[0] == 'r' && fill[1] >= '0' && fill[1] <= '9')
    {
        errno = 0;
        char* e = nullptr;
        const unsigned long long seed = std::strtoull(fill + 1, &e, 10);
        if (*e != 0 || errno != 0) { return false; }
        for (std::size_t i = 0; i < n; ++i)
        {
            // only bits 16..23 of the product matter, so wrap-around arithmetic is exact
            const unsigned long long x = 1103515245ULL * (seed + static_cast<unsigned long long>(i)) + 12345ULL;
            p[i] = static_cast<std::uint8_t>((x >> 16) & 0xFFULL);
        }
        return true;
    }
    return false;
}

template <class T>
static void cxx_type_name(std::string& out)
{
    // g++:     "... [with T = ns::sub::X_1_0]"      clang++: "... [T = ns::sub::X_1_0]"
    const std::string  p = __PRETTY_FUNCTION__;
    const std::size_t  a = p.find("T = ");
    if (a == std::string::npos) { out = "?"; return; }
    std::size_t b = a + 4;
    while (b < p.size() && p[b] != ';' && p[b] != ']' && p[b] != ',') { ++b; }
    out = p.substr(a + 4, b - (a + 4));
}

/// "ns::sub::X_1_0" -> " full_name=ns.sub.X major=1 minor=0"
static void put_name_version(std::string& s, const std::string& cxx)
{
    std::size_t e = cxx.size();
    std::size_t i = e;
    while (i > 0 && cxx[i - 1] >= '0' && cxx[i - 1] <= '9') { --i; }
    const std::string minor = cxx.substr(i, e - i);
    std::string       major;
    std::string       name = cxx;
    if (i > 0 && cxx[i - 1] == '_' && !minor.empty())
    {
        const std::size_t e2 = i - 1;
        std::size_t       j  = e2;
        while (j > 0 && cxx[j - 1] >= '0' && cxx[j - 1] <= '9') { --j; }
        if (j > 0 && cxx[j - 1] == '_' && j < e2)
        {
            major = cxx.substr(j, e2 - j);
            name  = cxx.substr(0, j - 1);
        }
    }
    std::string dotted;
    for (std::size_t k = 0; k < name.size(); ++k)
    {
        if (name[k] == ':' && k + 1 < name.size() && name[k + 1] == ':') { dotted += '.'; ++k; }
        else { dotted += name[k]; }
    }
    s += " full_name=" + dotted + " major=" + (major.empty() ? "?" : major) + " minor=" + (minor.empty() ? "?" : minor);
}

template <class Tr, bool H = Tr::HasFixedPortID>
struct PortId
{
    static void put(std::string& s) { s += " port_id=none"; }
};
template <class Tr>
struct PortId<Tr, true>
{
    static void put(std::string& s)
    {
        char b[40];
        std::snprintf(b, sizeof b, " port_id=%llu", static_cast<unsigned long long>(Tr::FixedPortId));
        s += b;
    }
};

#if defined(DRV_PMR)
#define DRV_NEW_OBJ(T, name) T name((typename T::allocator_type()))
#else
#define DRV_NEW_OBJ(T, name) T name {}
#endif

static void put_error(std::string& resp, nunavut::support::Error e);

static void fail_tokens(const Tokens& tk, std::string& resp)
{
    resp = tk.rejected ? "err rejected" : "err invalid_arg";
}

template <class T, bool (*RD)(Tokens&, T&)>
static void handle_ser(Tokens& tk, std::string& resp)
{
    unsigned long long cap = 0;
    if (!tk.u64(cap) || cap > (1ULL << 28)) { resp = "err invalid_arg"; return; }
    const char* fill = tk.next();
    if (fill == nullptr) { resp = "err invalid_arg"; return; }
    ExactBuf buf(static_cast<std::size_t>(cap));
    if (!apply_fill(fill, buf.ptr, buf.n)) { resp = "err invalid_arg"; return; }
    DRV_NEW_OBJ(T, obj);
    if (!RD(tk, obj)) { fail_tokens(tk, resp); return; }
    if (!tk.at_end()) { resp = "err invalid_arg"; return; }
    const nunavut::support::SerializeResult r = serialize(obj, nunavut::support::bitspan{buf.ptr, buf.n});
    if (!r) { put_error(resp, r.error()); return; }
    const std::size_t size = r.value();
    if (size > buf.n)
    {
        char b[48];
        std::snprintf(b, sizeof b, "err oversize:%llu", static_cast<unsigned long long>(size));
        resp = b;
        return;
    }
    resp = "ok";
    put_u(resp, static_cast<unsigned long long>(size));
    put_hex(resp, buf.ptr, size);
}

template <class T, void (*DP)(const T&, std::string&)>
static void handle_des(Tokens& tk, std::string& resp)
{
    const char* prior = tk.next();
    const char* hex   = tk.next();
    if (prior == nullptr || hex == nullptr || !tk.at_end()) { resp = "err invalid_arg"; return; }
    const char* prev = nullptr;
    if (std::strcmp(prior, "fresh") == 0 || std::strcmp(prior, "poison") == 0) { prev = nullptr; }
    else if (std::strncmp(prior, "prev:", 5) == 0) { prev = prior + 5; }
    else { resp = "err invalid_arg"; return; }
    const long n = hex_len(hex);
    const long m = (prev != nullptr) ? hex_len(prev) : 0;
    if (n < 0 || m < 0) { resp = "err invalid_arg"; return; }
    DRV_NEW_OBJ(T, obj);
    if (prev != nullptr)
    {
        ExactBuf pb(static_cast<std::size_t>(m));
        hex_fill(prev, pb.ptr, pb.n);
        const nunavut::support::SerializeResult r0 =
            deserialize(obj, nunavut::support::const_bitspan{static_cast<const std::uint8_t*>(pb.ptr), pb.n});
        (void) r0;  // whatever state the object is left in is the prior of the real request
    }
    ExactBuf buf(static_cast<std::size_t>(n));
    hex_fill(hex, buf.ptr, buf.n);
    const nunavut::support::SerializeResult r =
        deserialize(obj, nunavut::support::const_bitspan{static_cast<const std::uint8_t*>(buf.ptr), buf.n});
    if (!r) { put_error(resp, r.error()); return; }
    resp = "ok";
    put_u(resp, static_cast<unsigned long long>(r.value()));
    DP(obj, resp);
}

template <class T>
static void meta_common(std::string& resp)
{
    char b[96];
    std::snprintf(b, sizeof b, "ok extent_bytes=%llu buffer_bytes=%llu",
                  static_cast<unsigned long long>(T::_traits_::ExtentBytes),
                  static_cast<unsigned long long>(T::_traits_::SerializationBufferSizeBytes));
    resp = b;
    std::string cxx;
    cxx_type_name<T>(cxx);
    put_name_version(resp, cxx);
    PortId<typename T::_traits_>::put(resp);
}

struct Entry
{
    const char* id;
    void (*ser)(Tokens&, std::string&);
    void (*des)(Tokens&, std::string&);
    void (*meta)(std::string&);
};
}  // namespace drv
'''

_MAIN = r'''
namespace drv
{
#if defined(DRV_SELFTEST_CRASH)
}  // namespace drv
#include <unistd.h>
namespace drv
{
// Deliberately defective commands, compiled in only for the runner's self-test (crash / timeout / sanitizer handling).
__attribute__((noinline)) static void leak_some()
{
    volatile char* l = new char[77];
    l[0] = 1;
    l    = nullptr;
}
static bool selftest_command(const char* cmd, Tokens& tk, std::string& resp)
{
    if (std::strcmp(cmd, "fill") == 0)   // fill <n> <fill> -> ok <n> <hex>: lets the self-test compare with proto.fill_bytes
    {
        unsigned long long n = 0;
        const bool  okn  = tk.u64(n) && n <= 4096ULL;
        const char* fill = tk.next();
        if (!okn || fill == nullptr) { resp = "err invalid_arg"; return true; }
        ExactBuf b(static_cast<std::size_t>(n));
        if (!apply_fill(fill, b.ptr, b.n)) { resp = "err invalid_arg"; return true; }
        resp = "ok";
        put_u(resp, n);
        put_hex(resp, b.ptr, b.n);
        return true;
    }
    if (std::strcmp(cmd, "boom") == 0) { std::fputs("selftest: deliberate abort\n", stderr); std::abort(); }
    if (std::strcmp(cmd, "hang") == 0) { for (;;) { ::sleep(1000U); } }
    if (std::strcmp(cmd, "oob") == 0)
    {
        ExactBuf b(4);
        volatile std::uint8_t* q = b.ptr;
        resp = (q[4] != 0) ? "ok oob 1" : "ok oob 0";   // one past the end of an exactly sized heap buffer
        return true;
    }
    if (std::strcmp(cmd, "leak") == 0) { leak_some(); resp = "ok leaked"; return true; }
    return false;
}
#else
static bool selftest_command(const char*, Tokens&, std::string&) { return false; }
#endif
}  // namespace drv

int main()
{
    char*       line = nullptr;
    std::size_t cap  = 0;
    std::string resp;
    for (;;)
    {
        const ssize_t n = getline(&line, &cap, stdin);
        if (n < 0) { break; }
        drv::Tokens tk(line);
        const char* cmd = tk.next();
        if (cmd == nullptr) { continue; }  // empty line
        resp.clear();
        const int kind = (std::strcmp(cmd, "ser") == 0) ? 1 : (std::strcmp(cmd, "des") == 0) ? 2 : (std::strcmp(cmd, "meta") == 0) ? 3 : 0;
        const char* id = (kind != 0) ? tk.next() : nullptr;
        const drv::Entry* ent = nullptr;
        if (id != nullptr)
        {
            for (std::size_t i = 0; i < drv::TABLE_SIZE; ++i)
            {
                if (std::strcmp(drv::TABLE[i].id, id) == 0) { ent = &drv::TABLE[i]; break; }
            }
        }
        if (drv::selftest_command(cmd, tk, resp)) {}
        else if (ent == nullptr) { resp = "err invalid_arg"; }
        else if (kind == 1) { ent->ser(tk, resp); }
        else if (kind == 2) { ent->des(tk, resp); }
        else if (!tk.at_end()) { resp = "err invalid_arg"; }
        else { ent->meta(resp); }
#if defined(DRV_LSAN_EACH)
        if (__lsan_do_recoverable_leak_check() != 0) { resp = "crash leak"; }
#endif
        std::fputs(resp.c_str(), stdout);
        std::fputc('\n', stdout);
        std::fflush(stdout);
    }
    std::free(line);
    return 0;
}
'''


# ------------------------------------------------------------------------------------------------
# driver source: per-type code
# ------------------------------------------------------------------------------------------------

class _Emitter:
    def __init__(self, db: proto.TypeDB, names: typing.Dict[str, dict]):
        self.db = db
        self.names = names
        self.index = {tid: i for i, tid in enumerate(db.ids())}
        self._uid = 0

    def uid(self, stem: str) -> str:
        self._uid += 1
        return '_%s%d' % (stem, self._uid)

    def cpp_type(self, c: dict) -> str:
        n = self.names.get(c['id'])
        if n:
            return '::' + n['cpp']
        return '::' + '::'.join(c['full_name'].split('.')) + '_%d_%d' % (c['major'], c['minor'])

    def field_names(self, c: dict) -> typing.List[typing.Optional[str]]:
        """C++ member name per JSON field (None for padding)."""
        real = [f['name'] for f in c['fields'] if f['name'] != '']
        n = self.names.get(c['id'])
        cpp = list(n['fields']) if n and len(n['fields']) == len(real) else real
        out, k = [], 0
        for f in c['fields']:
            if f['name'] == '':
                out.append(None)
            else:
                out.append(cpp[k])
                k += 1
        return out

    def const_names(self, c: dict) -> typing.List[str]:
        n = self.names.get(c['id'])
        real = [k['name'] for k in c['constants']]
        return list(n['constants']) if n and len(n['constants']) == len(real) else real

    # ---- read ---------------------------------------------------------------------------------
    def read_into(self, t: dict, lv: str, ind: str) -> typing.List[str]:
        """Statements that fill the real lvalue `lv` (not a proxy) from `tk`; `return false` on failure."""
        k = t['k']
        if k == 'void':
            return []
        if k == 'bool':
            return ['%sif (!rd_bool(tk, %s)) { return false; }' % (ind, lv)]
        if k == 'uint':
            return ['%sif (!rd_uint(tk, %s)) { return false; }' % (ind, lv)]
        if k == 'int':
            return ['%sif (!rd_int(tk, %s)) { return false; }' % (ind, lv)]
        if k == 'float':
            return ['%sif (!rd_float(tk, %s)) { return false; }' % (ind, lv)]
        if k == 'ref':
            return ['%sif (!read_T%d(tk, %s)) { return false; }' % (ind, self.index[t['id']], lv)]
        if k == 'farr':
            i = self.uid('i')
            out = ['%sfor (std::size_t %s = 0; %s < %dU; ++%s)' % (ind, i, i, t['n'], i), ind + '{']
            if t['elem']['k'] == 'bool':   # std::bitset: proxy reference
                b = self.uid('b')
                out += ['%s    bool %s = false;' % (ind, b),
                        '%s    if (!rd_bool(tk, %s)) { return false; }' % (ind, b),
                        '%s    %s[%s] = %s;' % (ind, lv, i, b)]
            else:
                out += self.read_into(t['elem'], '%s[%s]' % (lv, i), ind + '    ')
            out.append(ind + '}')
            return out
        if k == 'varr':
            n, i = self.uid('n'), self.uid('i')
            out = [ind + '{',
                   '%s    std::size_t %s = 0;' % (ind, n),
                   '%s    if (!rd_count(tk, %s)) { return false; }' % (ind, n),
                   '%s    %s.clear();' % (ind, lv),
                   '%s    for (std::size_t %s = 0; %s < %s; ++%s)' % (ind, i, i, n, i),
                   ind + '    {']
            ek = t['elem']['k']
            if ek == 'ref':
                out += ['%s        %s.emplace_back();' % (ind, lv)]
                out += self.read_into(t['elem'], '%s.back()' % lv, ind + '        ')
            else:
                e = self.uid('e')
                out += ['%s        typename std::decay<decltype(%s)>::type::value_type %s{};' % (ind, lv, e)]
                out += self.read_into(t['elem'], e, ind + '        ')
                out += ['%s        %s.push_back(%s);' % (ind, lv, e)]
            out += [ind + '    }', ind + '}']
            return out
        raise BuildError('unsupported type kind %r' % k)

    def read_fn(self, c: dict) -> typing.List[str]:
        i = self.index[c['id']]
        out = ['// %s' % c['id'],
               'static bool read_T%d(Tokens& tk, %s& obj)' % (i, self.cpp_type(c)), '{']
        names = self.field_names(c)
        if c['kind'] == 'union':
            out += ['    unsigned long long tag = 0;',
                    '    if (!tk.u64(tag)) { return false; }',
                    '    switch (tag)', '    {']
            for j, (f, nm) in enumerate(zip(c['fields'], names)):
                out += ['    case %dU: {' % j,
                        '        auto& m = obj.set_%s();' % nm,
                        '        (void) m;']
                out += self.read_into(f['type'], 'm', '        ')
                out += ['        break;', '    }']
            out += ['    default:', '        tk.rejected = true;  // a C++ union object cannot hold an invalid tag',
                    '        return false;', '    }']
        else:
            out += ['    (void) tk;', '    (void) obj;']
            for f, nm in zip(c['fields'], names):
                if nm is None:
                    continue
                out += self.read_into(f['type'], 'obj.%s' % nm, '    ')
        out += ['    return true;', '}', '']
        return out

    # ---- dump ---------------------------------------------------------------------------------
    def dump_from(self, t: dict, rv: str, ind: str) -> typing.List[str]:
        k = t['k']
        if k == 'void':
            return []
        if k == 'bool':
            return ['%sput_u(out, (%s) ? 1ULL : 0ULL);' % (ind, rv)]
        if k == 'uint':
            return ['%sput_u(out, static_cast<unsigned long long>(%s));' % (ind, rv)]
        if k == 'int':
            return ['%sput_i(out, static_cast<long long>(%s));' % (ind, rv)]
        if k == 'float':
            return ['%sput_float(out, %s);' % (ind, rv)]
        if k == 'ref':
            return ['%sdump_T%d(%s, out);' % (ind, self.index[t['id']], rv)]
        if k in ('farr', 'varr'):
            i = self.uid('i')
            out = []
            if k == 'varr':
                out.append('%sput_u(out, static_cast<unsigned long long>(%s.size()));' % (ind, rv))
                bound = '%s.size()' % rv
            else:
                bound = '%dU' % t['n']
            out += ['%sfor (std::size_t %s = 0; %s < %s; ++%s)' % (ind, i, i, bound, i), ind + '{']
            out += self.dump_from(t['elem'], '%s[%s]' % (rv, i), ind + '    ')
            out.append(ind + '}')
            return out
        raise BuildError('unsupported type kind %r' % k)

    def dump_fn(self, c: dict) -> typing.List[str]:
        i = self.index[c['id']]
        out = ['static void dump_T%d(const %s& obj, std::string& out)' % (i, self.cpp_type(c)), '{']
        names = self.field_names(c)
        if c['kind'] == 'union':
            out += ['    const std::size_t tag = obj.union_value.index();',
                    '    put_u(out, static_cast<unsigned long long>(tag));',
                    '    switch (tag)', '    {']
            for j, (f, nm) in enumerate(zip(c['fields'], names)):
                out += ['    case %dU: {' % j,
                        '        const auto* m = obj.get_%s_if();' % nm,
                        '        if (m == nullptr) { out += " <null>"; break; }']
                out += self.dump_from(f['type'], '(*m)', '        ')
                out += ['        break;', '    }']
            out += ['    default:', '        break;', '    }']
        else:
            out += ['    (void) obj;', '    (void) out;']
            for f, nm in zip(c['fields'], names):
                if nm is None:
                    continue
                out += self.dump_from(f['type'], 'obj.%s' % nm, '    ')
        out += ['}', '']
        return out

    # ---- meta ---------------------------------------------------------------------------------
    def meta_fn(self, c: dict) -> typing.List[str]:
        i = self.index[c['id']]
        T = self.cpp_type(c)
        out = ['static void meta_T%d(std::string& resp)' % i, '{', '    meta_common<%s>(resp);' % T]
        if c['kind'] == 'union':
            out += ['    resp += " union_count=";',
                    '    { std::string u; put_u(u, static_cast<unsigned long long>(%s::VariantType::MAX_INDEX)); resp += u.substr(1); }' % T]
        for k, nm in zip(c['constants'], self.const_names(c)):
            kk = k['type']['k']
            out.append('    resp += " const.%s=";' % k['name'])
            if kk == 'bool':
                expr = 'put_u(u, (%s::%s) ? 1ULL : 0ULL);' % (T, nm)
            elif kk == 'uint':
                expr = 'put_u(u, static_cast<unsigned long long>(%s::%s));' % (T, nm)
            elif kk == 'int':
                expr = 'put_i(u, static_cast<long long>(%s::%s));' % (T, nm)
            elif kk == 'float':
                expr = 'const auto v = %s::%s; put_float(u, v);' % (T, nm)
            else:
                raise BuildError('unsupported constant kind %r' % kk)
            out.append('    { std::string u; %s resp += u.substr(1); }' % expr)
        out += ['}', '']
        return out


def _parse_error_enum(support_hpp: str) -> typing.List[str]:
    with open(support_hpp, encoding='utf-8') as f:
        text = f.read()
    m = re.search(r'enum\s+class\s+Error\s*(?::\s*[\w:]+\s*)?\{(.*?)\}', text, re.S)
    if not m:
        raise BuildError('enum class Error not found in %s' % support_hpp)
    body = re.sub(r'//[^\n]*', '', m.group(1))
    body = re.sub(r'/\*.*?\*/', '', body, flags=re.S)
    names = []
    for part in body.split(','):
        part = part.strip()
        if not part:
            continue
        names.append(part.split('=')[0].strip())
    return names


def emit_driver(db: proto.TypeDB, names: typing.Dict[str, dict], headers: typing.List[str],
                error_names: typing.List[str]) -> str:
    em = _Emitter(db, names)
    out: typing.List[str] = ['// AUTO-GENERATED by tools/harness/codec/target_cpp.py -- codec harness driver',
                             '#if defined(DRV_PREINCLUDE_STD)  // only when the generated headers are not self-contained',
                             '#include <array>', '#include <bitset>', '#include <cstdint>', '#include <limits>',
                             '#include <vector>',
                             '#if __cplusplus >= 201703L', '#include <memory_resource>', '#include <variant>', '#endif',
                             '#endif']
    for h in headers:
        out.append('#include "%s"' % h)
    out.append(_PRELUDE)
    out += ['namespace drv', '{']
    out += ['static void put_error(std::string& resp, nunavut::support::Error e)', '{', '    switch (e)', '    {']
    for n in error_names:
        out += ['    case nunavut::support::Error::%s: resp = "err %s"; return;' % (n, ERROR_CLASS.get(n, 'unknown_' + n))]
    out += ['    default: break;', '    }',
            '    char b[48];',
            '    std::snprintf(b, sizeof b, "err unknown_%d", static_cast<int>(e));',
            '    resp = b;', '}', '']
    comps = [db.comp(tid) for tid in db.ids()]
    for c in comps:
        i = em.index[c['id']]
        T = em.cpp_type(c)
        out += ['static bool read_T%d(Tokens& tk, %s& obj);' % (i, T),
                'static void dump_T%d(const %s& obj, std::string& out);' % (i, T)]
    out.append('')
    for c in comps:
        out += em.read_fn(c)
        out += em.dump_fn(c)
        out += em.meta_fn(c)
    out += ['static const Entry TABLE[] = {']
    for c in comps:
        i = em.index[c['id']]
        T = em.cpp_type(c)
        out.append('    {"%s", &handle_ser<%s, &read_T%d>, &handle_des<%s, &dump_T%d>, &meta_T%d},' % (c['id'], T, i, T, i, i))
    out += ['    {"", nullptr, nullptr, nullptr}', '};',
            'static const std::size_t TABLE_SIZE = %dU;' % len(comps), '}  // namespace drv']
    out.append(_MAIN)
    return '\n'.join(out) + '\n'


# ------------------------------------------------------------------------------------------------
# target
# ------------------------------------------------------------------------------------------------

def _first_error(text: str) -> str:
    for ln in text.splitlines():
        if 'error' in ln:
            return ln.strip()[:300]
    return ''


def _first_line(text: str) -> str:
    for ln in text.splitlines():
        ln = ln.strip()
        if ln and ln.strip('=-'):
            ln = re.sub(r'^==\d+==\s*', '', ln)
            ln = re.sub(r'0x[0-9a-fA-F]+', '0x?', ln)
            return ln[:300]
    return ''


class CppTarget(proto.Target):
    name = 'cpp'

    def __init__(self, options: typing.Optional[dict] = None):
        super().__init__(options)
        self.workdir: typing.Optional[str] = None
        self.exe: typing.Optional[str] = None
        self.notes: typing.List[str] = []      # build-time observations about the generated code (see build log)
        self.crash_logs: typing.List[typing.Tuple[str, str]] = []   # (request, full stderr) of every crash seen by run()

    # ---- build --------------------------------------------------------------------------------
    def _nnvg_cmd(self, std: str, outdir: str, root: str, lookups: typing.List[str]) -> typing.List[str]:
        o = self.options
        cmd = [PY, '-m', 'nunavut', '--experimental-languages', '--allow-unregulated-fixed-port-id',
               '--target-language', 'cpp', '--language-standard', std]
        if o.get('target_endianness'):
            cmd += ['--target-endianness', str(o['target_endianness'])]
        if o.get('enable_serialization_asserts'):
            cmd.append('--enable-serialization-asserts')
        if o.get('enable_override_variable_array_capacity'):
            cmd.append('--enable-override-variable-array-capacity')
        if o.get('omit_float_serialization_support'):
            cmd.append('--omit-float-serialization-support')
        cmd += list(o.get('nnvg_extra') or [])
        cmd += ['--outdir', outdir, root]
        for d in lookups:
            cmd += ['--lookup-dir', d]
        return cmd

    def compile_cmd(self, src: str, exe: str, gen: str) -> typing.List[str]:
        o = self.options
        std = o.get('std', 'c++17')
        cmd = [o.get('cxx', 'g++'), STD_FLAG[std], o.get('opt', '-O1'), '-Wall', '-Wextra', '-Wno-deprecated-declarations',
               '-Wno-unused-function', '-I', gen]
        if std == 'c++17-pmr':
            cmd.append('-DDRV_PMR=1')
        if o.get('enable_serialization_asserts'):
            cmd += ['-include', 'cassert', '-DNUNAVUT_ASSERT=assert']
        if o.get('sanitize'):
            cmd += ['-fsanitize=address,undefined', '-fno-sanitize-recover=all', '-fno-omit-frame-pointer', '-g1']
            if o.get('leak_check_each'):
                cmd.append('-DDRV_LSAN_EACH=1')
        cmd += list(o.get('extra_cxxflags') or [])
        cmd += ['-o', exe, src]
        return cmd

    def build(self, ns_dirs: typing.List[str], db: proto.TypeDB, workdir: str, repo: str) -> typing.Tuple[bool, str]:
        log: typing.List[str] = []
        try:
            return self._build(ns_dirs, db, workdir, repo, log), '\n'.join(log)
        except BuildError as ex:
            log.append('BUILD ERROR: %s' % ex)
            return False, '\n'.join(log)
        except OSError as ex:     # e.g. compiler executable not found
            log.append('BUILD ERROR: %r' % (ex,))
            return False, '\n'.join(log)

    def _build(self, ns_dirs, db, workdir, repo, log) -> bool:
        std = self.options.get('std', 'c++17')
        if std == 'cetl++14-17':
            raise BuildError("language standard 'cetl++14-17' cannot be compiled here: the CETL submodule "
                             "(submodules/CETL) is empty offline, <cetl/...> headers are missing")
        if std not in STD_FLAG:
            raise BuildError('unknown language standard %r (supported: %s)' % (std, ', '.join(sorted(STD_FLAG))))
        ns_dirs = [os.path.abspath(d) for d in ns_dirs]
        os.makedirs(workdir, exist_ok=True)
        workdir = os.path.abspath(workdir)
        gen = os.path.join(workdir, 'gen')
        if os.path.isdir(gen):
            shutil.rmtree(gen)
        env = dict(os.environ)
        env['PYTHONPATH'] = os.path.join(repo, 'src')
        env.pop('PYTHONHOME', None)
        # 1. generate: root namespace, then every lookup namespace (dependencies) into the same outdir
        for i, root in enumerate(ns_dirs):
            cmd = self._nnvg_cmd(std, gen, root, ns_dirs[:i] + ns_dirs[i + 1:])
            r = subprocess.run(cmd, env=env, stdout=subprocess.PIPE, stderr=subprocess.STDOUT, text=True, cwd=workdir)
            log.append('$ ' + ' '.join(cmd))
            if r.stdout.strip():
                log.append(r.stdout.rstrip())
            if r.returncode != 0:
                raise BuildError('nnvg failed with exit status %d' % r.returncode)
        # 2. C++ names from the generator's own filters
        names: typing.Dict[str, dict] = {}
        r = subprocess.run([PY, '-c', _NAME_HELPER] + ns_dirs, env=env, stdout=subprocess.PIPE, stderr=subprocess.PIPE,
                           text=True, cwd=workdir)
        if r.returncode == 0:
            try:
                names = json.loads(r.stdout)
            except ValueError:
                names = {}
        if not names:
            log.append('note: name helper failed, using unstropped C++ names\n' + r.stderr[-2000:])
        # 3. headers: every generated type header (one translation unit)
        headers = []
        for base, _dirs, files in os.walk(gen):
            for fn in files:
                if fn.endswith('.hpp'):
                    rel = os.path.relpath(os.path.join(base, fn), gen).replace(os.sep, '/')
                    if not rel.startswith('nunavut/'):
                        headers.append(rel)
        headers.sort()
        support = os.path.join(gen, 'nunavut', 'support', 'serialization.hpp')
        if not os.path.isfile(support):
            raise BuildError('generated support header missing: %s' % support)
        headers.insert(0, 'nunavut/support/serialization.hpp')
        error_names = _parse_error_enum(support)
        log.append('error enumerators: ' + ', '.join(error_names))
        # 4. driver
        src = os.path.join(workdir, 'driver.cpp')
        with open(src, 'w', encoding='utf-8') as f:
            f.write(emit_driver(db, names, headers, error_names))
        exe = os.path.join(workdir, 'driver')
        if os.path.exists(exe):
            os.unlink(exe)
        cmd = self.compile_cmd(src, exe, gen)
        t0 = time.time()
        r = subprocess.run(cmd, stdout=subprocess.PIPE, stderr=subprocess.STDOUT, text=True, cwd=workdir)
        log.append('$ ' + ' '.join(cmd) + '    (%.1f s)' % (time.time() - t0))
        if r.stdout.strip():
            log.append(r.stdout.rstrip()[:20000])
        if r.returncode != 0 and not self.options.get('strict_includes'):
            # generated headers that forget a standard include (e.g. <variant> for a delimited union) must not block
            # the codec checks: retry with the standard headers pre-included and say so
            cmd2 = cmd[:-3] + ['-DDRV_PREINCLUDE_STD=1'] + cmd[-3:]
            t0 = time.time()
            r2 = subprocess.run(cmd2, stdout=subprocess.PIPE, stderr=subprocess.STDOUT, text=True, cwd=workdir)
            if r2.returncode == 0:
                note = ('generated headers are NOT self-contained: the translation unit only compiles with standard '
                        'headers pre-included (first error: %s)' % _first_error(r.stdout))
                self.notes.append(note)
                log.append('NOTE: ' + note)
                log.append('$ ' + ' '.join(cmd2) + '    (%.1f s)' % (time.time() - t0))
                r = r2
        if r.returncode != 0 or not os.path.isfile(exe):
            raise BuildError('compilation failed with exit status %d' % r.returncode)
        self.workdir, self.exe = workdir, exe
        return True

    # ---- run ----------------------------------------------------------------------------------
    def _env(self) -> dict:
        env = dict(os.environ)
        env['ASAN_OPTIONS'] = 'detect_leaks=1:halt_on_error=1:abort_on_error=0:allocator_may_return_null=1:symbolize=0'
        env['UBSAN_OPTIONS'] = 'halt_on_error=1:print_stacktrace=0:symbolize=0'
        env['LSAN_OPTIONS'] = 'exitcode=23'
        return env

    def run(self, requests: typing.List[str], timeout: float = 120.0) -> typing.List[str]:
        """`timeout` bounds the wait for ONE response (no output for that long -> `crash timeout` for the request in
        flight, driver killed and restarted)."""
        if not self.exe:
            raise RuntimeError('build() has not succeeded')
        out: typing.List[typing.Optional[str]] = [None] * len(requests)
        todo: typing.List[int] = []
        for i, rq in enumerate(requests):
            if '\n' in rq or '\r' in rq or not rq.strip():
                out[i] = 'err invalid_arg'     # the driver ignores empty lines; never send them
            else:
                todo.append(i)
        pos = 0
        while pos < len(todo):
            done, detail, full = self._run_batch([requests[i] for i in todo[pos:]], timeout)
            for k, resp in enumerate(done):
                out[todo[pos + k]] = resp
            pos += len(done)
            if detail is None and len(done) > 0 and done[-1] == 'crash leak':
                self.crash_logs.append((requests[todo[pos - 1]], full))
            if detail is not None:
                if pos < len(todo) and not detail.startswith('at_exit'):
                    out[todo[pos]] = 'crash ' + detail
                    self.crash_logs.append((requests[todo[pos]], full))
                    pos += 1
                else:
                    # every request was answered but the driver then exited abnormally (e.g. LeakSanitizer at exit):
                    # not attributable to one request; reported on the last one of the batch
                    last = todo[pos - 1] if pos > 0 else None
                    if last is not None:
                        self.crash_logs.append((requests[last], full))
                        out[last] = 'crash ' + detail
        return [o if o is not None else 'crash no_response' for o in out]

    def _run_batch(self, reqs: typing.List[str], timeout: float):
        """Returns (responses received in order, crash detail or None, full stderr)."""
        efd, errpath = tempfile.mkstemp(prefix='stderr.', suffix='.log', dir=self.workdir)   # run() may be used from threads
        errf = os.fdopen(efd, 'wb')
        proc = subprocess.Popen([self.exe], stdin=subprocess.PIPE, stdout=subprocess.PIPE, stderr=errf, env=self._env(),
                                cwd=self.workdir, bufsize=0)
        errf.close()

        def feed():
            try:
                data = ('\n'.join(reqs) + '\n').encode('ascii', 'replace')
                view = memoryview(data)
                while len(view):
                    n = proc.stdin.write(view[:65536])
                    view = view[n if n else 65536:]
                proc.stdin.close()
            except (BrokenPipeError, OSError, ValueError):
                pass

        th = threading.Thread(target=feed, daemon=True)
        th.start()
        fd = proc.stdout.fileno()
        buf = b''
        responses: typing.List[str] = []
        timed_out = False
        leaked = False
        while len(responses) < len(reqs):
            nl = buf.find(b'\n')
            if nl >= 0:
                responses.append(buf[:nl].decode('ascii', 'replace').rstrip('\r'))
                buf = buf[nl + 1:]
                if responses[-1] == 'crash leak':   # leak_check_each: LSan would report the same block again and again
                    leaked = True
                    break
                continue
            rd, _, _ = select.select([fd], [], [], timeout)
            if not rd:
                timed_out = True
                break
            chunk = os.read(fd, 1 << 16)
            if not chunk:
                break
            buf += chunk
        detail = None
        if timed_out:
            proc.kill()
            detail = 'timeout'
        elif leaked:
            proc.kill()
        elif len(responses) < len(reqs):
            pass   # died: classified below
        try:
            try:
                proc.stdin.close()
            except (OSError, ValueError):
                pass
            rc = proc.wait(timeout=30)
        except subprocess.TimeoutExpired:
            proc.kill()
            rc = proc.wait()
        th.join(timeout=5)
        proc.stdout.close()
        with open(errpath, 'rb') as f:
            full = f.read().decode('utf-8', 'replace')
        try:
            os.unlink(errpath)
        except OSError:
            pass
        if leaked:
            return responses, None, full   # run() restarts the driver for the remaining requests
        if detail is None and (len(responses) < len(reqs) or rc != 0):
            first = _first_line(full)
            status = ('signal %d' % -rc) if rc < 0 else ('exit %d' % rc)
            detail = (first or status) if len(responses) < len(reqs) else 'at_exit ' + (first or status)
        return responses, detail, full


# ------------------------------------------------------------------------------------------------
# convenience: astdump -> TypeDB
# ------------------------------------------------------------------------------------------------

def load_db(ns_dirs: typing.List[str]) -> proto.TypeDB:
    here = os.path.dirname(os.path.abspath(__file__))
    r = subprocess.run([PY, os.path.join(here, 'astdump.py')] + list(ns_dirs), stdout=subprocess.PIPE,
                       stderr=subprocess.PIPE, text=True)
    if r.returncode != 0:
        raise RuntimeError('astdump failed: ' + r.stderr[-2000:])
    return proto.TypeDB(json.loads(r.stdout))


if __name__ == '__main__':   # manual use: target_cpp.py <workdir> <std> <ns_dir> [<lookup_dir> ...]   (requests on stdin)
    _wd, _std, _dirs = sys.argv[1], sys.argv[2], sys.argv[3:]
    _t = CppTarget({'std': _std})
    _ok, _log = _t.build(_dirs, load_db(_dirs), _wd, os.environ.get('VERIF_REPO', '/repo'))
    if not _ok:
        print(_log)
        sys.exit(1)
    for _rq, _rs in zip(*(lambda rr: (rr, _t.run(rr)))([ln.rstrip('\n') for ln in sys.stdin if ln.strip()])):
        print(_rs)
