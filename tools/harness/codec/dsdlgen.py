"""Random VALID DSDL namespaces for the codec checks (C01-C05, C18), from one seeded RNG.

    spec = dsdlgen.generate(rng, n_types=30)     -> {'files': {relpath: text}, 'roots': ['nsa', 'nsb'], 'stats': {...}}
    dirs = dsdlgen.write(spec, outdir)           -> [outdir/nsa, outdir/nsb]   (root namespace first, lookup namespaces after)
    dsdlgen.single(text_by_relpath)              wrap hand-written / shrunk definitions the same way (replays, corpus)

Covered: every primitive kind and every width 1..64, both cast modes where DSDL allows them, bool / void / byte / utf8,
fixed and variable arrays (of primitives, bit-packed bools, composites), 8/16-bit length prefixes, nested sealed and delimited
composites with explicit @extent (tight and slack), unions (primitive, array and composite members), services, empty
structures, nesting depth >= 3, arbitrary field order (hence arbitrary bit offsets), a second root namespace used through a
lookup directory, a few constants and fixed port ids.  Names are plain identifiers (hostile names are C06's business)."""
from __future__ import annotations

import os
import typing

STD = [8, 16, 32, 64]
NEAR = [1, 2, 3, 7, 9, 12, 13, 15, 17, 24, 31, 33, 40, 48, 57, 63]


class T:
    """generated type expression: DSDL text + enough layout to compute the maximum bit length"""

    def __init__(self, text: str, align: int, max_bits: int, kind: str, depth: int = 0):
        self.text, self.align, self.max_bits, self.kind, self.depth = text, align, max_bits, kind, depth


class Comp:
    def __init__(self, full_name: str, major: int, minor: int):
        self.full_name, self.major, self.minor = full_name, major, minor
        self.union = False
        self.fields: typing.List[typing.Tuple[str, T]] = []     # name '' = padding
        self.sealed = True
        self.extent_bits = 0
        self.depth = 0
        self.body_max = 0
        self.consts: typing.List[str] = []

    def ref(self) -> T:
        fmax = self.body_max if self.sealed else 32 + self.extent_bits
        return T('%s.%d.%d' % (self.full_name, self.major, self.minor), 8, fmax, 'comp', self.depth + 1)


def _pad(off: int, a: int) -> int:
    return (a - off % a) % a


def _len_width(m: int) -> int:
    return 8 if m < 256 else 16 if m < 65536 else 32 if m < 2 ** 32 else 64


def body_max(union: bool, fields: typing.List[typing.Tuple[str, T]]) -> int:
    if union:
        o = _len_width(len(fields) - 1) + max(t.max_bits for _, t in fields)
        return o + _pad(o, 8)
    off = 0
    for _, t in fields:
        off += _pad(off, t.align)
        off += t.max_bits
    return off + _pad(off, 8)


def gen_width(rng) -> int:
    r = rng.random()
    if r < 0.35:
        return rng.choice(STD)
    if r < 0.6:
        return rng.choice(NEAR)
    return rng.randint(1, 64)


_NO_FLOAT = [False]     # set by generate(no_float=True): float-free namespaces for omit_float_serialization_support builds


def gen_prim(rng, in_union: bool = False, allow_void: bool = True) -> T:
    r = rng.random()
    if _NO_FLOAT[0] and r >= 0.80:
        r = 0.3
    if r < 0.08:
        return T('bool', 1, 1, 'bool')
    if r < 0.14 and allow_void and not in_union:
        w = gen_width(rng)
        return T('void%d' % w, 1, w, 'void')
    if r < 0.52:
        w = gen_width(rng)
        mode = rng.choice(['', 'saturated ', 'truncated '])
        return T('%suint%d' % (mode, w), 1, w, 'uint')
    if r < 0.80:
        w = max(2, gen_width(rng))
        mode = rng.choice(['', 'saturated '])
        return T('%sint%d' % (mode, w), 1, w, 'int')
    w = rng.choice([16, 16, 32, 64])
    mode = rng.choice(['', 'saturated ', 'truncated '])
    return T('%sfloat%d' % (mode, w), 1, w, 'float')


def gen_array(rng, elem: T, budget: int) -> T:
    per = max(elem.max_bits, 1)
    hi = max(1, min(budget // per, 300))
    r = rng.random()
    if r < 0.5:
        n = rng.choice([1, 2, 3, 5, 8, 9, 16, 17]) if hi >= 17 else rng.randint(1, hi)
    elif r < 0.9:
        n = rng.randint(1, min(hi, 40))
    else:
        n = rng.randint(min(hi, 256), hi) if hi >= 256 else hi     # 16-bit prefix when it fits the budget
    n = max(1, min(n, hi))
    if rng.random() < 0.45:
        return T('%s[%d]' % (elem.text, n), elem.align, n * elem.max_bits, 'farr:' + elem.kind, elem.depth)
    form = rng.choice(['[<=%d]' % n, '[<%d]' % (n + 1)])
    return T(elem.text + form, elem.align, _len_width(n) + n * elem.max_bits, 'varr:' + elem.kind, elem.depth)


def gen_field_type(rng, pool: typing.List[Comp], in_union: bool, budget: int, want_comp: bool = False) -> T:
    r = rng.random()
    if pool and (want_comp or r < 0.30):
        fitting = [c for c in pool if c.ref().max_bits <= budget] or [min(pool, key=lambda c: c.ref().max_bits)]
        c = rng.choice(fitting)
        if rng.random() < 0.35:
            return gen_array(rng, c.ref(), max(budget, c.ref().max_bits))
        return c.ref()
    if r < 0.40:
        kind = rng.choice(['byte', 'utf8', 'bool', 'bool'])
        if kind == 'utf8':
            n = rng.choice([1, 4, 15, 40, rng.randint(1, 64)])
            return T('utf8[<=%d]' % n, 1, _len_width(n) + 8 * n, 'varr:utf8')
        elem = T(kind, 1, 8 if kind == 'byte' else 1, kind)
        return gen_array(rng, elem, budget)
    if r < 0.60:
        return gen_array(rng, gen_prim(rng, in_union, allow_void=False), budget)
    return gen_prim(rng, in_union)


def gen_consts(rng) -> typing.List[str]:
    out = []
    for i in range(rng.choice([0, 0, 0, 1, 2])):
        k = rng.randrange(3 if _NO_FLOAT[0] else 4)
        name = 'K%d' % i
        if k == 0:
            w = rng.choice([8, 16, 32, 64, 13])
            out.append('uint%d %s = %d' % (w, name, rng.choice([0, 1, 2 ** w - 1, rng.randrange(2 ** w)])))
        elif k == 1:
            w = rng.choice([8, 16, 32, 64, 7])
            out.append('int%d %s = %d' % (w, name, rng.choice([0, -1, -2 ** (w - 1), 2 ** (w - 1) - 1])))
        elif k == 2:
            out.append('bool %s = %s' % (name, rng.choice(['true', 'false'])))
        else:
            out.append('float%d %s = %s' % (rng.choice([16, 32, 64]), name, rng.choice(['0.5', '-1.0', '3.0 / 4.0', '1024.0'])))
    return out


def gen_comp(rng, name: str, pool: typing.List[Comp], level: int, force_union: typing.Optional[bool] = None,
             budget: int = 1600) -> Comp:
    c = Comp(name, 1, rng.choice([0, 0, 0, 1, 3]))
    c.union = (rng.random() < 0.3) if force_union is None else force_union
    nf = rng.choice([2, 2, 3, 4, 5]) if c.union else rng.choice([0, 1, 2, 3, 4, 5, 6, 8]) if level == 0 else rng.choice([1, 2, 3, 4, 5, 6])
    if level > 0 and nf == 0:
        nf = 1
    want = rng.randrange(nf) if (level > 0 and nf > 0) else -1
    per = max(budget // max(nf, 1), 64)
    for i in range(nf):
        t = gen_field_type(rng, pool if level > 0 else [], c.union, per, want_comp=(i == want))
        fname = '' if t.kind == 'void' else 'f%d' % i
        c.fields.append((fname, t))
    # messages that END in a byte-aligned integer of non-standard width (uint24, int33, uint40 ...): the place where a store
    # of the whole storage variable instead of ceil(bits/8) bytes runs past an exactly sized buffer
    if rng.random() < 0.35:
        w = rng.choice([24, 40, 48, 56, 17, 33, 9, 63, 20])
        kind = rng.choice(['uint', 'uint', 'int'])
        mode = rng.choice(['', 'saturated ', 'truncated ']) if kind == 'uint' else rng.choice(['', 'saturated '])
        tail = T('%s%s%d' % (mode, kind, w), 1, w, kind)
        if rng.random() < 0.3:
            tail = T('%s[%d]' % (tail.text, rng.choice([1, 2, 3])), 1, 0, 'farr:' + kind)
            tail.max_bits = w * int(tail.text.split('[')[1][:-1])
        if c.union:
            c.fields[rng.randrange(len(c.fields))] = ('f%dt' % len(c.fields), tail)       # the tag is 8 bits: the option is aligned
        else:
            fixed = all(t.kind in ('bool', 'void', 'uint', 'int', 'float') or
                        (t.kind.startswith('farr:') and t.kind.split(':')[1] in ('bool', 'byte', 'uint', 'int', 'float')) for _, t in c.fields)
            if level > 0 and pool and rng.random() < 0.5:
                c.fields.append(('f%da' % len(c.fields), rng.choice(pool).ref()))           # a composite ends byte aligned
                c.fields.append(('f%dt' % len(c.fields), tail))
            elif fixed:
                off = sum(t.max_bits for _, t in c.fields)
                if off % 8:
                    c.fields.append(('', T('void%d' % (8 - off % 8), 1, 8 - off % 8, 'void')))
                c.fields.append(('f%dt' % len(c.fields), tail))
    # messages that END in a zero-size composite (an empty type, an array of them): the nested routine is then handed a
    # zero-length (sub-)buffer that starts exactly at the end of an exactly sized buffer
    empties = [e for e in pool if e.body_max == 0 and e.sealed] if level > 0 else []
    if empties and not c.union and rng.random() < 0.2:
        r = rng.choice(empties).ref()
        if rng.random() < 0.3:
            n = rng.choice([1, 2, 3])
            r = T('%s[%d]' % (r.text, n), 8, 0, 'farr:comp', r.depth)
        c.fields.append(('f%dz' % len(c.fields), r))
    c.depth = max([t.depth for _, t in c.fields] or [0])
    c.body_max = body_max(c.union, c.fields) if c.fields else 0
    c.sealed = rng.random() < 0.5
    if not c.sealed:
        slack = rng.choice([0, 0, 8, 16, 64, 8 * rng.randint(1, 40)])
        c.extent_bits = c.body_max + slack
    c.consts = gen_consts(rng)
    return c


def comp_text(c: Comp) -> str:
    lines = []
    if c.union:
        lines.append('@union')
    lines += c.consts
    for fname, t in c.fields:
        lines.append(t.text if fname == '' else '%s %s' % (t.text, fname))
    lines.append('@sealed' if c.sealed else '@extent %d' % c.extent_bits)
    return '\n'.join(lines) + '\n'


def generate(rng, n_types: int = 30, budget: int = 1600, no_float: bool = False) -> dict:
    """n_types composites (services count as one) over two root namespaces; at least three levels of nesting.
    no_float: no floating point field or constant anywhere (for builds with --omit-float-serialization-support)."""
    _NO_FLOAT[0] = bool(no_float)
    try:
        return _generate(rng, n_types, budget)
    finally:
        _NO_FLOAT[0] = False


def _generate(rng, n_types: int, budget: int) -> dict:
    roota, rootb = 'nsa', 'nsb'
    files: typing.Dict[str, str] = {}
    pools: typing.List[typing.List[Comp]] = [[], [], [], []]
    n0 = max(3, n_types * 4 // 10)
    n1 = max(2, n_types * 3 // 10)
    n2 = max(2, n_types * 2 // 10)
    n3 = max(1, n_types - n0 - n1 - n2 - 1)
    counter = [0]
    port_ids = iter(rng.sample(range(6000, 7000), 8))

    def path_of(c: Comp, fixed: typing.Optional[int] = None) -> str:
        parts = c.full_name.split('.')
        stem = '%s.%d.%d.dsdl' % (parts[-1], c.major, c.minor)
        if fixed is not None:
            stem = '%d.%s' % (fixed, stem)
        return '/'.join(parts[:-1] + [stem])

    def fresh_name(level: int) -> str:
        counter[0] += 1
        root = rootb if (level == 0 and rng.random() < 0.3) else roota
        sub = rng.choice(['', '', 'sub', 'sub.deep']) if root == roota else rng.choice(['', 'lib'])
        return '.'.join([root] + ([sub] if sub else []) + ['T%d' % counter[0]])

    def add(level: int, n: int) -> None:
        for i in range(n):
            lower = [c for lv in pools[:level] for c in lv]
            prev = pools[level - 1] if level > 0 else []
            # make sure the chain really deepens: prefer the level just below
            pool = (prev if (prev and rng.random() < 0.6) else lower)
            force_union = True if (i == 0) else (False if i == 1 else None)
            c = gen_comp(rng, fresh_name(level), pool, level, force_union, budget)
            pools[level].append(c)
            fixed = next(port_ids, None) if rng.random() < 0.1 else None
            files[path_of(c, fixed)] = comp_text(c)

    add(0, n0)
    if not any(c.body_max == 0 and c.sealed for c in pools[0]):      # always one empty sealed type to nest
        counter[0] += 1
        e = Comp(roota + '.T%d' % counter[0], 1, 0)
        pools[0].append(e)
        files[path_of(e)] = comp_text(e)
    add(1, n1)
    add(2, n2)
    add(3, n3)
    # one service whose request and response use the deepest types
    allc = [c for lv in pools for c in lv]
    req = gen_comp(rng, roota + '.Svc0', pools[2] + pools[3], 3, False, budget)
    rsp = gen_comp(rng, roota + '.Svc0', pools[1] + pools[2], 2, None, budget)
    files[roota + '/Svc0.1.0.dsdl'] = comp_text(req) + '---\n' + comp_text(rsp)
    depth = max([c.depth for c in allc] + [req.depth, rsp.depth])
    return {'files': files, 'roots': [roota, rootb] if any(p.startswith(rootb + '/') for p in files) else [roota],
            'stats': {'composites': len(allc) + 2, 'max_depth': depth + 1,
                      'unions': sum(c.union for c in allc), 'delimited': sum(not c.sealed for c in allc)}}


def single(files: typing.Dict[str, str]) -> dict:
    roots = []
    for p in files:
        r = p.split('/')[0]
        if r not in roots:
            roots.append(r)
    return {'files': dict(files), 'roots': roots, 'stats': {}}


def write(spec: dict, outdir: str) -> typing.List[str]:
    for rel, text in spec['files'].items():
        p = os.path.join(outdir, rel)
        os.makedirs(os.path.dirname(p), exist_ok=True)
        with open(p, 'w', encoding='utf-8') as f:
            f.write(text)
    return [os.path.join(outdir, r) for r in spec['roots']]


if __name__ == '__main__':
    import random
    import sys
    import tempfile
    seed = int(sys.argv[1]) if len(sys.argv) > 1 else 1
    sp = generate(random.Random(seed), int(sys.argv[2]) if len(sys.argv) > 2 else 30)
    d = tempfile.mkdtemp(prefix='dsdlgen-')
    print(d, write(sp, d), sp['stats'])
    for k, v in sorted(sp['files'].items()):
        print('---', k)
        print(v, end='')
