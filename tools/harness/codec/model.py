"""The extracted DSDL wire specification (coq/theories/Spec/Wire.v) and code walker (Codec/Walker.v) as a proto.Target-like
runner, plus the comparison helpers every codec check uses.

    exe_ok, exe, log = model.build()                 # extraction + ocamlopt (cached per check run by core.build_extracted)
    m = model.Model(exe, db)                         # db: proto.TypeDB of astdump JSON
    m.run(['ser <id> <cap> z <tokens>', 'des <id> fresh <hex>', 'meta <id>', 'msk <id> <tokens>', 'cast <id> <tokens>'])
    m.ser_req(tid, value, cap=None, fill='z') / m.des_req(tid, data: bytes, prior='fresh')   request-line builders
    model.same_ser(db, tid, model_resp, target_resp, mask_hex) / model.same_des(db, tid, model_resp, target_resp)

The model answers `ser`/`des` in exactly the response format of a target driver (proto.py); `wser`/`wdes` are the same requests
answered by the code-shaped walker."""
from __future__ import annotations

import os
import sys
import typing

sys.path.insert(0, os.path.dirname(os.path.dirname(os.path.dirname(os.path.dirname(os.path.abspath(__file__))))))

from tools.lib import core  # noqa: E402
from tools.harness.codec import proto  # noqa: E402


def build() -> typing.Tuple[bool, str, str]:
    return core.build_extracted('codec', 'ExtractCodec.v', 'codec_driver.ml')


def type_tokens(t: dict) -> typing.List[str]:
    k = t['k']
    st = lambda x: 's' if x.get('sat', True) else 't'  # noqa: E731
    if k == 'bool':
        return ['b']
    if k == 'uint':
        return ['u', str(t['w']), st(t)]
    if k == 'int':
        return ['i', str(t['w']), st(t)]
    if k == 'float':
        return ['f', str(t['w']), st(t)]
    if k == 'void':
        return ['v', str(t['w'])]
    if k == 'farr':
        return ['a', str(t['n'])] + type_tokens(t['elem'])
    if k == 'varr':
        return ['l', str(t['cap'])] + type_tokens(t['elem'])
    if k == 'ref':
        return ['r', t['id']]
    raise ValueError(k)


def refs_of(t: dict) -> typing.List[str]:
    if t['k'] in ('farr', 'varr'):
        return refs_of(t['elem'])
    if t['k'] == 'ref':
        return [t['id']]
    return []


def def_lines(db: proto.TypeDB) -> typing.List[str]:
    """`def` lines in dependency order."""
    out, seen = [], set()

    def visit(tid: str) -> None:
        if tid in seen:
            return
        seen.add(tid)
        c = db.comp(tid)
        for f in c['fields']:
            for r in refs_of(f['type']):
                visit(r)
        toks = ['def', tid, c['kind'], 'sealed' if c['sealed'] else str(c['extent_bits']), str(len(c['fields']))]
        for f in c['fields']:
            toks += type_tokens(f['type'])
        out.append(' '.join(toks))

    for tid in db.ids():
        visit(tid)
    return out


class Model:
    name = 'model'

    def __init__(self, exe: str, db: proto.TypeDB):
        self.exe = exe
        self.db = db
        self.defs = def_lines(db)

    def run(self, requests: typing.List[str], timeout: float = 600.0) -> typing.List[str]:
        if not requests:
            return []
        p = core.run([self.exe], input='\n'.join(self.defs + list(requests)) + '\n', timeout=timeout)
        lines = p.stdout.splitlines()
        nd = len(self.defs)
        bad = [l for l in lines[:nd] if l != 'ok']
        if bad or len(lines) < nd:
            return ['crash model rejected the type database: %s' % (bad[:1] or lines[-1:])] * len(requests)
        res = lines[nd:nd + len(requests)]
        while len(res) < len(requests):
            res.append('crash model died (rc=%s)' % p.returncode)
        return res

    # request builders -------------------------------------------------------------------------
    def ser_req(self, tid: str, value, cap: typing.Optional[int] = None, fill: str = 'z', verb: str = 'ser') -> str:
        c = self.db.comp(tid)
        if cap is None:
            cap = (c['meta']['max_bits'] + 7) // 8
        return ' '.join([verb, tid, str(cap), fill] + proto.encode_comp(self.db, c, value))

    def des_req(self, tid: str, data: bytes, prior: str = 'fresh', verb: str = 'des') -> str:
        return ' '.join([verb, tid, prior, data.hex() or '-'])

    def tok_req(self, verb: str, tid: str, value) -> str:
        return ' '.join([verb, tid] + proto.encode_comp(self.db, self.db.comp(tid), value))


# ------------------------------------------------------------------------------------------------
# comparison of responses (canonicalisation: DESIGN 3.5)
# ------------------------------------------------------------------------------------------------

ERR_EQUIV = {'format': {'bad_length', 'bad_tag', 'bad_header', 'format'}}


def parse_resp(r: str) -> typing.Tuple[str, typing.List[str]]:
    t = r.split()
    if not t:
        return 'crash', ['empty response']
    return t[0], t[1:]


def _is_nan16(h: int) -> bool:
    return (h & 0x7FFF) > 0x7C00


def same_ser(model_resp: str, target_resp: str, mask_hex: typing.Optional[str] = None, strict_class: bool = True) -> bool:
    """True when the target's `ser` response is what the specification allows.
    Exact bytes, except inside float16 fields marked by the model's relaxation mask (NaN input: any NaN pattern;
    exact tie / subnormal result: either neighbour)."""
    mk, ma = parse_resp(model_resp)
    tk, ta = parse_resp(target_resp)
    if mk == 'err':
        if tk != 'err':
            return False
        if ta[:1] == ma[:1]:
            return True
        if ta and ta[0] in ERR_EQUIV and ma and ma[0] in ERR_EQUIV[ta[0]]:
            return True     # targets with one error class (Python) cannot be more specific
        return not strict_class
    if mk != 'ok' or tk != 'ok':
        return False
    if ma == ta:
        return True
    if len(ma) != 2 or len(ta) != 2 or ma[0] != ta[0] or not mask_hex or mask_hex == '-':
        return False
    try:
        mb = bytes.fromhex(ma[1] if ma[1] != '-' else '')
        tb = bytes.fromhex(ta[1] if ta[1] != '-' else '')
        kb = bytes.fromhex(mask_hex)
    except ValueError:
        return False
    if len(mb) != len(tb):
        return False
    kb = kb.ljust(len(mb), b'\0')
    mi, ti, ki = int.from_bytes(mb, 'little'), int.from_bytes(tb, 'little'), int.from_bytes(kb[:len(mb)], 'little')
    # bits outside the marked fields must agree exactly
    cover, pos, nbits = 0, 0, 8 * len(mb)
    while pos < nbits:
        if (ki >> pos) & 1:
            end = pos + 1
            while end < nbits and not (ki >> end) & 1:
                end += 1
            cover |= ((1 << (end - pos + 1)) - 1) << pos
            pos = end + 1
        else:
            pos += 1
    if (mi & ~cover) != (ti & ~cover):
        return False
    # every relaxable float field is marked by a 1 on its first and on its last bit
    pos, nbits = 0, 8 * len(mb)
    while pos < nbits:
        if (ki >> pos) & 1:
            end = pos + 1
            while end < nbits and not (ki >> end) & 1:
                end += 1
            w = end - pos + 1
            if w not in (16, 32, 64) or end >= nbits:
                return False
            a, b = (mi >> pos) & ((1 << w) - 1), (ti >> pos) & ((1 << w) - 1)
            if a != b:
                emask, sign = {16: (0x7C00, 0x8000), 32: (0x7F800000, 1 << 31), 64: (0x7FF0000000000000, 1 << 63)}[w]
                nan = lambda x: (x & (sign - 1)) > emask  # noqa: E731
                if nan(a) and nan(b):
                    pass
                elif w == 16 and not nan(a) and not nan(b) and (a & sign) == (b & sign) and abs((a & 0x7FFF) - (b & 0x7FFF)) == 1:
                    pass
                else:
                    return False
            pos = end + 1
        else:
            pos += 1
    return True


def _canon_tokens(db: proto.TypeDB, tid: str, toks: typing.List[str]):
    """decode tokens into a value with NaN patterns collapsed; None when the tokens do not parse."""
    c = db.comp(tid)
    try:
        v, pos = proto.decode_comp(db, c, toks, 0)
    except (ValueError, IndexError):
        return None
    if pos != len(toks):
        return None
    return _canon_comp(db, c, v)


def _canon(db, t, v):
    k = t['k']
    if k == 'float':
        if t['w'] == 64:
            return 'nan' if (v & 0x7FFFFFFFFFFFFFFF) > 0x7FF0000000000000 else v
        return 'nan' if (v & 0x7FFFFFFF) > 0x7F800000 else v
    if k in ('farr', 'varr'):
        return [_canon(db, t['elem'], e) for e in v]
    if k == 'ref':
        return _canon_comp(db, db.comp(t['id']), v)
    return v


def _canon_comp(db, c, v):
    if c['kind'] == 'union':
        if 0 <= v['tag'] < len(c['fields']):
            return {'tag': v['tag'], 'value': _canon(db, c['fields'][v['tag']]['type'], v['value'])}
        return {'tag': v['tag'], 'value': None}
    return [_canon(db, f['type'], x) for f, x in zip(c['fields'], v)]


def same_des(db: proto.TypeDB, tid: str, model_resp: str, target_resp: str, strict_class: bool = True) -> bool:
    mk, ma = parse_resp(model_resp)
    tk, ta = parse_resp(target_resp)
    if mk == 'err':
        if tk != 'err':
            return False
        if ta[:1] == ma[:1]:
            return True
        if ta and ta[0] in ERR_EQUIV and ma and ma[0] in ERR_EQUIV[ta[0]]:
            return True
        return not strict_class
    if mk != 'ok' or tk != 'ok':
        return False
    if ma == ta:
        return True
    if not ma or not ta or (ma[0] != ta[0] and ta[0] != '-'):     # '-' = the target cannot observe the consumed size (Python)
        return False
    a, b = _canon_tokens(db, tid, ma[1:]), _canon_tokens(db, tid, ta[1:])
    return a is not None and a == b
