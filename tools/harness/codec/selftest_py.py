"""Self-test of the Python target runner (target_py.PyTarget).  Run from /verif:

    /venv/bin/python -m tools.harness.codec.selftest_py [--keep] [--seed N] [--repo /repo]

Writes a handful of DSDL types that cover every TYPE kind into a scratch directory, generates Python with the real nnvg
and checks, through the line protocol only:
  A  hand-computed wire vectors (derivations in the comments next to each vector), both directions
  B  random in-range round trips  ser -> des
  C  every truncation of every valid encoding (implicit zero extension; cuts inside a nested delimited object are
     decided by the pydsdl reference codec: the header then announces more bytes than remain -> `err format`)
  D  empty input decodes to the all-zero object
  E  out-of-range / over-long / bad-tag objects are rejected, malformed requests are `invalid_arg`
  F  cross-check with the reference codec of pydsdl (pydsdl.serialize / pydsdl.deserialize), incl. random garbage input
  G  meta / model / builtin / set
  H  runner robustness: crash and timeout of the driver are reported per request and the driver is restarted
  I  the same vectors under every driver option (setattr construction, bytes / ndarray arrays, fragmented input, -O)
Exit status 0 iff everything passed.  Known quirks of the generated code are printed as `OBSERVED` lines, not failures.
"""
from __future__ import annotations

import argparse
import json
import os
import random
import shutil
import struct
import subprocess
import sys
import tempfile
import typing

from . import proto
from .target_py import PyTarget, PY

HERE = os.path.dirname(os.path.abspath(__file__))

# ----------------------------------------------------------------------------------------------------------------------
# DSDL under test.  Root namespace `st`, dependency namespace `dep` (exercises ns_dirs[1:] / --lookup-dir).
# ----------------------------------------------------------------------------------------------------------------------
DSDL = {
    'dep/Pt.1.0.dsdl': 'int8 x\nuint4 y\n@sealed\n',
    'st/Bits.1.0.dsdl': 'uint3 a\nuint3 b\n@sealed\n',
    'st/Prim.1.0.dsdl': (
        'bool f\nvoid2\ntruncated uint5 t5\nint5 s5\nsaturated uint11 u11\nint16 i16\nuint64 u64\n'
        'float16 h\nfloat32 s\nfloat64 d\ntruncated uint8 t8\n@sealed\n'),
    'st/Arr.1.0.dsdl': (
        'bool[5] bits\nvoid3\nuint8[<=4] by\nuint4[3] nib\nint12[<=2] sv\nbool[<=10] bv\nfloat16[2] hs\n@sealed\n'),
    'st/F.1.0.dsdl': 'float16 h\nfloat32 s\nfloat64 d\ntruncated float16 th\ntruncated float32 ts\n@sealed\n',
    'st/Quirk.1.0.dsdl': 'uint4[<=3] sn\ntruncated uint4[<=3] tn\nfloat16[<=2] hv\n@sealed\n',
    'st/SArr.1.0.dsdl': 'int4[<=2] a\nint15[<=2] b\n@sealed\n',
    'st/Empty.1.0.dsdl': '@sealed\n',                                    # a value of this type occupies no token
    'st/EArr.1.0.dsdl': 'st.Empty.1.0[<=16] e\nuint8 x\n@sealed\n',      # count may exceed the number of tokens
    'st/Del.1.0.dsdl': 'uint8 v\nuint16[<=2] w\n@extent 64\n',
    'st/Un.1.0.dsdl': '@union\nuint8 small\ndep.Pt.1.0 pt\nfloat32[2] fl\nst.Del.1.0 del\n@sealed\n',
    'st/7509.Top.1.0.dsdl': (
        'uint8 VERSION = 7\nfloat32 HALF = 0.5\nbool YES = true\n'
        'dep.Pt.1.0 p\nst.Del.1.0 d\ndep.Pt.1.0[2] pf\nst.Del.1.0[<=2] dv\nst.Un.1.0 u\nst.Un.1.0[<=2] uv\n'
        '@extent 200 * 8\n'),
    'st/430.Svc.1.0.dsdl': (
        'uint8 cmd\ndep.Pt.1.0[<=2] pts\n@sealed\n---\nint32 status\nutf8[<=8] text\nbyte[<=3] raw\n@extent 32 * 8\n'),
}

# ----------------------------------------------------------------------------------------------------------------------
# A. hand-computed vectors:  (type id, tokens, hex).  Cyphal DSDL: little-endian, bits are filled LSB first.
# ----------------------------------------------------------------------------------------------------------------------
VECTORS = [
    # a=5 -> bits 0..2 = 101b; b=2 -> bits 3..5: 2<<3 = 0x10; 0x05|0x10 = 0x15
    ('st.Bits.1.0', '5 2', '15'),
    ('st.Bits.1.0', '7 7', '3f'),
    # x=-1 -> ff; y=9 in the low nibble of the next byte, 4 pad bits
    ('dep.Pt.1.0', '-1 9', 'ff09'),
    # byte0: f=1 (bit 0), void2 (bits 1-2), t5=21 -> 21<<3 = a8            => a9
    # byte1: s5=-3 = 11101b = 1d (bits 8..12); u11=1234=10011010010b: low 3 bits 010b -> 2<<5 = 40  => 5d
    # byte2: u11>>3 = 154 = 9a
    # i16=-2 -> fe ff; u64=0x0123456789abcdef -> ef cd ab 89 67 45 23 01; h=1.5 -> f16 3e00 -> 00 3e
    # s=-2.0 -> c0000000 -> 00 00 00 c0; d=1.0 -> 3ff0000000000000 -> 00*6 f0 3f; t8=200 -> c8
    ('st.Prim.1.0', '1 21 -3 1234 -2 81985529216486895 3fc00000 c0000000 3ff0000000000000 200',
     'a95d9a' 'feff' 'efcdab8967452301' '003e' '000000c0' '000000000000f03f' 'c8'),
    # byte0: bits=[1,0,1,1,0] -> 1+4+8 = 0d, void3
    # by=[41,ff]: prefix 02, 41, ff
    # nib=[1,2,15]: byte4 = 1 | 2<<4 = 21; 15 -> low nibble of byte5
    # sv=[-5]: 8-bit prefix 1 straddles: low nibble 1 -> high nibble of byte5 => 1f, high nibble 0 -> low nibble of byte6;
    #          -5 as 12 bit = ffb: b -> high nibble of byte6 => b0; ff -> byte7
    # bv=[1,1,0,1]: now at bit 64: prefix 04; bits 1+2+8 = 0b in the low nibble of byte9
    # hs=[1.0=3c00, -2.0=c000] from bit 76: 3c00: nibble 0 -> high nibble of byte9 => 0b; c0 -> byte10; 3 -> low nibble byte11
    #          c000: nibble 0 -> high nibble of byte11 => 03; 00 -> byte12; c -> low nibble of byte13 => 0c (4 pad bits)
    ('st.Arr.1.0', '1 0 1 1 0  2 65 255  1 2 15  1 -5  4 1 1 0 1  3f800000 c0000000',
     '0d' '0241ff' '21' '1f' 'b0' 'ff' '04' '0b' 'c0' '03' '00' '0c'),
    # h=+inf -> 7c00; s=+inf -> 7f800000; d=-0.0; th=65504 -> 7bff; ts = smallest denormal
    ('st.F.1.0', '7f800000 7f800000 8000000000000000 477fe000 1', '007c' '0000807f' '0000000000000080' 'ff7b' '01000000'),
    # sn=[1,2]: 02, 1|2<<4 = 21; tn=[] 00; hv=[] 00
    ('st.Quirk.1.0', '2 1 2  0  0', '0221' '00' '00'),
    # a=[-1,3]: 02, f | 3<<4 = 3f; b=[-2]: 01, -2 as 15 bit = 7ffe -> fe 7f (one pad bit)
    ('st.SArr.1.0', '2 -1 3  1 -2', '02' '3f' '01' 'fe7f'),
    ('st.Empty.1.0', '', ''),
    # nine token-less elements: only the prefix 09, then x=200 (regression: the count exceeds the token count)
    ('st.EArr.1.0', '9 200', '09c8'),
    # v=7; w=[0x1234]: prefix 01, 34 12 (top-level object: no delimiter header)
    ('st.Del.1.0', '7 1 4660', '07013412'),
    ('st.Un.1.0', '0 200', '00c8'),
    ('st.Un.1.0', '1 5 6', '010506'),
    ('st.Un.1.0', '2 3f800000 0', '02' '0000803f' '00000000'),
    # tag 3, then the delimited member: header = 6 (bytes of the nested object), v=2, w=[1,2]: 02 0100 0200
    ('st.Un.1.0', '3 2 2 1 2', '03' '06000000' '02' '02' '0100' '0200'),
    # p=(-1,9): ff 09 | d=(7,[0x1234]): header 4, 07 01 34 12 | pf=[(1,2),(3,4)]: 01 02 03 04
    # dv=[(1,[])]: prefix 01, header 2, 01 00 | u = pt (5,6): 01 05 06
    # uv=[small 9, fl [1.0, 0.0]]: prefix 02, 00 09, 02 0000803f 00000000
    ('st.Top.1.0', '-1 9  7 1 4660  1 2 3 4  1 1 0  1 5 6  2 0 9 2 3f800000 0',
     'ff09' '04000000' '07013412' '01020304' '01' '02000000' '0100' '010506' '02' '0009' '02' '0000803f' '00000000'),
    # cmd=3; pts=[(-128,15)]: prefix 01, 80, 0f
    ('st.Svc.Request.1.0', '3 1 -128 15', '0301800f'),
    # status=-2: fe ff ff ff; text="hi": 02 68 69; raw=[1]: 01 01
    ('st.Svc.Response.1.0', '-2 2 104 105 1 1', 'feffffff' '026869' '0101'),
]

# E. objects that must be rejected: (type id, tokens, expected exception type or None for "any")
REJECTS = [
    ('st.Bits.1.0', '8 0', 'ValueError'),                       # saturated uint3 = 8
    ('st.Bits.1.0', '-1 0', 'ValueError'),
    ('st.Prim.1.0', '1 32 0 0 0 0 0 0 0 0', 'ValueError'),      # truncated uint5 = 32: checked regardless of the cast mode
    ('st.Prim.1.0', '1 0 16 0 0 0 0 0 0 0', 'ValueError'),      # int5 = 16
    ('st.Prim.1.0', '1 0 -17 0 0 0 0 0 0 0', 'ValueError'),
    ('st.Prim.1.0', '1 0 0 2048 0 0 0 0 0 0', 'ValueError'),    # uint11 = 2048
    ('st.Prim.1.0', '1 0 0 0 32768 0 0 0 0 0', 'ValueError'),   # int16
    ('st.Prim.1.0', '1 0 0 0 0 18446744073709551616 0 0 0 0', 'ValueError'),   # uint64 = 2**64
    ('st.Prim.1.0', '1 0 0 0 0 0 49742400 0 0 0', 'ValueError'),    # float16 = 1e6 (finite, out of range)
    ('st.Prim.1.0', '1 0 0 0 0 0 0 0 0 256', 'ValueError'),     # truncated uint8 = 256
    ('st.Prim.1.0', '2 0 0 0 0 0 0 0 0 0', 'StorageRange'),     # bool token 2 (runner convention)
    ('st.F.1.0', '0 0 0 49742400 0', 'ValueError'),             # truncated float16 = 1e6: also checked
    ('st.Arr.1.0', '0 0 0 0 0  5 1 2 3 4 5  0 0 0  0  0  0 0', 'ValueError'),         # uint8[<=4] with 5 elements
    ('st.Arr.1.0', '0 0 0 0 0  0  0 0 0  3 1 2 3  0  0 0', 'ValueError'),             # int12[<=2] with 3
    ('st.Arr.1.0', '0 0 0 0 0  0  0 0 0  0  11 0 0 0 0 0 0 0 0 0 0 0  0 0', 'ValueError'),   # bool[<=10] with 11
    ('st.Arr.1.0', '0 0 0 0 0  1 256  0 0 0  0  0  0 0', None),        # uint8 element 256: NumPy OverflowError
    ('st.Arr.1.0', '0 0 0 0 0  0  0 0 0  1 40000  0  0 0', None),      # int12 element beyond int16 storage
    ('st.Un.1.0', '4', 'InvalidTag'),
    ('st.Un.1.0', '0 256', 'ValueError'),
    ('st.Top.1.0', '0 0  0 0  0 0 0 0  3 0 0 0 0 0 0  0 0  0', 'ValueError'),         # Del[<=2] with 3
    ('st.Top.1.0', '0 16  0 0  0 0 0 0  0  0 0  0', 'ValueError'),                    # nested uint4 = 16
    ('st.Svc.Request.1.0', '0 3 0 0 0 0 0 0', 'ValueError'),
    ('st.EArr.1.0', '17 0', 'ValueError'),                       # 17 token-less elements for [<=16]
    ('st.EArr.1.0', '999999999 0', 'StorageRange'),              # absurd count, not handed to the generated code
]

BAD_REQUESTS = [
    'ser st.Bits.1.0 10 z 1',             # missing token
    'ser st.Bits.1.0 10 z 1 2 3',         # surplus token
    'ser st.Bits.1.0 10 z x 2',           # malformed token
    'ser st.Nope.1.0 10 z 1 2',           # unknown type
    'des st.Bits.1.0 fresh zz',           # bad hex
    'des st.Bits.1.0 fresh',              # missing hex
    'meta st.Nope.1.0',
    'frobnicate',
    'ser st.Arr.1.0 100 z 0 0 0 0 0  999999999 1',    # absurd count with missing elements
]


# Types whose *serializer* is known to raise under NumPy 2 (arrays of intN, N in 2..7 for every value, N in {15,31,63} for
# negative values: `np.int8(x) & 0xFF` / `2**N + np.int16(x)` overflow in Serializer._unsigned_to_bytes/add_*_signed).
# Their `ser` answers may be `err invalid_arg raised:OverflowError` (printed as OBSERVED); an `ok` answer must be right.
KNOWN_SER_BROKEN = {'st.SArr.1.0'}


def ser_known_broken(tid: str, resp: str) -> bool:
    return tid in KNOWN_SER_BROKEN and resp.startswith('err invalid_arg raised:OverflowError')


class Checker:
    def __init__(self):
        self.fails: typing.List[str] = []
        self.counts: typing.Dict[str, int] = {}
        self.observed: typing.List[str] = []

    def ok(self, section: str, cond: bool, msg: str) -> bool:
        self.counts[section] = self.counts.get(section, 0) + 1
        if not cond:
            self.fails.append('[%s] %s' % (section, msg))
        return cond

    def observe(self, msg: str) -> None:
        if msg not in self.observed:
            self.observed.append(msg)


# ----------------------------------------------------------------------------------------------------------------------
# helpers over the type JSON
# ----------------------------------------------------------------------------------------------------------------------

def norm(tokens: str) -> str:
    return ' '.join(tokens.split())


def f16_to_f32_bits(h: int) -> int:
    return proto.f32_bits(struct.unpack('<e', struct.pack('<H', h))[0])


def rand_value(db: proto.TypeDB, t: dict, rng: random.Random):
    k = t['k']
    if k == 'void':
        return None
    if k == 'bool':
        return rng.randint(0, 1)
    if k == 'uint':
        if t.get('flavor') == 'utf8':
            return rng.randint(0x20, 0x7e)
        hi = (1 << t['w']) - 1
        return rng.choice([0, 1, hi, hi - 1, rng.randint(0, hi), rng.randint(0, hi)])
    if k == 'int':
        lo, hi = -(1 << (t['w'] - 1)), (1 << (t['w'] - 1)) - 1
        return rng.choice([0, -1, lo, hi, rng.randint(lo, hi), rng.randint(lo, hi)])
    if k == 'float':
        while True:
            if t['w'] == 16:
                h = rng.getrandbits(16)
                if (h & 0x7c00) == 0x7c00 and (h & 0x3ff):
                    continue
                return f16_to_f32_bits(h)
            b = rng.getrandbits(t['w'])
            ebits, mbits = (8, 23) if t['w'] == 32 else (11, 52)
            if ((b >> mbits) & ((1 << ebits) - 1)) == (1 << ebits) - 1 and (b & ((1 << mbits) - 1)):
                continue   # NaN: handled separately
            return b
    if k == 'farr':
        return [rand_value(db, t['elem'], rng) for _ in range(t['n'])]
    if k == 'varr':
        n = rng.choice([0, t['cap'], rng.randint(0, t['cap'])])
        return [rand_value(db, t['elem'], rng) for _ in range(n)]
    if k == 'ref':
        return rand_comp(db, db.comp(t['id']), rng)
    raise ValueError(k)


def rand_comp(db: proto.TypeDB, c: dict, rng: random.Random):
    if c['kind'] == 'union':
        i = rng.randrange(len(c['fields']))
        return {'tag': i, 'value': rand_value(db, c['fields'][i]['type'], rng)}
    return [rand_value(db, f['type'], rng) for f in c['fields']]


def has_delimited_member(db: proto.TypeDB, c: dict, top: bool = True) -> bool:
    """True iff an object of a delimited type is nested somewhere inside `c` (the top-level object has no header)."""
    if not top and not c['sealed']:
        return True

    def in_type(t):
        if t['k'] in ('farr', 'varr'):
            return in_type(t['elem'])
        if t['k'] == 'ref':
            return has_delimited_member(db, db.comp(t['id']), False)
        return False
    return any(in_type(f['type']) for f in c['fields'])


# abstract value <-> value convention of pydsdl's reference codec ----------------------------------------------------

def to_pyd(db: proto.TypeDB, t: dict, v):
    k = t['k']
    if k == 'bool':
        return bool(v)
    if k in ('uint', 'int'):
        return int(v)
    if k == 'float':
        return proto.f64_from_bits(v) if t['w'] == 64 else proto.f32_from_bits(v)
    if k in ('farr', 'varr'):
        et = t['elem']
        if et['k'] == 'uint' and et.get('flavor') == 'utf8':
            return bytes(v).decode('utf-8')
        if et['k'] == 'uint' and et.get('flavor') == 'byte':
            return bytes(v)
        return [to_pyd(db, et, e) for e in v]
    if k == 'ref':
        return comp_to_pyd(db, db.comp(t['id']), v)
    raise ValueError(k)


def comp_to_pyd(db: proto.TypeDB, c: dict, v):
    if c['kind'] == 'union':
        f = c['fields'][v['tag']]
        return {f['name']: to_pyd(db, f['type'], v['value'])}
    return {f['name']: to_pyd(db, f['type'], fv) for f, fv in zip(c['fields'], v) if f['name'] != ''}


def from_pyd(db: proto.TypeDB, t: dict, x):
    k = t['k']
    if k == 'void':
        return None
    if k == 'bool':
        return 1 if x else 0
    if k in ('uint', 'int'):
        return int(x)
    if k == 'float':
        return proto.f64_bits(x) if t['w'] == 64 else proto.f32_bits(x)
    if k in ('farr', 'varr'):
        if isinstance(x, str):
            x = x.encode('utf-8')
        return [from_pyd(db, t['elem'], e) for e in x]
    if k == 'ref':
        return comp_from_pyd(db, db.comp(t['id']), x)
    raise ValueError(k)


def comp_from_pyd(db: proto.TypeDB, c: dict, x):
    if c['kind'] == 'union':
        (name, val), = x.items()
        i = [f['name'] for f in c['fields']].index(name)
        return {'tag': i, 'value': from_pyd(db, c['fields'][i]['type'], val)}
    return [None if f['name'] == '' else from_pyd(db, f['type'], x[f['name']]) for f in c['fields']]


def canon_tokens(db: proto.TypeDB, c: dict, toks: typing.List[str]) -> typing.List[str]:
    """Replace every NaN bit pattern by 'nan' (payload and sign are not compared)."""
    v, pos = proto.decode_comp(db, c, toks, 0)
    assert pos == len(toks), (toks, pos)

    def cv(t, x):
        k = t['k']
        if k == 'float':
            ebits, mbits = (11, 52) if t['w'] == 64 else (8, 23)
            if ((x >> mbits) & ((1 << ebits) - 1)) == (1 << ebits) - 1 and (x & ((1 << mbits) - 1)):
                return ['nan']
            return ['%x' % x]
        if k == 'void':
            return []
        if k in ('bool', 'uint', 'int'):
            return [str(x)]
        if k == 'farr':
            return sum((cv(t['elem'], e) for e in x), [])
        if k == 'varr':
            return [str(len(x))] + sum((cv(t['elem'], e) for e in x), [])
        return cc(db.comp(t['id']), x)

    def cc(c, x):
        if c['kind'] == 'union':
            return [str(x['tag'])] + cv(c['fields'][x['tag']]['type'], x['value'])
        return sum((cv(f['type'], fv) for f, fv in zip(c['fields'], x)), [])
    return cc(c, v)


# ----------------------------------------------------------------------------------------------------------------------

def write_dsdl(root: str) -> typing.List[str]:
    for rel, text in DSDL.items():
        p = os.path.join(root, rel)
        os.makedirs(os.path.dirname(p), exist_ok=True)
        with open(p, 'w') as f:
            f.write(text)
    return [os.path.join(root, 'st'), os.path.join(root, 'dep')]


def load_pydsdl_models(ns_dirs: typing.List[str]) -> dict:
    import pydsdl
    out = {}
    for i, root in enumerate(ns_dirs):
        for t in pydsdl.read_namespace(root, [d for j, d in enumerate(ns_dirs) if j != i],
                                       allow_unregulated_fixed_port_id=True):
            parts = [t.request_type, t.response_type] if isinstance(t, pydsdl.ServiceType) else [t]
            for p in parts:
                out['%s.%d.%d' % (p.full_name, p.version.major, p.version.minor)] = p
    return out


def parse_ok_ser(resp: str) -> typing.Optional[bytes]:
    p = resp.split()
    if len(p) == 3 and p[0] == 'ok':
        data = b'' if p[2] == '-' else bytes.fromhex(p[2])
        if int(p[1]) == len(data):
            return data
    return None


def run_vectors(chk: Checker, tgt: PyTarget, label: str) -> None:
    reqs = []
    for tid, toks, hx in VECTORS:
        reqs.append(('ser %s 300 z %s' % (tid, norm(toks))).strip())
        reqs.append('des %s fresh %s' % (tid, hx or '-'))
    resp = tgt.run(reqs)
    for i, (tid, toks, hx) in enumerate(VECTORS):
        if ser_known_broken(tid, resp[2 * i]):
            chk.observe('serialize() of %s [%s] raises: %s' % (tid, norm(toks), resp[2 * i]))
        else:
            chk.ok('A-vectors' + label, resp[2 * i] == 'ok %d %s' % (len(hx) // 2, hx or '-'),
                   'ser %s [%s]: expected %s, got %s' % (tid, norm(toks), hx or '-', resp[2 * i]))
        chk.ok('A-vectors' + label, resp[2 * i + 1] == ('ok - ' + norm(toks)).strip(),
               'des %s %s: expected [%s], got %s' % (tid, hx, norm(toks), resp[2 * i + 1]))


def main(argv: typing.Optional[typing.List[str]] = None) -> int:
    ap = argparse.ArgumentParser()
    ap.add_argument('--keep', action='store_true', help='keep the scratch directory')
    ap.add_argument('--seed', type=int, default=1)
    ap.add_argument('--repo', default=os.environ.get('VERIF_REPO', '/repo'))
    ap.add_argument('--rounds', type=int, default=150, help='random objects per type')
    args = ap.parse_args(argv)
    rng = random.Random(args.seed)
    chk = Checker()
    scratch = tempfile.mkdtemp(prefix='b-codec-py-selftest-')
    targets: typing.List[PyTarget] = []
    try:
        ns_dirs = write_dsdl(os.path.join(scratch, 'dsdl'))
        r = subprocess.run([PY, os.path.join(HERE, 'astdump.py')] + ns_dirs, stdout=subprocess.PIPE,
                           stderr=subprocess.PIPE, text=True)
        if r.returncode != 0:
            print('astdump failed:\n' + r.stderr)
            return 1
        db = proto.TypeDB(json.loads(r.stdout))
        models = load_pydsdl_models(ns_dirs)
        import pydsdl

        tgt = PyTarget({'selftest_ops': True, 'request_timeout': 20})
        targets.append(tgt)
        ok, log = tgt.build(ns_dirs, db, os.path.join(scratch, 'w0'), args.repo)
        if not ok:
            print('BUILD FAILED\n' + log)
            return 1
        chk.ok('build', sorted(db.ids()) == sorted(models), 'type ids of astdump and of pydsdl differ')
        chk.ok('build', set(t for t, _, _ in VECTORS) == set(db.ids()), 'a type has no hand vector: %r' %
               (set(db.ids()) - set(t for t, _, _ in VECTORS),))

        # ---- A ----------------------------------------------------------------------------------------------------
        run_vectors(chk, tgt, '')
        # cap smaller than the size -> too_small; cap == size is fine
        resp = tgt.run(['ser st.Prim.1.0 27 z ' + norm(VECTORS[3][1]), 'ser st.Prim.1.0 28 f ' + norm(VECTORS[3][1])])
        chk.ok('A-cap', resp[0].startswith('err too_small'), 'cap 27 for a 28 byte object: ' + resp[0])
        chk.ok('A-cap', resp[1] == 'ok 28 ' + VECTORS[3][2], 'cap 28 for a 28 byte object: ' + resp[1])

        # ---- B, C, F: random objects ------------------------------------------------------------------------------
        valid: typing.List[typing.Tuple[str, typing.List[str], bytes]] = []   # (tid, tokens, encoding)
        reqs, meta = [], []
        for tid in db.ids():
            c = db.comp(tid)
            for _ in range(args.rounds):
                v = rand_comp(db, c, rng)
                toks = proto.encode_comp(db, c, v)
                reqs.append('ser %s 4096 z %s' % (tid, ' '.join(toks)))
                meta.append((tid, v, toks))
        resp = tgt.run(reqs, timeout=600)
        reqs2 = []
        ser_broken: typing.Set[typing.Tuple[str, str]] = set()   # (tid, tokens) whose ser raised the known OverflowError
        for (tid, v, toks), a in zip(meta, resp):
            data = parse_ok_ser(a)
            ref = pydsdl.serialize(models[tid], comp_to_pyd(db, db.comp(tid), v))
            if ser_known_broken(tid, a):
                ser_broken.add((tid, ' '.join(toks)))
                data = ref    # the decoder is still checked, on the reference encoding
            elif not chk.ok('B-roundtrip', data is not None, 'ser %s [%s] -> %s' % (tid, ' '.join(toks), a)):
                continue
            chk.ok('F-pydsdl-ser', ref == data, 'ser %s [%s]: generated %s, pydsdl %s' %
                   (tid, ' '.join(toks), data.hex(), ref.hex()))
            c = db.comp(tid)
            chk.ok('B-size', c['meta']['min_bits'] <= 8 * len(data) <= c['meta']['max_bits'],
                   'size %d outside the bit length set of %s' % (len(data), tid))
            valid.append((tid, toks, data))
            reqs2.append('des %s fresh %s' % (tid, data.hex() or '-'))
        resp2 = tgt.run(reqs2, timeout=600)
        for (tid, toks, data), a in zip(valid, resp2):
            chk.ok('B-roundtrip', a == ' '.join(['ok', '-'] + toks), 'des %s %s: expected [%s] got %s' %
                   (tid, data.hex(), ' '.join(toks), a))

        # ---- C: truncations (hand vectors plus a sample of the random encodings) --------------------------------------
        trunc_src = [(tid, bytes.fromhex(hx)) for tid, _, hx in VECTORS]
        trunc_src += [(tid, data) for tid, _, data in rng.sample(valid, min(len(valid), 400))]
        reqs, meta = [], []
        for tid, data in trunc_src:
            for k in range(len(data)):
                reqs.append('des %s fresh %s' % (tid, data[:k].hex() or '-'))
                reqs.append('des %s fresh %s' % (tid, (data[:k] + bytes(len(data) - k)).hex() or '-'))
                meta.append((tid, data, k))
        resp = tgt.run(reqs, timeout=900)
        n_fmt = 0
        for i, (tid, data, k) in enumerate(meta):
            cut, padded = resp[2 * i], resp[2 * i + 1]
            c = db.comp(tid)
            what = 'des %s %s (first %d of %d bytes)' % (tid, data[:k].hex() or '-', k, len(data))
            try:
                ref = pydsdl.deserialize(models[tid], data[:k])
                exp = ' '.join(['ok', '-'] + proto.encode_comp(db, c, comp_from_pyd(db, c, ref)))
            except UnicodeDecodeError:
                exp = None
            except Exception as ex:   # SerDesError family
                exp = 'err format'
                ref = ex
            if exp is not None:
                chk.ok('C-trunc-vs-pydsdl', ' '.join(canon_or_raw(db, c, cut)) == ' '.join(canon_or_raw(db, c, exp)),
                       '%s: generated `%s`, pydsdl `%s` (%r)' % (what, cut, exp, ref))
            if not has_delimited_member(db, c):
                chk.ok('C-trunc-zero-ext', cut.startswith('ok') and cut == padded,
                       '%s: `%s` but zero-padded input gives `%s`' % (what, cut, padded))
            elif cut == 'err format':
                n_fmt += 1
        chk.ok('C-trunc-zero-ext', n_fmt > 0, 'no truncation inside a nested delimited object was exercised')
        # three cuts of the st.Top vector, decided by hand: after p (header reads as 0) ok; inside the header of d
        # (reads 4, nothing remains) format; inside the payload of d format
        top_hex = [hx for tid, _, hx in VECTORS if tid == 'st.Top.1.0'][0]
        resp = tgt.run(['des st.Top.1.0 fresh ' + top_hex[:4], 'des st.Top.1.0 fresh ' + top_hex[:6],
                        'des st.Top.1.0 fresh ' + top_hex[:16], 'des st.Top.1.0 fresh ' + top_hex[:20]])
        chk.ok('C-trunc-hand', resp[0] == 'ok - -1 9 0 0 0 0 0 0 0 0 0 0', 'Top cut after p: ' + resp[0])
        chk.ok('C-trunc-hand', resp[1] == 'err format', 'Top cut inside the header of d: ' + resp[1])
        chk.ok('C-trunc-hand', resp[2] == 'err format', 'Top cut inside the payload of d: ' + resp[2])
        chk.ok('C-trunc-hand', resp[3] == 'ok - -1 9 7 1 4660 0 0 0 0 0 0 0 0', 'Top cut after d: ' + resp[3])

        # ---- D: empty input ---------------------------------------------------------------------------------------
        resp = tgt.run(['des %s fresh -' % tid for tid in db.ids()])
        for tid, a in zip(db.ids(), resp):
            toks = a.split()[2:]
            chk.ok('D-empty', a.split()[:2] == ['ok', '-'] and all(x == '0' for x in toks), 'des %s of empty input: %s' % (tid, a))

        # ---- E: rejects / bad requests ------------------------------------------------------------------------------
        resp = tgt.run(['ser %s 4096 z %s' % (tid, norm(toks)) for tid, toks, _ in REJECTS])
        for (tid, toks, exc), a in zip(REJECTS, resp):
            p = a.split()
            good = len(p) >= 3 and p[0] == 'err' and p[1] == 'rejected' and (exc is None or p[2] == exc)
            chk.ok('E-reject', good, 'ser %s [%s]: expected err rejected %s, got %s' % (tid, norm(toks), exc or '*', a))
            if exc is None and len(p) >= 3 and p[2] != 'ValueError':
                chk.observe('array element outside the NumPy storage dtype raises %s, not ValueError: %s [%s]' %
                            (p[2], tid, norm(toks)))
        resp = tgt.run(BAD_REQUESTS)
        for q, a in zip(BAD_REQUESTS, resp):
            chk.ok('E-badreq', a.startswith('err invalid_arg'), '`%s` -> %s' % (q, a))
        # des: array length prefix above the capacity, bad union tag, delimiter header beyond the input
        resp = tgt.run(['des st.Arr.1.0 fresh 0005', 'des st.Un.1.0 fresh 04', 'des st.Un.1.0 fresh 0309000000020000',
                        'des st.Svc.Request.1.0 fresh 0003'])
        for a in resp:
            chk.ok('E-des-format', a == 'err format', 'expected err format, got ' + a)

        # known quirks of the generated code: observations, not failures -------------------------------------------------
        resp = tgt.run(['ser st.Quirk.1.0 100 z 2 200 3  0  0', 'ser st.Quirk.1.0 100 z 0  1 200  0',
                        'ser st.Quirk.1.0 100 z 0  0  1 49742400', 'ser st.SArr.1.0 100 z 1 100  0'])
        if resp[0].startswith('ok'):
            chk.observe('saturated uint4[<=3] = [200, 3] is accepted (no element range check) and serialized as %s' % resp[0])
        if resp[1].startswith('ok'):
            chk.observe('truncated uint4[<=3] = [200] is accepted and serialized as %s' % resp[1])
        if resp[2].startswith('ok'):
            chk.observe('float16[<=2] = [1e6] is accepted and serialized as %s (scalar float16 = 1e6 is rejected)' % resp[2])
        if not resp[3].startswith('err rejected'):
            chk.observe('int4[<=2] = [100] is accepted (no element range check): %s' % resp[3])
        for a in resp[:3]:
            chk.ok('E-quirk-total', a.startswith('ok') or a.startswith('err rejected'), 'unexpected answer ' + a)
        if ser_broken:
            chk.observe('serialize() raised OverflowError for %d of the random st.SArr.1.0 objects (NumPy 2 scalar arithmetic '
                        'in Serializer._unsigned_to_bytes / add_unaligned_signed)' % len(ser_broken))

        # ---- F: garbage input against the reference decoder ------------------------------------------------------------
        reqs, meta = [], []
        for tid in db.ids():
            c = db.comp(tid)
            maxb = c['meta']['max_bits'] // 8
            for _ in range(args.rounds):
                n = rng.randint(0, maxb + 2)
                data = bytes(rng.choice([0, 0, 1, 2, 3, 4, 0xff, rng.randrange(256)]) for _ in range(n))
                reqs.append('des %s fresh %s' % (tid, data.hex() or '-'))
                meta.append((tid, data))
        resp = tgt.run(reqs, timeout=600)
        n_ok = n_err = 0
        for (tid, data), a in zip(meta, resp):
            c = db.comp(tid)
            try:
                ref = pydsdl.deserialize(models[tid], data)
                exp = ' '.join(['ok', '-'] + proto.encode_comp(db, c, comp_from_pyd(db, c, ref)))
                n_ok += 1
            except UnicodeDecodeError:
                continue
            except Exception as ex:
                exp, ref = 'err format', ex
                n_err += 1
            chk.ok('F-pydsdl-des', ' '.join(canon_or_raw(db, c, a)) == ' '.join(canon_or_raw(db, c, exp)),
                   'des %s %s: generated `%s`, pydsdl `%s` (%r)' % (tid, data.hex(), a, exp, ref))
        chk.ok('F-pydsdl-des', n_ok > 50 and n_err > 50, 'garbage generator is lopsided: ok=%d err=%d' % (n_ok, n_err))

        # NaN: payload is not compared, only NaN-ness and position
        resp = tgt.run(['ser st.F.1.0 100 z 7fc00000 7fc00001 7ff8000000000001 7fc00000 ffc00000',
                        'des st.F.1.0 fresh 017e0100c07f010000000000f87f007e0000c0ff'])
        data = parse_ok_ser(resp[0])
        chk.ok('B-nan', data is not None and len(data) == 20 and (data[1] & 0x7c) == 0x7c and (data[0] | (data[1] & 3)),
               'NaN serialization: ' + resp[0])
        chk.ok('B-nan', canon_or_raw(db, db.comp('st.F.1.0'), resp[1]) == ['ok', '-'] + ['nan'] * 5, 'NaN deserialization: ' + resp[1])

        # ---- G: meta / model / builtin / set ----------------------------------------------------------------------------
        resp = tgt.run(['meta ' + tid for tid in db.ids()])
        for tid, a in zip(db.ids(), resp):
            c = db.comp(tid)
            kv = dict(x.split('=', 1) for x in a.split()[1:])
            exp = {'extent_bytes': str(c['extent_bits'] // 8), 'full_name': c['full_name'], 'major': str(c['major']),
                   'minor': str(c['minor'])}
            for f in c['fields']:
                if f['type']['k'] in ('farr', 'varr'):
                    exp['cap.' + f['name']] = str(f['type'].get('cap', f['type'].get('n')))
            if c['kind'] == 'union':
                exp['union_count'] = str(len(c['fields']))
            chk.ok('G-meta', a.startswith('ok ') and all(kv.get(k) == v for k, v in exp.items()),
                   'meta %s: %s lacks %r' % (tid, a, {k: v for k, v in exp.items() if kv.get(k) != v}))
            chk.ok('G-meta', 'buffer_bytes' not in kv, 'meta must omit buffer_bytes')
        kv = dict(x.split('=', 1) for x in resp[db.ids().index('st.Top.1.0')].split()[1:])
        chk.ok('G-meta', (kv.get('port_id'), kv.get('const.VERSION'), kv.get('const.HALF'), kv.get('const.YES')) ==
               ('7509', '7', '3f000000', '1'), 'meta st.Top.1.0 port/constants: %r' % kv)
        kv = dict(x.split('=', 1) for x in resp[db.ids().index('st.Svc.Request.1.0')].split()[1:])
        chk.ok('G-meta', kv.get('port_id') == '430', 'service request class port id: %r' % kv)
        kv = dict(x.split('=', 1) for x in resp[db.ids().index('st.Bits.1.0')].split()[1:])
        chk.ok('G-meta', kv.get('port_id') == 'none', 'port id of st.Bits: %r' % kv)

        resp = tgt.run(['model ' + tid for tid in db.ids()] + ['model st.Svc.1.0'])
        for a in resp:
            chk.ok('G-model', a == 'ok equal', 'model: ' + a)

        reqs = ['builtin %s %s' % (tid, ' '.join(toks)) for tid, toks, _ in valid]
        resp = tgt.run(reqs, timeout=600)
        for (tid, toks, data), a in zip(valid, resp):
            if (tid, ' '.join(toks)) in ser_broken:
                continue
            chk.ok('G-builtin', a == 'ok %s %s' % (data.hex() or '-', data.hex() or '-'),
                   'builtin %s [%s]: %s (serialize gives %s)' % (tid, ' '.join(toks), a, data.hex()))

        resp = tgt.run(['set st.Bits.1.0 b 7', 'set st.Bits.1.0 b 8', 'set st.Arr.1.0 by 5 1 2 3 4 5',
                        'set st.Arr.1.0 nib @json [1, 2]', 'set st.Arr.1.0 nib @json [1, 2, 3]',
                        'set st.Prim.1.0 s5 @json "x"', 'set st.Un.1.0 del 9 0', 'set st.Un.1.0 pt @json 5',
                        'set st.Svc.Response.1.0 text @json "h\\u00e9"', 'set st.Bits.1.0 nosuch 1'])
        # b=7 -> 7<<3 = 38; a default st.Arr is 76 bits = 10 bytes; nib=[1,2,3] -> bytes 2,3 = 21 03;
        # Un.del=(9,[]) -> tag 03, header 2, 09 00; text "h\u00e9" is encoded as UTF-8: 68 c3 a9
        exp = ['ok 38', 'err rejected ValueError 00', 'err rejected ValueError ' + '00' * 10,
               'err rejected ValueError ' + '00' * 10, 'ok 00002103000000000000',
               'err rejected ValueError ' + '00' * 28, 'ok 03020000000900', 'err rejected ValueError 0000',
               'ok 00000000' '03' '68c3a9' '00', 'err invalid_arg']
        for a, e in zip(resp, exp):
            chk.ok('G-set', a == e or a.startswith(e + ' '), 'set: expected `%s`, got `%s`' % (e, a))

        # ---- H: runner robustness ----------------------------------------------------------------------------------------
        r0 = tgt.restarts
        resp = tgt.run(['ser st.Bits.1.0 9 z 5 2', '_die', 'ser st.Bits.1.0 9 z 5 2', '_die', '_die', 'ping'])
        chk.ok('H-crash', resp[0] == 'ok 1 15' and resp[2] == 'ok 1 15' and resp[5] == 'ok', 'answers around a crash: %r' % resp)
        chk.ok('H-crash', all(resp[i].startswith('crash exit status 3') and 'dying on request' in resp[i] for i in (1, 3, 4)),
               'crash reports: %r' % [resp[i] for i in (1, 3, 4)])
        chk.ok('H-crash', tgt.restarts == r0 + 3, 'restart count %d -> %d' % (r0, tgt.restarts))
        slow = PyTarget({'selftest_ops': True, 'request_timeout': 1.0})
        targets.append(slow)
        ok, log = slow.build(ns_dirs, db, os.path.join(scratch, 'w-slow'), args.repo)
        chk.ok('H-timeout', ok, 'build of the slow target: ' + log)
        if ok:
            resp = slow.run(['ping', '_sleep 30', 'ser st.Bits.1.0 9 z 5 2'], timeout=60)
            chk.ok('H-timeout', resp[0] == 'ok' and resp[1].startswith('crash timeout') and resp[2] == 'ok 1 15',
                   'timeout handling: %r' % resp)
            resp = slow.run(['_sleep 0.3'] * 5, timeout=1.0)
            chk.ok('H-timeout', len(resp) == 5 and resp[0] == 'ok' and resp[-1].startswith('crash timeout'),
                   'run deadline: %r' % resp)
            resp = slow.run(['ping'])
            chk.ok('H-timeout', resp == ['ok'], 'driver usable after a run deadline: %r' % resp)
        slow.close()

        # ---- I: every option set gives the same vectors ---------------------------------------------------------------
        for i, opts in enumerate([{'construct': 'setattr'}, {'array_mode': 'bytes'}, {'array_mode': 'ndarray'},
                                  {'fragment': 3}, {'fragment': 1, 'construct': 'setattr', 'array_mode': 'bytes'},
                                  {'python_optimize': True}, {'builtin_via_json': True}]):
            t2 = PyTarget(opts)
            targets.append(t2)
            ok, log = t2.build(ns_dirs, db, os.path.join(scratch, 'w-opt%d' % i), args.repo)
            label = ' ' + json.dumps(opts, sort_keys=True)
            if chk.ok('I-options', ok, 'build with %s: %s' % (label, log)):
                run_vectors(chk, t2, label)
                sample = rng.sample(valid, min(len(valid), 300))
                resp = t2.run(['ser %s 4096 z %s' % (tid, ' '.join(toks)) for tid, toks, _ in sample] +
                              ['des %s fresh %s' % (tid, data.hex() or '-') for tid, _, data in sample] +
                              ['builtin %s %s' % (tid, ' '.join(toks)) for tid, toks, _ in sample], timeout=600)
                n = len(sample)
                for j, (tid, toks, data) in enumerate(sample):
                    hx = data.hex() or '-'
                    if (tid, ' '.join(toks)) in ser_broken:
                        chk.ok('I-options', resp[n + j] == ' '.join(['ok', '-'] + toks), 'des%s %s %s -> %s' %
                               (label, tid, hx, resp[n + j]))
                        continue
                    chk.ok('I-options', resp[j] == 'ok %d %s' % (len(data), hx), 'ser%s %s [%s] -> %s, expected %s' %
                           (label, tid, ' '.join(toks), resp[j], hx))
                    chk.ok('I-options', resp[n + j] == ' '.join(['ok', '-'] + toks), 'des%s %s %s -> %s' %
                           (label, tid, hx, resp[n + j]))
                    chk.ok('I-options', resp[2 * n + j] == 'ok %s %s' % (hx, hx), 'builtin%s %s [%s] -> %s' %
                           (label, tid, ' '.join(toks), resp[2 * n + j]))
            t2.close()
    finally:
        for t in targets:
            t.close()
        if args.keep:
            print('scratch kept: ' + scratch)
        else:
            shutil.rmtree(scratch, ignore_errors=True)

    for sec in sorted(chk.counts):
        print('%-60s %6d checks' % (sec, chk.counts[sec]))
    for o in chk.observed:
        print('OBSERVED: ' + o)
    if chk.fails:
        print('%d FAILURES' % len(chk.fails))
        for f in chk.fails[:60]:
            print('  FAIL ' + f)
        return 1
    print('selftest_py: PASS (%d checks)' % sum(chk.counts.values()))
    return 0


def canon_or_raw(db: proto.TypeDB, c: dict, resp: str) -> typing.List[str]:
    p = resp.split()
    if len(p) >= 2 and p[0] == 'ok':
        try:
            return p[:2] + canon_tokens(db, c, p[2:])
        except Exception:
            return p
    return p[:2]


if __name__ == '__main__':
    sys.exit(main())
