"""Self-test of the C++ codec target runner.   Run from /verif:  /venv/bin/python -m tools.harness.codec.selftest_cpp [-v] [--keep] [--only STD]

Writes a small DSDL tree (root namespace `st`, lookup namespace `dep`) that covers every TYPE kind, builds the driver
for several language standards and checks
  * hand-written wire vectors (Cyphal DSDL rules: little-endian, LSB-first bit packing, implicit alignment of composites,
    delimiter headers, saturation / truncation) for ser and des, with zero / 0xFF / pseudo-random initial buffers,
  * ser -> des -> ser round trips, every truncation of every valid encoding (implicit zero extension: no crash, no error
    other than the representation errors), empty input,
  * `meta` against the type JSON,
  * the error classes (too_small, bad_length, bad_tag, bad_header, rejected, invalid_arg),
  * the runner's crash handling (abort, sanitizer report, timeout; restart and continue).
Exit status 0 iff everything passed for every configuration.
"""
from __future__ import annotations

import concurrent.futures
import os
import shutil
import sys
import tempfile
import time

from . import proto
from .target_cpp import CppTarget, load_db

REPO = os.environ.get('VERIF_REPO', '/repo')

DSDL = {
    'dep/Inner.1.0.dsdl': 'uint8 x\nint16 y\n@sealed\n',
    'dep/Delim.1.0.dsdl': 'uint8 x\nuint8[<=3] z\n@extent 64\n',
    'st/Bits.1.0.dsdl': ('uint3 a\nuint3 b\nbool c\nvoid1\n'
                         'uint8 K = 7\nint16 NEG = -5\nbool FLAG = true\nfloat32 PI = 3.25\nfloat64 E = 0.5\n@sealed\n'),
    'st/Prims.1.0.dsdl': ('truncated uint5 tu\nsaturated uint5 su\nsaturated int7 si\ntruncated uint12 tu12\n'
                          'saturated int12 si12\nuint64 u64\nint64 i64\nuint17 u17\n@sealed\n'),
    'st/1234.Floats.1.0.dsdl': 'float16 h\nfloat32 f\nfloat64 d\ntruncated float16 th\n@sealed\n',
    'st/Arrays.1.0.dsdl': ('uint8[3] fa\nbool[10] fb\nbool[<=9] vb\nuint16[<=4] vu\ndep.Inner.1.0[2] fi\n'
                           'dep.Inner.1.0[<=2] vi\n@sealed\n'),
    'st/Nest.1.0.dsdl': 'dep.Inner.1.0 s\ndep.Delim.1.0 d\ndep.Delim.1.0[<=2] vd\nuint8 tail\n@extent 512\n',
    'st/Un.1.0.dsdl': '@union\nuint8 a\ndep.Inner.1.0 v\nuint16[<=3] w\ndep.Delim.1.0 dl\nfloat32 f\n@sealed\n',
    'st/300.Svc.1.0.dsdl': 'uint8 q\nst.Un.1.0 u\n@sealed\n---\nuint8[<=5] r\nbool ok\n@extent 128\n',
    'st/Empty.1.0.dsdl': '@sealed\n',
}


def pack(items) -> str:
    """Independent reference bit packer: items are (value, width) or 'align'; LSB first, little-endian; -> hex."""
    bits = []
    for it in items:
        if it == 'align':
            while len(bits) % 8:
                bits.append(0)
            continue
        v, w = it
        v &= (1 << w) - 1
        bits += [(v >> i) & 1 for i in range(w)]
    while len(bits) % 8:
        bits.append(0)
    return bytes(sum(bits[i + j] << j for j in range(8)) for i in range(0, len(bits), 8)).hex()


F1 = '3f800000'          # 1.0f
D1 = '3ff0000000000000'  # 1.0

# (type id, tokens given to ser, expected wire hex ('' = empty), tokens expected back from des of that wire)
VECTORS = [
    # uint3 a=5 | uint3 b=2 << 3 | bool c << 6  ->  0b0_1_010_101 = 0x55 ; with c=0 -> 0x15 (task statement example)
    ('st.Bits.1.0', '5 2 1', '55', '5 2 1'),
    ('st.Bits.1.0', '5 2 0', '15', '5 2 0'),
    # saturated uint3: 200 -> 7; second field 9 -> 7:   7 | 7<<3 = 0x3f
    ('st.Bits.1.0', '200 9 0', '3f', '7 7 0'),
    # tu=1 su=2 si=-3 tu12=4 si12=-5 u64=6 i64=-7 u17=8 ; byte0 = 1 | (2&7)<<5 = 0x41, byte1 = 0 | (0x7d&0x3f)<<2 = 0xf4 ...
    ('st.Prims.1.0', '1 2 -3 4 -5 6 -7 8', '41f40960ff0d00000000000000f2ffffffffffffff110000', '1 2 -3 4 -5 6 -7 8'),
    # cast modes: tu 255 -> trunc 31; su 200 -> sat 31; si -100 -> sat -64; tu12 0xFABC -> 0xABC; si12 3000 -> 2047;
    # u17 131072 -> sat 131071
    ('st.Prims.1.0', '255 200 -100 64188 3000 81985529216486895 -2 131072',
     'ff0379f5ffde9b5713cf8a4602fcffffffffffffffffff03', '31 31 -64 2748 2047 81985529216486895 -2 131071'),
    ('st.Prims.1.0', '0 0 0 0 0 18446744073709551615 -9223372036854775808 0',
     '0000000000' 'fe' 'ffffffffffffff' '01' '00000000000000' '01' '0000',     # u64 at bit 41, i64 sign bit = bit 168
     '0 0 0 0 0 18446744073709551615 -9223372036854775808 0'),
    # 1.0 as f16 = 0x3c00; -2.5f = 0xc0200000; 1.0 = 0x3ff0...; all little-endian
    ('st.Floats.1.0', '%s c0200000 %s %s' % (F1, D1, F1), '003c' '000020c0' '000000000000f03f' '003c',
     '%s c0200000 %s %s' % (F1, D1, F1)),
    # 1e6f = 0x49742400: saturated float16 -> 65504 = 0x7bff (reads back 0x477fe000); truncated float16 -> +inf 0x7c00
    ('st.Floats.1.0', '49742400 0 0 49742400', 'ff7b' '00000000' '0000000000000000' '007c', '477fe000 0 0 7f800000'),
    # fa | fb bits 0..9 | vb: prefix 3 (unaligned, bit 10), 1 1 0 | vu: prefix 2, 500, 600 | align | fi | vi: prefix 1
    ('st.Arrays.1.0', '1 2 3  1 0 1 0 1 0 1 0 1 1  3 1 1 0  2 500 600  7 -2 8 300  1 9 -1',
     '010203' '550f4c803e004b00' '07feff' '082c01' '01' '09ffff',
     '1 2 3 1 0 1 0 1 0 1 0 1 1 3 1 1 0 2 500 600 7 -2 8 300 1 9 -1'),
    ('st.Arrays.1.0', '0 0 0  0 0 0 0 0 0 0 0 0 0  0  0  0 0 0 0  0', '000000' '00000000' '000000' '000000' '00',
     '0 0 0 0 0 0 0 0 0 0 0 0 0 0 0 0 0 0 0 0'),
    # s | delimiter header 4 + (x=5, z=[1,2]) | vd: count 1, header 2 + (9, []) | tail
    ('st.Nest.1.0', '7 -2  5 2 1 2  1 9 0  170', '07feff' '04000000' '05020102' '01' '02000000' '0900' 'aa',
     '7 -2 5 2 1 2 1 9 0 170'),
    ('st.Un.1.0', '0 9', '0009', '0 9'),
    ('st.Un.1.0', '1 7 -2', '0107feff', '1 7 -2'),
    ('st.Un.1.0', '2 1 500', '0201f401', '2 1 500'),
    ('st.Un.1.0', '3 5 1 1', '03' '03000000' '050101', '3 5 1 1'),
    ('st.Un.1.0', '4 %s' % F1, '040000803f', '4 %s' % F1),
    ('st.Svc.Request.1.0', '3 0 9', '030009', '3 0 9'),
    ('st.Svc.Response.1.0', '2 1 2 1', '02010201', '2 1 2 1'),
    ('st.Svc.Response.1.0', '0 0', '0000', '0 0'),
    ('st.Empty.1.0', '', '', ''),
    ('dep.Inner.1.0', '255 -32768', 'ff0080', '255 -32768'),
    ('dep.Delim.1.0', '1 3 4 5 6', '0103040506', '1 3 4 5 6'),
]

# the packer must agree with the literals above (guards against typos in either)
PACK_CHECKS = [
    ('41f40960ff0d00000000000000f2ffffffffffffff110000',
     [(1, 5), (2, 5), (-3, 7), (4, 12), (-5, 12), (6, 64), (-7, 64), (8, 17)]),
    ('ff0379f5ffde9b5713cf8a4602fcffffffffffffffffff03',
     [(31, 5), (31, 5), (-64, 7), (0xABC, 12), (2047, 12), (0x0123456789ABCDEF, 64), (-2, 64), (0x1FFFF, 17)]),
    ('0000000000feffffffffffffff0100000000000000010000',
     [(0, 41), ((1 << 64) - 1, 64), (-(1 << 63), 64), (0, 17)]),
    ('010203550f4c803e004b0007feff082c010109ffff',
     [(1, 8), (2, 8), (3, 8)] + [(b, 1) for b in (1, 0, 1, 0, 1, 0, 1, 0, 1, 1)] +
     [(3, 8), (1, 1), (1, 1), (0, 1), (2, 8), (500, 16), (600, 16), 'align', (7, 8), (-2, 16), (8, 8), (300, 16),
      'align', (1, 8), (9, 8), (-1, 16)]),
    ('55', [(5, 3), (2, 3), (1, 1), (0, 1)]),
]

# (type id, prior, input hex, expected response)   -- deserialisation only
DES_CASES = [
    ('st.Un.1.0', 'fresh', '05', 'err bad_tag'),
    ('st.Un.1.0', 'fresh', 'ff', 'err bad_tag'),
    ('st.Un.1.0', 'fresh', '0204', 'err bad_length'),
    ('st.Arrays.1.0', 'fresh', '010203' '0028', 'err bad_length'),            # vb prefix = 10 > 9 (bits 10..17)
    # future minor version of Delim inside Nest: header 6, two unknown trailing bytes are skipped
    ('st.Nest.1.0', 'fresh', '07feff' '06000000' '05020102eeee' '00' 'aa', 'ok 15 7 -2 5 2 1 2 0 170'),
    # older/shorter Delim: header 1 -> z is zero-extended (empty), NOT read from the bytes that follow
    ('st.Nest.1.0', 'fresh', '07feff' '01000000' '05' '00' 'aa', 'ok 10 7 -2 5 0 0 170'),
    # delimiter header larger than the remaining input
    ('st.Nest.1.0', 'fresh', '07feff' '09000000' '0500', 'err bad_header'),
    ('st.Nest.1.0', 'fresh', '07feff' 'ffffffff' '0500', 'err bad_header'),
    # implicit zero extension: empty and short inputs
    ('st.Bits.1.0', 'fresh', '-', 'ok 0 0 0 0'),
    ('st.Prims.1.0', 'poison', '-', 'ok 0 0 0 0 0 0 0 0 0'),
    ('st.Floats.1.0', 'fresh', '003c', 'ok 2 %s 0 0 0' % F1),
    ('st.Nest.1.0', 'fresh', '-', 'ok 0 0 0 0 0 0 0'),
    ('st.Un.1.0', 'fresh', '-', 'ok 0 0 0'),
    ('st.Empty.1.0', 'fresh', 'aabb', 'ok 0'),
    # NaN payloads are preserved bit-exactly by float32
    ('st.Un.1.0', 'fresh', '04010080ff', 'ok 5 4 ff800001'),
    # longer input than needed: consumed size reported, rest ignored
    ('st.Bits.1.0', 'fresh', '55aabbcc', 'ok 1 5 2 1'),
    # prior state must not leak: long arrays first, then short ones
    ('st.Arrays.1.0', 'prev:010203550f4c803e004b0007feff082c010109ffff', '000000' '00000000' '000000' '000000' '00',
     'ok 14 0 0 0 0 0 0 0 0 0 0 0 0 0 0 0 0 0 0 0 0'),
    ('st.Un.1.0', 'prev:0203010002000300', '0009', 'ok 2 0 9'),
    ('st.Un.1.0', 'prev:0009', '0201f401', 'ok 4 2 1 500'),
    ('st.Un.1.0', 'prev:05', '0107feff', 'ok 4 1 7 -2'),
    ('st.Un.1.0', 'prev:-', '040000803f', 'ok 5 4 %s' % F1),
]

# (request, expected response)   -- error classes of the serialiser / the driver itself
SER_CASES = [
    ('ser st.Un.1.0 13 z 7', 'err rejected'),                        # invalid tag cannot be constructed in C++
    ('ser st.Un.1.0 13 z 2 4 1 2 3 4', 'err bad_length'),             # uint16[<=3] with 4 elements
    ('ser st.Arrays.1.0 29 z 0 0 0  0 0 0 0 0 0 0 0 0 0  10 1 1 1 1 1 1 1 1 1 1  0  0 0 0 0  0', 'err bad_length'),
    ('ser st.Svc.Response.1.0 7 z 6 1 2 3 4 5 6 1', 'err bad_length'),
    ('ser st.Un.1.0 12 z 0 9', 'err too_small'),                     # 2 bytes needed, but the maximum (13) is demanded
    ('ser st.Bits.1.0 0 z 5 2 1', 'err too_small'),
    ('ser st.Prims.1.0 23 z 1 2 -3 4 -5 6 -7 8', 'err too_small'),
    ('ser st.Nest.1.0 10 z 7 -2  5 0  0  170', 'err too_small'),    # generated C++ demands the maximal size up front
    ('ser st.Bits.1.0 1 z 5 2', 'err invalid_arg'),                  # missing token
    ('ser st.Bits.1.0 1 z 5 2 1 1', 'err invalid_arg'),              # surplus token
    ('ser st.Bits.1.0 1 z 5 x 1', 'err invalid_arg'),
    ('ser st.Bits.1.0 1 z 5 -2 1', 'err invalid_arg'),               # sign on an unsigned token
    ('ser st.Bits.1.0 1 q 5 2 1', 'err invalid_arg'),                # bad fill
    ('ser st.Bits.1.0 1 z 256 2 1', 'err rejected'),                 # does not fit uint8_t storage
    ('ser st.Bits.1.0 1 z 5 2 2', 'err rejected'),                   # bool
    ('ser st.Prims.1.0 24 z 1 2 -129 4 -5 6 -7 8', 'err rejected'),  # int8_t storage
    ('ser st.Prims.1.0 24 z 1 2 -3 4 -5 18446744073709551616 -7 8', 'err invalid_arg'),   # > 2^64-1: not a token
    ('ser st.Floats.1.0 16 z 100000000 0 0 0', 'err rejected'),      # 33-bit pattern for a float
    ('ser st.Nope.1.0 1 z', 'err invalid_arg'),
    ('des st.Nope.1.0 fresh -', 'err invalid_arg'),
    ('meta st.Nope.1.0', 'err invalid_arg'),
    ('des st.Bits.1.0 fresh 5', 'err invalid_arg'),                  # odd number of hex digits
    ('des st.Bits.1.0 fresh zz', 'err invalid_arg'),
    ('des st.Bits.1.0 stale 55', 'err invalid_arg'),
    ('frobnicate st.Bits.1.0', 'err invalid_arg'),
    ('ser st.Empty.1.0 0 z', 'ok 0 -'),
    ('ser st.Empty.1.0 3 f', 'ok 0 -'),
    # bytes past `size` are untouched, padding/void bits inside are zeroed whatever the buffer held
    ('ser st.Bits.1.0 1 f 5 2 0', 'ok 1 15'),
    ('ser st.Bits.1.0 4 r99 5 2 1', 'ok 1 55'),
]

CONFIGS = [
    ('c++14', {'std': 'c++14'}),
    ('c++17', {'std': 'c++17'}),
    ('c++17-pmr', {'std': 'c++17-pmr'}),
    ('c++20', {'std': 'c++20'}),
    ('c++17/clang++/sanitize/asserts/little', {'std': 'c++17', 'cxx': 'clang++', 'sanitize': True,
                                              'enable_serialization_asserts': True, 'target_endianness': 'little'}),
    ('c++14/g++/sanitize/leak-check-each', {'std': 'c++14', 'cxx': 'g++', 'sanitize': True, 'leak_check_each': True}),
]


class Checker:
    def __init__(self, label: str, verbose: bool):
        self.label, self.verbose = label, verbose
        self.n = 0
        self.fails: list = []

    def eq(self, what: str, got, want):
        self.n += 1
        if got != want:
            self.fails.append('%s: %s\n      got  %r\n      want %r' % (self.label, what, got, want))
        elif self.verbose:
            print('    ok  %s: %s -> %s' % (self.label, what, got))

    def true(self, what: str, cond: bool, detail=''):
        self.n += 1
        if not cond:
            self.fails.append('%s: %s %s' % (self.label, what, detail))


def norm(tokens: str) -> str:
    return ' '.join(tokens.split())


def run_config(label: str, options: dict, dirs, db: proto.TypeDB, base: str, verbose: bool):
    ck = Checker(label, verbose)
    opts = dict(options)
    opts['extra_cxxflags'] = ['-DDRV_SELFTEST_CRASH=1']      # adds the `boom` / `hang` / `oob` test commands
    tgt = CppTarget(opts)
    wd = os.path.join(base, 'wd-' + ''.join(ch if ch.isalnum() else '_' for ch in label))
    t0 = time.time()
    ok, log = tgt.build(dirs, db, wd, REPO)
    tb = time.time() - t0
    if not ok:
        ck.fails.append('%s: BUILD FAILED\n%s' % (label, log[-6000:]))
        return ck, tb, 0.0
    ck.true('no compiler warnings from the driver itself', 'driver.cpp:' not in log, log[-3000:])
    t0 = time.time()

    # --- meta -------------------------------------------------------------------------------------
    ids = db.ids()
    for tid, resp in zip(ids, tgt.run(['meta ' + tid for tid in ids])):
        c = db.comp(tid)
        want = ['ok', 'extent_bytes=%d' % (c['extent_bits'] // 8), 'buffer_bytes=%d' % ((c['meta']['max_bits'] + 7) // 8),
                'full_name=' + c['full_name'], 'major=%d' % c['major'], 'minor=%d' % c['minor']]
        port = c['fixed_port_id']
        if c['service_part']:      # astdump reports null for service parts; the generated C++ carries the service's id
            port = 300
        want.append('port_id=%s' % ('none' if port is None else port))
        if c['kind'] == 'union':
            want.append('union_count=%d' % len(c['fields']))
        for k in c['constants']:
            v = k['value']
            if k['type']['k'] == 'bool':
                tok = '1' if v == 'true' else '0'
            elif k['type']['k'] == 'float':
                num, den = (v.split('/') + ['1'])[:2]
                x = int(num) / int(den)
                tok = '%x' % (proto.f64_bits(x) if k['type']['w'] == 64 else proto.f32_bits(x))
            else:                      # astdump prints every numeric constant as <num>/<den>
                num, den = (v.split('/') + ['1'])[:2]
                tok = str(int(num) // int(den))
            want.append('const.%s=%s' % (k['name'], tok))
        ck.eq('meta ' + tid, resp, ' '.join(want))

    # --- wire vectors: ser with three initial buffer contents, des, round trip -----------------------
    reqs, exp = [], []
    for tid, toks, wire, back in VECTORS:
        cap = (db.comp(tid)['meta']['max_bits'] + 7) // 8
        want_ser = 'ok %d %s' % (len(wire) // 2, wire or '-')
        for fill, extra in (('z', 0), ('f', 0), ('r12345', 3)):
            reqs.append('ser %s %d %s %s' % (tid, cap + extra, fill, toks))
            exp.append(want_ser)
        reqs.append('des %s fresh %s' % (tid, wire or '-'))
        exp.append(norm('ok %d %s' % (len(wire) // 2, back)))
        reqs.append('ser %s %d z %s' % (tid, cap, back))      # canonical value -> same wire
        exp.append(want_ser)
    for rq, rs, ex in zip(reqs, tgt.run(reqs), exp):
        ck.eq(rq, rs, ex)

    # --- des / ser special cases ------------------------------------------------------------------------
    reqs = ['des %s %s %s' % (tid, prior, hx) for tid, prior, hx, _ in DES_CASES] + [rq for rq, _ in SER_CASES]
    exp = [e for *_x, e in DES_CASES] + [e for _rq, e in SER_CASES]
    for rq, rs, ex in zip(reqs, tgt.run(reqs), exp):
        ck.eq(rq, rs, ex)

    # --- every truncation of every valid encoding (and one extra zero byte) decodes; re-encoding the result and
    #     decoding again is a fixpoint ---------------------------------------------------------------------------
    reqs, meta = [], []
    for tid, _toks, wire, _back in VECTORS:
        for n in range(0, len(wire) // 2 + 1):
            reqs.append('des %s fresh %s' % (tid, wire[:2 * n] or '-'))
            meta.append(tid)
    resps = tgt.run(reqs)
    ok_err = ('err bad_length', 'err bad_tag', 'err bad_header')
    again, again_meta = [], []
    for rq, rs, tid in zip(reqs, resps, meta):
        good = rs.startswith('ok ') or rs in ok_err
        ck.true('truncation: ' + rq, good, '-> ' + rs)
        if rs.startswith('ok '):
            n_in = 0 if rq.endswith(' -') else len(rq.split()[-1]) // 2
            ck.true('consumed <= input: ' + rq, int(rs.split()[1]) <= n_in, '-> ' + rs)
            cap = (db.comp(tid)['meta']['max_bits'] + 7) // 8
            again.append('ser %s %d f %s' % (tid, cap, ' '.join(rs.split()[2:])))
            again_meta.append((tid, rs))
    resps2 = tgt.run(again)
    third, third_meta = [], []
    for rq, rs, (tid, first) in zip(again, resps2, again_meta):
        ck.true('re-encode of a decoded value: ' + rq, rs.startswith('ok '), '-> ' + rs)
        if rs.startswith('ok '):
            third.append('des %s fresh %s' % (tid, rs.split()[2]))
            third_meta.append(' '.join(first.split()[2:]))
    for rq, rs, first_tokens in zip(third, tgt.run(third), third_meta):
        ck.eq('fixpoint ' + rq, ' '.join(rs.split()[2:]) if rs.startswith('ok ') else rs, first_tokens)

    # --- the driver's buffer fill equals proto.fill_bytes ------------------------------------------------
    fills = [(n, f) for n in (0, 1, 7, 300) for f in ('z', 'f', 'r0', 'r1', 'r12345', 'r4294967295', 'r18446744073709551615')]
    for (n, f), rs in zip(fills, tgt.run(['fill %d %s' % nf for nf in fills])):
        ck.eq('fill %d %s' % (n, f), rs, 'ok %d %s' % (n, proto.fill_bytes(f, n).hex() or '-'))

    # --- runner: crash handling -------------------------------------------------------------------------
    seq = ['ser st.Bits.1.0 1 z 5 2 1', 'boom', 'ser st.Bits.1.0 1 z 5 2 0', '', 'oob', 'des st.Bits.1.0 fresh 55']
    rs = tgt.run(seq, timeout=60)
    ck.eq('crash seq [0]', rs[0], 'ok 1 55')
    ck.true('crash seq [1] abort reported', rs[1].startswith('crash '), rs[1])
    ck.eq('crash seq [2] driver restarted', rs[2], 'ok 1 15')
    ck.eq('crash seq [3] empty request answered by the runner', rs[3], 'err invalid_arg')
    if options.get('sanitize'):
        ck.true('crash seq [4] heap overflow seen by ASan', rs[4].startswith('crash ') and 'AddressSanitizer' in rs[4], rs[4])
    else:
        ck.true('crash seq [4] answered', rs[4].startswith('crash ') or rs[4].startswith('ok'), rs[4])
    ck.eq('crash seq [5] continues', rs[5], 'ok 1 5 2 1')
    rs = tgt.run(['hang', 'ser st.Bits.1.0 1 z 5 2 1'], timeout=1.5)
    ck.eq('timeout', rs, ['crash timeout', 'ok 1 55'])
    if options.get('sanitize'):
        rs = tgt.run(['ser st.Bits.1.0 1 z 5 2 1', 'leak', 'ser st.Bits.1.0 1 z 5 2 0'])
        if options.get('leak_check_each'):
            ck.eq('leak attributed to its request', rs, ['ok 1 55', 'crash leak', 'ok 1 15'])
        else:
            ck.true('leak reported at exit', rs[0] == 'ok 1 55' and rs[1] == 'ok leaked' and rs[2].startswith('crash at_exit')
                    and 'LeakSanitizer' in rs[2], repr(rs))
    return ck, tb, time.time() - t0


def main(argv) -> int:
    verbose = '-v' in argv
    keep = '--keep' in argv
    only = argv[argv.index('--only') + 1] if '--only' in argv else None
    fails = []
    for want, items in PACK_CHECKS:
        if pack(items) != want:
            fails.append('reference packer disagrees with literal %s: %s' % (want, pack(items)))
    base = tempfile.mkdtemp(prefix='cpptgt-selftest-', dir='/tmp')
    try:
        for rel, text in DSDL.items():
            p = os.path.join(base, rel)
            os.makedirs(os.path.dirname(p), exist_ok=True)
            with open(p, 'w') as f:
                f.write(text)
        dirs = [os.path.join(base, 'st'), os.path.join(base, 'dep')]
        db = load_db(dirs)
        if sorted(db.ids()) != sorted({v[0] for v in VECTORS} | {'st.Bits.1.0'}):
            fails.append('type ids from astdump: %s' % sorted(db.ids()))
        # a flavour that cannot be built must say so
        bad = CppTarget({'std': 'cetl++14-17'})
        okb, logb = bad.build(dirs, db, os.path.join(base, 'wd-cetl'), REPO)
        if okb or 'CETL' not in logb:
            fails.append('cetl++14-17 must be refused with a clear message, got: %r %s' % (okb, logb[-300:]))
        configs = [c for c in CONFIGS if only is None or c[0].startswith(only)]
        with concurrent.futures.ThreadPoolExecutor(max_workers=6) as ex:
            futs = [(label, ex.submit(run_config, label, opts, dirs, db, base, verbose)) for label, opts in configs]
            for label, fu in futs:
                ck, tb, tr = fu.result()
                print('%-42s %s  (%d checks, build %.1f s, run %.1f s)' % (label, 'PASS' if not ck.fails else 'FAIL', ck.n, tb, tr))
                fails += ck.fails
    finally:
        if keep:
            print('scratch kept: ' + base)
        else:
            shutil.rmtree(base, ignore_errors=True)
    for f in fails:
        print('FAIL ' + f)
    print('selftest_cpp: %s' % ('PASS' if not fails else '%d FAILURES' % len(fails)))
    return 0 if not fails else 1


if __name__ == '__main__':
    sys.exit(main(sys.argv[1:]))
