"""Shared engine of the codec checks C01 (direction 'ser') and C02 (direction 'des'): proof obligations, extracted
specification vs. pydsdl (two independent references), extracted specification vs. the real generated code of every available
target under an option matrix, falsifier + shrinker, replay.  Later codec checks (C03-C05) can reuse `Campaign.prepare()` to
get (namespace, type db, model, built targets) and the request/compare helpers."""
from __future__ import annotations

import concurrent.futures
import importlib
import json
import os
import shutil
import subprocess
import time
import typing

from tools.lib import core
from tools.harness.codec import dsdlgen, model as modelmod, proto, valgen

HERE = os.path.dirname(os.path.abspath(__file__))
CORPUS = os.path.join(HERE, 'corpus.json')


# ------------------------------------------------------------------------------------------------
# targets
# ------------------------------------------------------------------------------------------------

def target_class(modname: str):
    try:
        mod = importlib.import_module('tools.harness.codec.' + modname)
    except Exception:  # noqa: BLE001  (module absent or broken: the target is simply not available)
        return None
    cls = getattr(mod, 'Target', None)
    if isinstance(cls, type) and issubclass(cls, proto.Target) and cls is not proto.Target:
        return cls
    for v in vars(mod).values():
        if isinstance(v, type) and issubclass(v, proto.Target) and v is not proto.Target:
            return v
    return None


def option_matrix(tier: str, rng, no_float: bool = False) -> typing.List[typing.Tuple[str, dict]]:
    """(module, options) per build.  quick: a covering handful; thorough: the full matrix of DESIGN 5 C01 plus the strata
    enable_override_variable_array_capacity (capacities left at their defaults: behaviour must not change) and - for a
    float-free namespace (no_float) - omit_float_serialization_support."""
    c_all = [{'target_endianness': e, 'enable_serialization_asserts': a} for e in ('any', 'little', 'big') for a in (False, True)]
    cpp_all = [{'target_endianness': e, 'enable_serialization_asserts': a, 'std': s}
               for s in ('c++14', 'c++17', 'c++20', 'c++17-pmr') for e in ('any', 'little', 'big') for a in (False, True)]
    out: typing.List[typing.Tuple[str, dict]] = []
    if tier == 'quick':
        out += [('target_c', {'target_endianness': 'any'}),
                ('target_c', {'target_endianness': 'little', 'enable_serialization_asserts': True}),
                ('target_c', {'target_endianness': 'big', 'sanitize': True}),
                # exactly sized heap buffers + ASan on the little-endian fast paths (memmove of the in-memory image)
                ('target_c', {'target_endianness': 'little', 'sanitize': True})]
        cpp = [{'target_endianness': 'any', 'std': 'c++17'},
               {'target_endianness': 'little', 'enable_serialization_asserts': True, 'std': 'c++17-pmr'},
               {'target_endianness': 'big', 'std': rng.choice(['c++14', 'c++20'])}]
        out += [('target_cpp', o) for o in cpp]
        out += [('target_py', {})]
    else:
        out += [('target_c', o) for o in c_all]
        out += [('target_c', {'target_endianness': 'any', 'sanitize': True}),
                ('target_c', {'target_endianness': 'little', 'enable_serialization_asserts': True, 'sanitize': True})]
        out += [('target_cpp', o) for o in cpp_all]
        out += [('target_cpp', {'target_endianness': 'any', 'std': 'c++17', 'sanitize': True})]
        out += [('target_py', {})]
        out += [('target_c', {'target_endianness': 'any', 'enable_override_variable_array_capacity': True}),
                ('target_c', {'target_endianness': 'little', 'enable_serialization_asserts': True,
                              'enable_override_variable_array_capacity': True}),
                ('target_cpp', {'target_endianness': 'any', 'std': 'c++17', 'enable_override_variable_array_capacity': True})]
        if no_float:
            out += [('target_c', {'target_endianness': 'any', 'omit_float_serialization_support': True}),
                    ('target_c', {'target_endianness': 'little', 'enable_serialization_asserts': True,
                                  'omit_float_serialization_support': True, 'enable_override_variable_array_capacity': True}),
                    ('target_cpp', {'target_endianness': 'any', 'std': 'c++17', 'omit_float_serialization_support': True})]
    return out


def label_of(modname: str, options: dict) -> str:
    return '%s[%s]' % (modname.replace('target_', ''), ','.join('%s=%s' % (k, options[k]) for k in sorted(options)))


# ------------------------------------------------------------------------------------------------
# namespace preparation
# ------------------------------------------------------------------------------------------------

def astdump(ns_dirs: typing.List[str]) -> dict:
    p = subprocess.run([core.PY, os.path.join(HERE, 'astdump.py')] + ns_dirs, stdout=subprocess.PIPE, stderr=subprocess.PIPE, text=True,
                       timeout=300)
    if p.returncode != 0:
        raise RuntimeError('astdump failed: ' + p.stderr[-2000:])
    return json.loads(p.stdout)


def load_corpus() -> dict:
    with open(CORPUS, encoding='utf-8') as f:
        return json.load(f)


class Prepared:
    def __init__(self):
        self.spec: dict = {}
        self.ns_dirs: typing.List[str] = []
        self.db: typing.Optional[proto.TypeDB] = None
        self.model: typing.Optional[modelmod.Model] = None
        self.targets: typing.List[typing.Tuple[str, proto.Target]] = []     # (label, built target)
        self.unavailable: typing.List[str] = []
        self.build_failures: typing.List[typing.Tuple[str, str]] = []
        self.workdir = ''


def build_targets(prep: Prepared, matrix, repo: str, max_workers: int = 6) -> None:
    jobs = []
    for modname, options in matrix:
        cls = target_class(modname)
        lab = label_of(modname, options)
        if cls is None:
            if modname not in prep.unavailable:
                prep.unavailable.append(modname)
            continue
        jobs.append((lab, cls(options)))

    def one(job):
        lab, tgt = job
        wd = os.path.join(prep.workdir, 'build-' + ''.join(ch if ch.isalnum() else '_' for ch in lab))
        try:
            ok, log = tgt.build(prep.ns_dirs, prep.db, wd, repo)
        except Exception as ex:  # noqa: BLE001
            ok, log = False, 'runner raised %r' % (ex,)
        return lab, tgt, ok, log

    with concurrent.futures.ThreadPoolExecutor(max_workers=max_workers) as ex:
        for lab, tgt, ok, log in ex.map(one, jobs):
            if ok:
                prep.targets.append((lab, tgt))
            else:
                prep.build_failures.append((lab, log[-3000:]))


def prepare(spec: dict, workdir: str, exe: str) -> Prepared:
    prep = Prepared()
    prep.spec = spec
    prep.workdir = workdir
    nsroot = os.path.join(workdir, 'dsdl')
    prep.ns_dirs = dsdlgen.write(spec, nsroot)
    prep.db = proto.TypeDB(astdump(prep.ns_dirs))
    prep.model = modelmod.Model(exe, prep.db)
    return prep


# ------------------------------------------------------------------------------------------------
# cases
# ------------------------------------------------------------------------------------------------

class Case:
    __slots__ = ('op', 'tid', 'value', 'data', 'cap', 'fill', 'prior', 'tags', 'req', 'expected', 'origin')

    def __init__(self, op, tid, value=None, data=None, cap=None, fill='z', prior='fresh', tags=(), origin='generated'):
        self.op, self.tid, self.value, self.data, self.cap, self.fill, self.prior = op, tid, value, data, cap, fill, prior
        self.tags = list(tags)
        self.req = ''
        self.expected = ''
        self.origin = origin

    def to_json(self) -> dict:
        d = {'op': self.op, 'tid': self.tid, 'tags': self.tags, 'request': self.req, 'origin': self.origin}
        if self.op == 'ser':
            d.update({'value': self.value, 'cap_bytes': self.cap, 'fill': self.fill})
        else:
            d.update({'hex': self.data.hex() or '-', 'prior': self.prior})
        return d


def make_request(m: modelmod.Model, c: Case) -> str:
    if c.op == 'ser':
        return m.ser_req(c.tid, c.value, c.cap, c.fill)
    return m.des_req(c.tid, c.data, c.prior)


def gen_ser_cases(rng, prep: Prepared, tids: typing.List[str], per_type: int) -> typing.List[Case]:
    cases: typing.List[Case] = []
    for tid in tids:
        c = prep.db.comp(tid)
        maxb = (c['meta']['max_bits'] + 7) // 8
        for i, (v, tags) in enumerate(valgen.gen_values(rng, prep.db, tid, per_type)):
            fill = ['z', 'f', 'r%d' % rng.randrange(1000)][i % 3] if i >= 3 else 'z'
            cases.append(Case('ser', tid, value=v, cap=maxb, fill=fill, tags=tags + ['fill_' + fill[0], 'cap_max']))
            if i in (1, 4):        # capacity strata on a few values per type
                for cap, tg in ((maxb - 1, 'cap_max_minus_1'), (0, 'cap_0'), (maxb + 3, 'cap_max_plus_3')):
                    if cap >= 0 and not (cap == 0 and maxb == 0) and cap != maxb:
                        cases.append(Case('ser', tid, value=v, cap=cap, fill='f', tags=tags + [tg, 'fill_f']))
    return cases


def gen_des_cases(rng, prep: Prepared, tids: typing.List[str], per_type: int, n_values: int) -> typing.List[Case]:
    m = prep.model
    vals = {tid: [v for v, _ in valgen.gen_values(rng, prep.db, tid, n_values)] for tid in tids}
    reqs, idx = [], []
    for tid in tids:
        for v in vals[tid]:
            reqs.append(m.ser_req(tid, v))
            idx.append((tid, v))
    encs: typing.Dict[str, list] = {tid: [] for tid in tids}
    for (tid, v), r in zip(idx, m.run(reqs)):
        t = r.split()
        if t[:1] == ['ok']:
            encs[tid].append((v, bytes.fromhex(t[2] if t[2] != '-' else '')))
    cases: typing.List[Case] = []
    for tid in tids:
        items = list(valgen.gen_bytes(rng, prep.db, tid, per_type, encs[tid]))
        # truncations INSIDE arrays that the generated code copies in bulk (bit-packed bool[], byte[], standard-width primitive
        # arrays) and that start at a non byte-aligned offset: the zero extension of the partially copied last byte is only
        # observable when the destination object was not zero beforehand
        have = {b for b, _ in items}
        extra = 0
        for v, e in sorted(encs[tid], key=lambda x: -len(x[1]))[:3]:
            for (lo, hi, kind) in valgen.bulk_regions(prep.db, tid, v):
                cuts = [c for c in range((lo + 7) // 8, (hi + 7) // 8 + 1) if lo < 8 * c < hi and c <= len(e)]
                for cut in cuts[:2] + cuts[-2:]:
                    if e[:cut] not in have and extra < 10:
                        have.add(e[:cut])
                        extra += 1
                        items.append((e[:cut], ['truncation', 'cut_in_unaligned_bulk_array', 'cut_in_unaligned_' + kind]))
        nonzero = [x for x in encs[tid] if any(x[1])] or encs[tid]
        for i, (b, tags) in enumerate(items):
            # the specified result does not depend on what the destination object held before: every byte string is decoded into
            # a fresh object AND into a 0xA5-poisoned one (C) AND into one that already holds another decoded value (C, C++)
            cases.append(Case('des', tid, data=b, prior='fresh', tags=tags + ['prior_fresh', 'prior_base']))
            cases.append(Case('des', tid, data=b, prior='poison', tags=tags + ['prior_poison', 'prior_variant']))
            if nonzero:
                prev = rng.choice(nonzero)[1]
                cases.append(Case('des', tid, data=b, prior='prev:' + (prev.hex() or '-'), tags=tags + ['prior_prev', 'prior_variant']))
    return cases


def corpus_cases(prep: Prepared, op: str) -> typing.List[Case]:
    cor = load_corpus()
    out = []
    for e in cor.get(op, []):
        if e['tid'] not in prep.db.types:
            continue
        c = prep.db.comp(e['tid'])
        if op == 'ser':
            v, pos = proto.decode_comp(prep.db, c, e['tokens'].split(), 0)
            out.append(Case('ser', e['tid'], value=v, cap=(c['meta']['max_bits'] + 7) // 8, fill=e.get('fill', 'z'),
                            tags=['corpus', 'corpus:' + e['id']], origin='corpus:' + e['id']))
        else:
            out.append(Case('des', e['tid'], data=bytes.fromhex(e['hex'] if e['hex'] != '-' else ''), prior=e.get('prior', 'fresh'),
                            tags=['corpus', 'corpus:' + e['id']], origin='corpus:' + e['id']))
    return out


def applicable(tgt: proto.Target, c: Case) -> bool:
    """Python has no caller-provided buffer: the capacity strata (and the too_small contract) only exist for C and C++."""
    if tgt.name == 'py' and c.op == 'ser':
        # NumPy float16 arrays ARE the storage of float16[] fields in Python: finite values beyond +-65504 are outside the
        # storage range of that target (they become inf when stored, before any serializer runs)
        if any(t.startswith('f16_overflow') for t in c.tags):
            return False
        return 'cap_max' in c.tags or 'corpus' in c.tags
    if c.op == 'des' and 'prior_variant' in c.tags:
        if tgt.name == 'py':
            return False                      # a Python deserializer always builds a new object
        if tgt.name == 'cpp' and 'prior_poison' in c.tags:
            return False                      # the C++ runner treats poison as fresh
    return True


def compare(prep: Prepared, c: Case, expected: str, got: str, mask: typing.Optional[str]) -> bool:
    if c.op == 'ser':
        return modelmod.same_ser(expected, got, mask)
    return modelmod.same_des(prep.db, c.tid, expected, got)


def quiet_nans(db: proto.TypeDB, t: dict, v):
    """signalling NaN patterns -> quiet (CPython's float conversions quieten them; used for the pydsdl reference only)"""
    k = t['k']
    if k == 'float' and v is not None:
        if t['w'] == 64:
            return v | (1 << 51) if (v & 0x7FFFFFFFFFFFFFFF) > 0x7FF0000000000000 else v
        return v | (1 << 22) if (v & 0x7FFFFFFF) > 0x7F800000 else v
    if k in ('farr', 'varr'):
        return [quiet_nans(db, t['elem'], e) for e in v]
    if k == 'ref':
        return quiet_comp(db, db.comp(t['id']), v)
    return v


def quiet_comp(db, c, v):
    if c['kind'] == 'union':
        if 0 <= v['tag'] < len(c['fields']):
            return {'tag': v['tag'], 'value': quiet_nans(db, c['fields'][v['tag']]['type'], v['value'])}
        return v
    return [quiet_nans(db, f['type'], x) for f, x in zip(c['fields'], v)]


def run_pyref(prep: Prepared, cases: typing.List[Case]) -> typing.List[str]:
    doc = {'ns_dirs': prep.ns_dirs, 'db': {'types': list(prep.db.types.values())}, 'cases': []}
    for c in cases:
        if c.op == 'ser':
            doc['cases'].append({'op': 'ser', 'tid': c.tid, 'value': quiet_comp(prep.db, prep.db.comp(c.tid), c.value)})
        else:
            doc['cases'].append({'op': 'des', 'tid': c.tid, 'hex': c.data.hex() or '-'})
    p = subprocess.run([core.PY, os.path.join(HERE, 'pyref.py')], input=json.dumps(doc), stdout=subprocess.PIPE, stderr=subprocess.PIPE,
                       text=True, timeout=1200)
    try:
        return json.loads(p.stdout)['out']
    except Exception:  # noqa: BLE001
        return ['crash pyref failed: ' + (p.stderr[-300:] or p.stdout[-300:])] * len(cases)



# ------------------------------------------------------------------------------------------------
# histories (targets that keep objects alive across calls: Python): aliasing between the results of successive calls
# ------------------------------------------------------------------------------------------------

class History:
    """steps: (request tokens of the step, kind 'ser'|'des'|'any', model request giving the expected answer | None, mask value)"""

    def __init__(self, tid: str, tags: typing.List[str]):
        self.tid, self.tags = tid, tags
        self.steps: typing.List[typing.Tuple[typing.List[str], str, typing.Optional[str], typing.Any]] = []
        self.expected: typing.List[str] = []

    def request(self) -> str:
        return 'hist ' + ' ;; '.join(' '.join(st[0]) for st in self.steps)


def gen_histories(rng, prep: Prepared, tids: typing.List[str], per_type: int = 1) -> typing.List[History]:
    """Two shapes per type; every expected answer is a SINGLE-call answer of the specification.
    decode shape: decode truncated/empty input (zero-extended arrays), overwrite the returned arrays in place, decode again,
      decode other bytes, look at the earlier objects again.
    encode shape: serialize three values of one type keeping every returned fragment, read the earlier fragments again, decode
      zero-copy from them, serialize again, dump / re-serialize the earlier object."""
    m, db = prep.model, prep.db
    hs: typing.List[History] = []
    for tid in tids:
        c = db.comp(tid)
        for _ in range(per_type):
            vals = []
            for mode in ('rand', 'full', 'rand'):
                tags: set = set()
                vals.append(valgen.gen_full(rng, db, c, 0, tags) if mode == 'full' else valgen.gen_comp_value(rng, db, c, mode, tags, None))
                if any(t.startswith(('f16_overflow', 'outside_wire')) for t in tags):
                    vals[-1] = valgen.default_comp(db, c)
            # values on which targets may legitimately differ (float16 ties / subnormals, NaN payloads) would make the later
            # decode-what-you-encoded steps ambiguous: use exactly representable ones here (those strata are covered by the
            # single-call campaign)
            for k, r in enumerate(m.run([m.tok_req('msk', tid, v) for v in vals])):
                t = r.split()
                if t[:1] != ['ok'] or (len(t) > 1 and t[1] != '-' and int(t[1], 16) != 0):
                    vals[k] = valgen.default_comp(db, c)
            toks = [proto.encode_comp(db, c, v) for v in vals]
            sreq = [m.ser_req(tid, v) for v in vals]
            enc = []
            for r in m.run(sreq):
                t = r.split()
                enc.append(bytes.fromhex(t[2] if t[2] != '-' else '') if t[:1] == ['ok'] else None)
            if any(e is None for e in enc):
                continue
            # ---- encode shape
            h = History(tid, ['history_encode'])
            dreq = m.des_req(tid, enc[0])
            h.steps = [(['ser', tid, 'f1'] + toks[0], 'ser', sreq[0], vals[0]),
                       (['ser', tid, 'f2'] + toks[1], 'ser', sreq[1], vals[1]),
                       (['frag', 'f1'], 'ser', sreq[0], vals[0]),
                       (['desfrag', tid, 'f1', 'o1'], 'des', dreq, None),
                       (['ser', tid, 'f3'] + toks[2], 'ser', sreq[2], vals[2]),
                       (['dump', 'o1'], 'des', dreq, None),
                       (['frag', 'f2'], 'ser', sreq[1], vals[1]),
                       (['reser', 'o1', 'f4'], 'ser', sreq[0], vals[0]),
                       (['frag', 'f1'], 'ser', sreq[0], vals[0]),
                       (['frag', 'f3'], 'ser', sreq[2], vals[2])]
            hs.append(h)
            # ---- decode shape: b1 = truncation (possibly to nothing) of a valid encoding, b2 = another valid encoding
            full = enc[1] if len(enc[1]) >= len(enc[0]) else enc[0]
            cuts = [0] + ([rng.choice([1, len(full) // 3, len(full) // 2, max(len(full) - 1, 0)])] if len(full) > 1 else [])
            for cut in cuts:        # the empty input (every array wholly zero-extended) and one cut inside the data
                b1, b2 = full[:cut], enc[2]
                d1, d2 = m.des_req(tid, b1), m.des_req(tid, b2)
                h = History(tid, ['history_decode', 'history_decode_empty_input' if cut == 0 else 'history_decode_truncated_input'])
                h.steps = [(['des', tid, b1.hex() or '-', 'o1'], 'des', d1, None),
                           (['mutate', 'o1'], 'any', None, None),
                           (['des', tid, b1.hex() or '-', 'o2'], 'des', d1, None),
                           (['des', tid, b2.hex() or '-', 'o3'], 'des', d2, None),
                           (['dump', 'o2'], 'des', d1, None),
                           (['mutate', 'o2'], 'any', None, None),
                           (['dump', 'o3'], 'des', d2, None),
                           (['des', tid, b1.hex() or '-', 'o4'], 'des', d1, None),
                           (['reser', 'o3', 'f1'], 'ser', m.ser_req(tid, vals[2]), vals[2])]
                hs.append(h)
    # expected answers: one model run for all steps
    reqs = sorted({st[2] for h in hs for st in h.steps if st[2]})
    ans = dict(zip(reqs, m.run(reqs)))
    for h in hs:
        h.expected = [ans.get(st[2], '') if st[2] else '' for st in h.steps]
    # only histories whose single-call expectations are all successes make sense here
    return [h for h in hs if all(e.startswith('ok') or not st[2] for e, st in zip(h.expected, h.steps))]


def check_history(prep: Prepared, h: History, got: str) -> typing.Optional[dict]:
    """None when every step agrees with the specification; otherwise the first differing step"""
    parts = [p.strip() for p in got.split(';;')]
    if parts[0] != 'ok' or len(parts) != len(h.steps) + 1:
        return {'step': -1, 'problem': 'malformed history answer', 'got': got[:400]}
    if any(p.startswith('err rejected') for p in parts[1:]):
        return None                     # the target cannot hold one of the values: not applicable
    for i, (st, exp, g) in enumerate(zip(h.steps, h.expected, parts[1:])):
        if st[1] == 'any':
            if not g.startswith('ok'):
                return {'step': i, 'request': ' '.join(st[0])[:200], 'expected': 'ok', 'got': g[:300]}
            continue
        if st[1] == 'ser':
            same = g == exp
            if not same:
                r = prep.model.run([prep.model.tok_req('msk', h.tid, st[3])])[0].split()
                same = modelmod.same_ser(exp, g, r[1] if r[:1] == ['ok'] and len(r) > 1 else '')
        else:
            same = modelmod.same_des(prep.db, h.tid, exp, g)
        if not same:
            return {'step': i, 'request': ' '.join(st[0])[:300], 'expected': exp[:400], 'got': g[:400],
                    'steps_before': [' '.join(s[0])[:160] for s in h.steps[:i]]}
    return None


def run_histories(rng, prep: Prepared, stats: dict, per_type: int = 1) -> typing.List[dict]:
    """run the histories on every built target that supports them (Python); returns failures (kind 'history')"""
    tgts = [(lab, t) for lab, t in prep.targets if t.name == 'py']
    if not tgts:
        return []
    hs = gen_histories(rng, prep, prep.db.ids(), per_type)
    out: typing.List[dict] = []
    for lab, tgt in tgts:
        try:
            answers = tgt.run([h.request() for h in hs], timeout=600.0)
        except Exception as ex:  # noqa: BLE001
            answers = ['crash runner raised %r' % (ex,)] * len(hs)
        for h, got in zip(hs, answers):
            stats['history_steps'] = stats.get('history_steps', 0) + len(h.steps)
            for tg in h.tags:
                stats.setdefault('strata', {})[tg] = stats.get('strata', {}).get(tg, 0) + 1
            if got.startswith('crash') or got.startswith('err'):
                bad = {'step': -1, 'problem': 'history request failed', 'got': got[:400]}
            else:
                bad = check_history(prep, h, got)
            if bad and not out:
                out.append({'kind': 'history', 'target': tgt.name, 'label': lab, 'options': tgt.options, 'tags': h.tags,
                            'case': {'op': 'hist', 'tid': h.tid, 'request': h.request(), 'expected_steps': h.expected,
                                     'step_kinds': [st[1] for st in h.steps], 'tags': h.tags},
                            'first_difference': bad,
                            'files': needed_files(prep, h.tid)})
    return out


# ------------------------------------------------------------------------------------------------
# the campaign
# ------------------------------------------------------------------------------------------------

SIZES = {'quick': dict(n_types=28, per_type=36, n_values=10), 'thorough': dict(n_types=40, per_type=300, n_values=40)}


def meta_crosscheck(prep: Prepared) -> typing.Tuple[int, typing.List[dict]]:
    ids = prep.db.ids()
    bad = []
    for tid, r in zip(ids, prep.model.run(['meta ' + t for t in ids])):
        c = prep.db.comp(tid)
        kv = dict(x.split('=') for x in r.split()[1:]) if r.startswith('ok') else {}
        want = {'align': c['meta']['align'], 'bmin': c['meta']['min_bits'], 'bmax': c['meta']['max_bits'],
                'fmin': c['meta']['outer_min_bits'], 'fmax': c['meta']['outer_max_bits'], 'extent': c['extent_bits'],
                'tag_bits': c['meta']['tag_bits'] or 0, 'wf': 1}
        got = {k: int(kv.get(k, -1)) for k in want}
        if got != want:
            bad.append({'tid': tid, 'pydsdl': want, 'spec_Meta': got})
        # array prefix widths
    return len(ids), bad


def adopt_own_findings(chk: core.Check) -> None:
    """known_findings.json is merged by the lead from known_findings.d/*.json; until then read our own file as well."""
    for name in ('C01', 'C02'):
        p = os.path.join(core.VERIF, 'known_findings.d', '%s.json' % name)
        if os.path.exists(p):
            have = {e['id'] for e in chk.known}
            for e in json.load(open(p, encoding='utf-8'))['findings']:
                if e['id'] not in have and chk.prop in e['properties']:
                    chk.known.append(e)


PY_ASSERT = 'F-PY-DES-ASSERT'


def is_py_assert_instance(prep: 'Prepared', tgt: proto.Target, c: 'Case', got: str) -> bool:
    """trigger of F-PY-DES-ASSERT AND the quirk-faithful model (dec_body_pa) reproduces the implementation's answer"""
    if tgt.name != 'py' or c.op != 'des' or 'AssertionError' not in got or 'Bad deserialization' not in got:
        return False
    r = prep.model.run([prep.model.des_req(c.tid, c.data, c.prior, verb='qdes')])[0]
    return r.startswith('err assert')


PMR_MOVE = 'F-CPP-PMR-UNION-MOVE'


def _pmr_moved(db, t, v):
    """what the generated allocator-extended MOVE constructor leaves behind: unions are value-initialised (variant 0, zero)"""
    k = t['k']
    if k == 'farr':
        return [_pmr_moved(db, t['elem'], e) for e in v]
    if k != 'ref':
        return v            # primitives are copied; vectors steal the storage (equal allocators), elements untouched
    c = db.comp(t['id'])
    if c['kind'] == 'union':
        return valgen.default_comp(db, c)
    return [_pmr_moved(db, f['type'], x) for f, x in zip(c['fields'], v)]


def _pmr_built(db, t, v):
    """value actually held by an object the C++ driver builds element by element (emplace_back) under c++17-pmr"""
    k = t['k']
    if k == 'farr':
        return [_pmr_built(db, t['elem'], e) for e in v]
    if k == 'varr':
        out = [_pmr_built(db, t['elem'], e) for e in v]
        n = len(out)
        if t['elem']['k'] == 'ref' and n >= 2:
            j = 1
            while j * 2 <= n - 1:
                j *= 2              # last reallocation of a doubling vector happens when element j is appended
            out = [_pmr_moved(db, t['elem'], e) if i < j else e for i, e in enumerate(out)]
        return out
    if k == 'ref':
        return _pmr_built_comp(db, db.comp(t['id']), v)
    return v


def _pmr_built_comp(db, c, v):
    if c['kind'] == 'union':
        if 0 <= v['tag'] < len(c['fields']):
            return {'tag': v['tag'], 'value': _pmr_built(db, c['fields'][v['tag']]['type'], v['value'])}
        return v
    return [_pmr_built(db, f['type'], x) for f, x in zip(c['fields'], v)]


def _pmr_decoded(db, t, v):
    """what the c++17-pmr deserializer leaves: every element of a variable-length array of composites is decoded into a temporary
    and then moved into the vector with the allocator-extended move constructor"""
    k = t['k']
    if k == 'farr':
        return [_pmr_decoded(db, t['elem'], e) for e in v]
    if k == 'varr':
        out = [_pmr_decoded(db, t['elem'], e) for e in v]
        if t['elem']['k'] == 'ref':
            out = [_pmr_moved(db, t['elem'], e) for e in out]
        return out
    if k == 'ref':
        c = db.comp(t['id'])
        if c['kind'] == 'union':
            if 0 <= v['tag'] < len(c['fields']):
                return {'tag': v['tag'], 'value': _pmr_decoded(db, c['fields'][v['tag']]['type'], v['value'])}
            return v
        return [_pmr_decoded(db, f['type'], x) for f, x in zip(c['fields'], v)]
    return v


def is_pmr_move_des_instance(prep: 'Prepared', tgt: proto.Target, c: 'Case', got: str) -> bool:
    if tgt.name != 'cpp' or tgt.options.get('std') != 'c++17-pmr' or c.op != 'des' or not c.expected.startswith('ok'):
        return False
    comp = prep.db.comp(c.tid)
    et = c.expected.split()
    try:
        v, pos = proto.decode_comp(prep.db, comp, et[2:], 0)
    except (ValueError, IndexError):
        return False
    qv = _pmr_decoded(prep.db, {'k': 'ref', 'id': c.tid}, v)
    if qv == v:
        return False
    pred = ' '.join(['ok', et[1]] + proto.encode_comp(prep.db, comp, qv))
    return modelmod.same_des(prep.db, c.tid, pred, got)


def is_pmr_move_instance(prep: 'Prepared', tgt: proto.Target, c: 'Case', got: str) -> bool:
    """trigger of F-CPP-PMR-UNION-MOVE (c++17-pmr, serialization of an object holding a variable-length array of >= 2
    composites that contain a union) AND the quirk-faithful prediction reproduces the implementation's answer"""
    if tgt.name != 'cpp' or tgt.options.get('std') != 'c++17-pmr' or c.op != 'ser':
        return False
    qv = _pmr_built_comp(prep.db, prep.db.comp(c.tid), c.value)
    if qv == c.value:
        return False
    r = prep.model.run([prep.model.ser_req(c.tid, qv, c.cap, c.fill)])[0]
    return r == got


def run(chk: core.Check, direction: str, generators: typing.List[str], trusted: typing.List[str], replay: typing.Optional[str]) -> int:
    prop = chk.prop
    t_start = time.time()
    adopt_own_findings(chk)
    if replay:
        return run_replay(chk, direction, replay)

    # 1. proof obligations ---------------------------------------------------------------------
    res = core.coq_check(prop, generators)
    chk.proof_coverage(res, trusted)
    broken: typing.List[str] = []
    if not res.ok:
        broken.append('proof obligation: %s %s' % (res.failed_file or 'translator', res.failed_theorem or ''))

    # 2. extracted specification ---------------------------------------------------------------
    ok_model, exe, log = modelmod.build()
    if not ok_model:
        broken.append('specification does not build/extract: ' + log[-400:])

    sizes = SIZES[chk.tier]
    rounds = 1 if chk.tier == 'quick' else 4
    stats: typing.Dict[str, typing.Any] = {'types': 0, 'cases': 0, 'target_runs': 0, 'builds': [], 'unavailable_targets': [],
                                           'pydsdl_compared': 0, 'pydsdl_skipped': 0, 'meta_types_compared': 0,
                                           'responses': {}, 'strata': {}, 'type_strata': {}, 'rejected_by_target': 0, 'not_applicable_to_target': 0}
    distinct = set()
    samples: typing.List[dict] = []
    failures: typing.List[dict] = []
    evaluations = 0
    validated = 0

    for rnd in range(rounds):
        if not ok_model:
            break
        work = core.scratch('c01codec-')
        no_float = chk.tier == 'thorough' and rnd == rounds - 1        # last thorough round: omit_float_serialization_support
        spec = dsdlgen.generate(chk.rng, n_types=sizes['n_types'], no_float=no_float)
        spec['files'].update({k: v for k, v in load_corpus()['files'].items() if not (no_float and 'float' in v)})
        prep = prepare(spec, work, exe)
        db = prep.db
        tids = db.ids()
        stats['types'] += len(tids)
        for tid in tids:
            for f in db.comp(tid)['fields']:
                _type_strata(db, f['type'], stats['type_strata'])
            stats['type_strata']['union' if db.comp(tid)['kind'] == 'union' else 'struct'] = stats['type_strata'].get(
                'union' if db.comp(tid)['kind'] == 'union' else 'struct', 0) + 1
            stats['type_strata']['sealed' if db.comp(tid)['sealed'] else 'delimited'] = stats['type_strata'].get(
                'sealed' if db.comp(tid)['sealed'] else 'delimited', 0) + 1
        stats['dsdlgen'] = spec['stats']

        # 2a. Meta vs pydsdl
        n, bad = meta_crosscheck(prep)
        stats['meta_types_compared'] += n
        for b in bad[:1]:
            failures.append({'kind': 'spec-vs-pydsdl-meta', 'detail': b, 'files': spec['files']})

        # cases + expected (the extracted specification is the oracle)
        if direction == 'ser':
            cases = corpus_cases(prep, 'ser') + gen_ser_cases(chk.rng, prep, tids, sizes['per_type'])
        else:
            cases = corpus_cases(prep, 'des') + gen_des_cases(chk.rng, prep, tids, sizes['per_type'], sizes['n_values'])
        for c in cases:
            c.req = make_request(prep.model, c)
        # the specified answer does not depend on the prior state of the destination: ask the model once per distinct input
        def _key(c):
            return (c.op, c.tid, c.req) if c.op == 'ser' else (c.op, c.tid, c.data)
        reps: typing.Dict[typing.Any, int] = {}
        for i, c in enumerate(cases):
            reps.setdefault(_key(c), i)
        rep_idx = sorted(reps.values())
        answers = dict(zip(rep_idx, prep.model.run([cases[i].req for i in rep_idx])))
        for c in cases:
            r = answers[reps[_key(c)]]
            c.expected = r
            k = ' '.join(r.split()[:2]) if r.startswith('err') else r.split()[0]
            stats['responses'][k] = stats['responses'].get(k, 0) + 1
            for tg in c.tags:
                stats['strata'][tg] = stats['strata'].get(tg, 0) + 1
            if r.startswith('crash'):
                failures.append({'kind': 'model-crash', 'case': c.to_json(), 'got': r, 'files': spec['files']})
        stats['cases'] += len(cases)
        # the code-shaped walker (Codec/Walker.v, extracted) must answer every request exactly like the specification
        wreqs = [('w' + cases[i].req) for i in rep_idx]
        for c, r in zip([cases[i] for i in rep_idx], prep.model.run(wreqs)):
            stats['walker_vs_spec_compared'] = stats.get('walker_vs_spec_compared', 0) + 1
            if r != c.expected:
                failures.append({'kind': 'walker-vs-spec', 'case': c.to_json(), 'spec': c.expected, 'walker': r, 'files': spec['files']})
                break
        masks: typing.Dict[int, str] = {}

        def mask_for(i: int) -> typing.Optional[str]:
            if cases[i].op != 'ser':
                return None
            if i not in masks:
                r = prep.model.run([prep.model.tok_req('msk', cases[i].tid, cases[i].value)])[0].split()
                masks[i] = r[1] if r[:1] == ['ok'] and len(r) > 1 else ''
            return masks[i]

        # 2b. specification vs pydsdl.serialize / deserialize
        sub = [c for c in cases if 'prior_variant' not in c.tags]
        sub = sub if chk.tier == 'quick' else sub[::3]
        ref = run_pyref(prep, sub)
        if direction == 'ser':      # CPython quietens signalling NaNs: the reference is compared on the quietened value
            qexp = prep.model.run([prep.model.ser_req(c.tid, quiet_comp(db, db.comp(c.tid), c.value), c.cap, c.fill) for c in sub])
        else:
            qexp = [c.expected for c in sub]
        for c, r, exp in zip(sub, ref, qexp):
            if r.startswith('skip') or (c.op == 'ser' and exp.startswith('err too_small')):
                stats['pydsdl_skipped'] += 1
                continue
            stats['pydsdl_compared'] += 1
            if c.op == 'ser':
                mask = None
                if r != exp:
                    mr = prep.model.run([prep.model.tok_req('msk', c.tid, c.value)])[0].split()
                    mask = mr[1] if mr[:1] == ['ok'] and len(mr) > 1 else ''
                okc = modelmod.same_ser(exp, r, mask)
            else:
                e2, r2 = exp.split(), r.split()
                if e2[:1] == ['ok'] and r2[:1] == ['ok']:
                    okc = modelmod.same_des(db, c.tid, 'ok 0 ' + ' '.join(e2[2:]), 'ok 0 ' + ' '.join(r2[2:]))
                else:
                    okc = e2[:2] == r2[:2]
            if not okc:
                failures.append({'kind': 'spec-vs-pydsdl', 'case': c.to_json(), 'spec': exp, 'pydsdl': r, 'files': spec['files']})
                break

        # 3. correspondence with the real generated code
        matrix = option_matrix(chk.tier, chk.rng, no_float)
        if direction == 'des':
            # fragmented input (audit 3): deserialize() is handed the same bytes cut into several memoryviews; the support module
            # concatenates them (ZeroExtendingBuffer.__init__, pinned by C14), so the verdict must not depend on the cut.
            # fragment=1 cuts at EVERY byte; the others give 2-5 fragments for the usual message sizes
            frs = [1, chk.rng.choice([2, 3, 5])] if chk.tier == 'quick' else [1, 2, 3, 5, 8]
            matrix = matrix + [('target_py', {'fragment': k}) for k in frs]
        build_targets(prep, matrix, core.REPO)
        stats['unavailable_targets'] = sorted(set(stats['unavailable_targets']) | set(prep.unavailable))
        for lab, logtxt in prep.build_failures:
            failures.append({'kind': 'build-failure', 'target': lab, 'log': logtxt, 'files': spec['files']})
        reqs = [c.req for c in cases]

        def run_target(item):
            lab, tgt = item
            t0 = time.time()
            idx = [i for i, c in enumerate(cases) if applicable(tgt, c)]      # requests a target cannot observe are not sent
            try:
                part = tgt.run([reqs[i] for i in idx], timeout=600.0 if chk.tier == 'quick' else 3000.0)
            except Exception as ex:  # noqa: BLE001
                part = ['crash runner raised %r' % (ex,)] * len(idx)
            out = ['skip not applicable'] * len(reqs)
            for i, r in zip(idx, part):
                out[i] = r
            stats.setdefault('target_wall_s', {})[lab] = round(time.time() - t0, 1)
            return lab, tgt, out, time.time() - t0

        with concurrent.futures.ThreadPoolExecutor(max_workers=6) as ex:
            results = list(ex.map(run_target, prep.targets))
        for lab, tgt, out, dt in results:
            stats['builds'].append(lab)
            stats['target_runs'] += len(out)
            nbad = 0
            for i, (c, got) in enumerate(zip(cases, out)):
                if got.startswith('skip not applicable'):
                    stats['not_applicable_to_target'] += 1
                    continue
                evaluations += 1
                if got.startswith('err rejected') or not applicable(tgt, c):
                    stats['rejected_by_target' if got.startswith('err rejected') else 'not_applicable_to_target'] += 1
                    continue
                validated += 1
                if got == c.expected or compare(prep, c, c.expected, got, mask_for(i) if c.op == 'ser' else None):
                    if not c.expected.startswith('ok') or len(c.tags) > 1:
                        distinct.add((c.tid, c.req))
                    continue
                if chk.is_known(PMR_MOVE) and (is_pmr_move_instance(prep, tgt, c, got) or is_pmr_move_des_instance(prep, tgt, c, got)):
                    stats['known_finding_instances'] = stats.get('known_finding_instances', 0) + 1
                    chk.report_known(PMR_MOVE, 'e.g. %s' % c.req[:120])
                    continue
                if chk.is_known(PY_ASSERT) and is_py_assert_instance(prep, tgt, c, got):
                    stats['known_finding_instances'] = stats.get('known_finding_instances', 0) + 1
                    chk.report_known(PY_ASSERT, 'e.g. %s' % c.req[:120])
                    continue
                nbad += 1
                if nbad == 1:
                    failures.append({'kind': 'correspondence', 'target': tgt.name, 'label': lab, 'options': tgt.options,
                                     'case': c.to_json(), 'expected': c.expected, 'got': got, 'files': spec['files'],
                                     '_prep': prep, '_case': c, '_tgt': tgt})
            if nbad:
                failures[-1]['n_failing_on_this_target'] = nbad
        # histories: several calls in one process, earlier results kept alive and mutated (aliasing across calls)
        hist_fail = run_histories(chk.rng, prep, stats, per_type=1 if chk.tier == 'quick' else 4)
        evaluations += stats.get('history_steps', 0) - stats.get('_hist_counted', 0)
        validated += stats.get('history_steps', 0) - stats.get('_hist_counted', 0)
        stats['_hist_counted'] = stats.get('history_steps', 0)
        failures += hist_fail
        for c in cases[:400:23]:
            if len(samples) < 40:
                samples.append({'request': c.req[:300], 'expected': c.expected[:200], 'tags': c.tags})
        if failures:
            break
        shutil.rmtree(work, ignore_errors=True)

    chk.coverage.update({
        'evaluations': evaluations,
        'distinct_nontrivial': len(distinct),
        'rule': 'one evaluation = one %s request answered by a real generated codec and compared with the extracted specification; '
                'non-trivial = distinct (type, request) pairs whose expected answer is an error or which carry a non-default stratum '
                'tag (boundary / out-of-range / NaN / array length / tag / mutation kind)' % direction,
        'samples': samples,
        'traces_validated_against_impl': validated,
        'distribution': stats,
    })
    chk.notes.append('targets exercised: %s; unavailable runner modules: %s' % (sorted(set(stats['builds'])), stats['unavailable_targets']))
    stats['wall_campaign_s'] = round(time.time() - t_start, 1)

    # verdict ------------------------------------------------------------------------------------
    reported = False
    for f in failures:
        if f['kind'] == 'correspondence':
            small = shrink_failure(f)
            rep = {k: v for k, v in f.items() if not k.startswith('_')}
            rep.update(small)
            rep['broken'] = broken
            rep['what'] = 'generated %s code disagrees with the DSDL wire specification (Spec/Wire.v, extracted)' % f['target']
            chk.violation(rep, found_input=True)
            reported = True
            break
    if not reported:
        for f in failures:
            if f['kind'] == 'history':
                rep = dict(f)
                rep['broken'] = broken
                rep['what'] = ('generated %s code: the results of successive calls in one process influence each other (a returned '
                               'object / fragment aliases memory that a later call rewrites, or that an in-place write of the caller '
                               'leaks into later results); every step is compared with the single-call specification' % f['target'])
                chk.violation(rep, found_input=True)
                reported = True
                break
    if not reported:
        for f in failures:
            rep = {k: v for k, v in f.items() if not k.startswith('_')}
            rep['broken'] = broken
            rep['what'] = {'spec-vs-pydsdl': 'the Coq wire specification disagrees with pydsdl.serialize/deserialize',
                           'spec-vs-pydsdl-meta': 'Spec/Meta.v disagrees with the bit-length numbers pydsdl reports',
                           'build-failure': 'a target driver failed to generate/compile',
                           'walker-vs-spec': 'the code-shaped walker (Codec/Walker.v) disagrees with the specification (Spec/Wire.v)',
                           'model-crash': 'the extracted specification failed on a request'}.get(f['kind'], f['kind'])
            chk.violation(rep, found_input=False)
            reported = True
            break
    if not reported and broken:
        chk.violation({'broken': broken, 'coq_error': res.error_text[-2000:], 'translators': res.translator_msgs,
                       'what': 'proof obligation or specification build no longer checks; the falsifier compared %d answers of the '
                               'generated code with the specification and found no failing input' % validated}, found_input=False)
    return chk.finish()


def _type_strata(db, t, acc: dict) -> None:
    k = t['k']
    key = k
    if k in ('uint', 'int'):
        key = '%s:%s:%s' % (k, 'std' if t['w'] in (8, 16, 32, 64) else 'nonstd', 'sat' if t.get('sat', True) else 'trunc')
        acc['width_%d' % t['w']] = acc.get('width_%d' % t['w'], 0) + 1
    elif k == 'float':
        key = 'float%d:%s' % (t['w'], 'sat' if t.get('sat', True) else 'trunc')
    elif k in ('farr', 'varr'):
        e = t['elem']
        key = '%s_of_%s' % (k, 'bool' if e['k'] == 'bool' else 'composite' if e['k'] == 'ref' else
                            'byte' if e.get('flavor') in ('byte', 'utf8') else 'std_prim' if e.get('w') in (8, 16, 32, 64) else 'nonstd_prim')
        if k == 'varr':
            acc['prefix_%d' % t['prefix_bits']] = acc.get('prefix_%d' % t['prefix_bits'], 0) + 1
        _type_strata(db, e, acc)
    elif k == 'ref':
        key = 'nested_' + ('sealed' if db.comp(t['id'])['sealed'] else 'delimited')
    acc[key] = acc.get(key, 0) + 1


# ------------------------------------------------------------------------------------------------
# shrinking and replay
# ------------------------------------------------------------------------------------------------

def needed_files(prep: Prepared, tid: str) -> typing.Dict[str, str]:
    """the DSDL definitions `tid` needs, closed under "same source file" (a service file holds two composites)"""
    db = prep.db
    need: typing.Set[str] = set()
    todo = [tid]
    while todo:
        t = todo.pop()
        if t in need:
            continue
        need.add(t)
        for fl in db.comp(t)['fields']:
            todo += modelmod.refs_of(fl['type'])
        src = db.comp(t)['source']
        todo += [o for o in db.ids() if db.comp(o)['source'] == src and o not in need]
    srcs = {db.comp(t)['source'] for t in need}
    return {k: v for k, v in prep.spec['files'].items() if k in srcs} or dict(prep.spec['files'])


def still_fails(prep: Prepared, tgt: proto.Target, cands: typing.List[Case]) -> typing.List[bool]:
    for c in cands:
        c.req = make_request(prep.model, c)
    exp = prep.model.run([c.req for c in cands])
    got = tgt.run([c.req for c in cands], timeout=120.0)
    out = []
    for c, e, g in zip(cands, exp, got):
        c.expected = e
        if g.startswith('err rejected') or e.startswith('crash') or not applicable(tgt, c):
            out.append(False)
            continue
        mask = None
        if c.op == 'ser' and e != g:
            r = prep.model.run([prep.model.tok_req('msk', c.tid, c.value)])[0].split()
            mask = r[1] if r[:1] == ['ok'] and len(r) > 1 else ''
        out.append(not (e == g or compare(prep, c, e, g, mask)))
    return out


def shrink_failure(f: dict, budget: int = 12) -> dict:
    prep, cur, tgt = f['_prep'], f['_case'], f['_tgt']
    for _ in range(budget):
        if cur.op == 'ser':
            cands = [Case('ser', cur.tid, value=v, cap=cur.cap, fill=cur.fill, tags=cur.tags, origin=cur.origin)
                     for v in valgen.shrink_comp(prep.db, prep.db.comp(cur.tid), cur.value)]
            cands += [Case('ser', cur.tid, value=cur.value, cap=cur.cap, fill='z', tags=cur.tags, origin=cur.origin)] if cur.fill != 'z' else []
        else:
            cands = [Case('des', cur.tid, data=b, prior=cur.prior, tags=cur.tags, origin=cur.origin) for b in valgen.shrink_bytes(cur.data)]
            cands += [Case('des', cur.tid, data=cur.data, prior='fresh', tags=cur.tags, origin=cur.origin)] if cur.prior != 'fresh' else []
        cands = cands[:400]
        if not cands:
            break
        res = still_fails(prep, tgt, cands)
        nxt = next((c for c, bad in zip(cands, res) if bad), None)
        if nxt is None:
            break
        cur = nxt
    cur.req = make_request(prep.model, cur)
    exp = prep.model.run([cur.req])[0]
    got = tgt.run([cur.req], timeout=60.0)[0]
    files = needed_files(prep, cur.tid)
    return {'case': cur.to_json(), 'expected': exp, 'got': got, 'original_case': f['case'], 'files': files,
            'dsdl_of_failing_type': files.get(prep.db.comp(cur.tid)['source'], '')}


def run_replay(chk: core.Check, direction: str, path: str) -> int:
    doc = json.load(open(path, encoding='utf-8'))
    ok_model, exe, log = modelmod.build()
    if not ok_model or 'case' not in doc or 'files' not in doc:
        print('replay: nothing to re-run (%s)' % ('specification does not build: ' + log[-300:] if not ok_model else doc.get('what', 'broken obligation')))
        if not ok_model or doc.get('kind') == 'broken-obligation':
            res = core.coq_check(chk.prop, [])
            print('proof obligations: %s %s' % ('ok' if res.ok else 'BROKEN', res.error_text[-500:]))
            if not res.ok:
                chk.violation({'broken': ['proof obligation'], 'coq_error': res.error_text[-2000:]}, found_input=False)
        return chk.finish()
    work = core.scratch('c01replay-')
    prep = prepare(dsdlgen.single(doc['files']), work, exe)
    cj = doc['case']
    if cj['op'] == 'hist':
        build_targets(prep, [('target_' + doc.get('target', 'py'), doc.get('options', {}))], core.REPO)
        if not prep.targets:
            chk.violation({'what': 'replay target failed to build', 'log': prep.build_failures}, found_input=False)
            return chk.finish()
        got = prep.targets[0][1].run([cj['request']])[0]
        h = History(cj['tid'], cj.get('tags', []))
        toks, cur = [], []
        for a in cj['request'].split()[1:]:
            if a == ';;':
                toks.append(cur)
                cur = []
            else:
                cur.append(a)
        toks.append(cur)
        h.steps = [(t, k, None, None) for t, k in zip(toks, cj['step_kinds'])]
        h.expected = cj['expected_steps']
        bad = None
        parts = [p.strip() for p in got.split(';;')]
        for i, (st, exp, g) in enumerate(zip(h.steps, h.expected, parts[1:])):
            ok_i = g.startswith('ok') if st[1] == 'any' else (g == exp or (modelmod.same_des(prep.db, h.tid, exp, g) if st[1] == 'des' else False))
            print('step %2d %-40s %s' % (i, ' '.join(st[0])[:40], 'ok' if ok_i else 'DIFFERS: expected %s | got %s' % (exp[:120], g[:120])))
            if not ok_i and bad is None:
                bad = i
        print('verdict        : %s' % ('agree (no longer reproduces)' if bad is None else 'DISAGREE at step %d' % bad))
        chk.coverage.update({'evaluations': len(h.steps), 'distinct_nontrivial': 1, 'samples': [cj], 'traces_validated_against_impl': len(h.steps),
                             'distribution': {'replay': path}, 'obligations': 1, 'discharged': 1})
        if bad is not None:
            chk.violation({'case': cj, 'files': doc['files'], 'target': doc.get('target', 'py'), 'options': doc.get('options', {}),
                           'what': 'replayed history still fails at step %d' % bad}, found_input=True)
        return chk.finish()
    if cj['op'] == 'ser':
        c = Case('ser', cj['tid'], value=cj['value'], cap=cj['cap_bytes'], fill=cj['fill'], tags=cj.get('tags', []))
    else:
        c = Case('des', cj['tid'], data=bytes.fromhex(cj['hex'] if cj['hex'] != '-' else ''), prior=cj.get('prior', 'fresh'), tags=cj.get('tags', []))
    c.req = make_request(prep.model, c)
    exp = prep.model.run([c.req])[0]
    print('replay request : %s' % c.req)
    print('specification  : %s' % exp)
    modname = 'target_' + doc.get('target', 'c')
    matrix = [(modname, doc.get('options', {}))]
    build_targets(prep, matrix, core.REPO)
    if not prep.targets:
        print('target could not be built: %s' % (prep.build_failures or prep.unavailable))
        chk.violation({'what': 'replay target failed to build', 'log': prep.build_failures}, found_input=False)
        return chk.finish()
    lab, tgt = prep.targets[0]
    got = tgt.run([c.req])[0]
    print('%-15s: %s' % (lab[:15], got))
    mask = None
    if c.op == 'ser' and got != exp:
        r = prep.model.run([prep.model.tok_req('msk', c.tid, c.value)])[0].split()
        mask = r[1] if r[:1] == ['ok'] and len(r) > 1 else ''
    same = got == exp or compare(prep, c, exp, got, mask)
    print('verdict        : %s' % ('agree (no longer reproduces)' if same else 'DISAGREE'))
    chk.coverage.update({'evaluations': 1, 'distinct_nontrivial': 1, 'samples': [c.to_json()], 'traces_validated_against_impl': 1,
                         'distribution': {'replay': path}, 'obligations': 1, 'discharged': 1})
    if not same:
        rep = {k: doc[k] for k in ('files', 'target', 'options') if k in doc}
        rep.update({'case': c.to_json(), 'expected': exp, 'got': got, 'what': 'replayed failing input still fails'})
        chk.violation(rep, found_input=True)
    return chk.finish()
