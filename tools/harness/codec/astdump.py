#!/venv/bin/python
"""Dump the pydsdl AST of DSDL root namespaces as JSON (the shared type representation of the codec harness).

usage: astdump.py <root_namespace_dir> [<lookup_dir> ...]      (run with /venv/bin/python; needs pydsdl only)

Output (stdout, JSON):
 {"types": [COMPOSITE, ...]}          every composite of the root namespace AND of the lookup dirs that is reachable,
                                      services appear as two entries (…Request / …Response)
 COMPOSITE = {"id": "ns.sub.T.1.0",   unique key (for service parts "ns.T.Request.1.0")
              "full_name": "ns.sub.T", "short_name": "T", "ns": ["ns","sub"], "major": 1, "minor": 0,
              "service_part": null | "Request" | "Response", "service_id": null | "ns.T.1.0",
              "kind": "struct" | "union", "sealed": bool, "extent_bits": int, "fixed_port_id": int|null,
              "deprecated": bool, "source": "<path relative to its root namespace dir's parent>", "in_root": bool,
              "fields": [{"name": "x" ("" for padding), "type": TYPE}],
              "constants": [{"name":, "type": TYPE, "value": "<int>" | "<num>/<den>" | "true"/"false"}],
              "meta": {"align": int, "min_bits": int, "max_bits": int,         (inner bit length set, WITHOUT delimiter header)
                       "outer_min_bits": int, "outer_max_bits": int,           (as a field of another type; with header if delimited)
                       "tag_bits": int|null}}
 TYPE = {"k":"bool"} | {"k":"uint","w":n,"sat":bool,"flavor":"uint"|"byte"|"utf8"} | {"k":"int","w":n,"sat":bool}
      | {"k":"float","w":16|32|64,"sat":bool} | {"k":"void","w":n}
      | {"k":"farr","n":N,"elem":TYPE} | {"k":"varr","cap":N,"prefix_bits":n,"elem":TYPE,"string_like":bool}
      | {"k":"ref","id":"ns.sub.T.1.0"}
 each TYPE also carries "align", "min_bits", "max_bits" as pydsdl reports them.
"""
import json
import os
import sys

import pydsdl


def _bls(t):
    b = t.bit_length_set
    return {"align": t.alignment_requirement, "min_bits": b.min, "max_bits": b.max}


def type_json(t):
    sat = lambda x: x.cast_mode == pydsdl.PrimitiveType.CastMode.SATURATED  # noqa: E731
    if isinstance(t, pydsdl.BooleanType):
        d = {"k": "bool"}
    elif isinstance(t, pydsdl.UnsignedIntegerType):
        fl = "uint"
        if isinstance(t, getattr(pydsdl, "ByteType", ())):
            fl = "byte"
        elif isinstance(t, getattr(pydsdl, "UTF8Type", ())):
            fl = "utf8"
        d = {"k": "uint", "w": t.bit_length, "sat": sat(t), "flavor": fl}
    elif isinstance(t, pydsdl.SignedIntegerType):
        d = {"k": "int", "w": t.bit_length, "sat": sat(t)}
    elif isinstance(t, pydsdl.FloatType):
        d = {"k": "float", "w": t.bit_length, "sat": sat(t)}
    elif isinstance(t, pydsdl.VoidType):
        d = {"k": "void", "w": t.bit_length}
    elif isinstance(t, pydsdl.FixedLengthArrayType):
        d = {"k": "farr", "n": t.capacity, "elem": type_json(t.element_type)}
    elif isinstance(t, pydsdl.VariableLengthArrayType):
        d = {"k": "varr", "cap": t.capacity, "prefix_bits": t.length_field_type.bit_length,
             "elem": type_json(t.element_type), "string_like": bool(t.string_like)}
    elif isinstance(t, pydsdl.CompositeType):
        d = {"k": "ref", "id": comp_id(t)}
    else:
        raise ValueError("unsupported type %r" % (t,))
    d.update(_bls(t))
    return d


def comp_id(t):
    return "%s.%d.%d" % (t.full_name, t.version.major, t.version.minor)


def const_value(c):
    v = c.value.native_value
    if isinstance(v, bool):
        return "true" if v else "false"
    if isinstance(v, int):
        return str(v)
    if hasattr(v, "numerator"):
        return "%d/%d" % (v.numerator, v.denominator)
    if isinstance(v, str):   # string constant of a uint8 type: single character
        return str(ord(v)) if len(v) == 1 else repr(v)
    return repr(v)


def comp_json(t, roots, in_root, service_part=None, service_id=None):
    inner = t.inner_type if isinstance(t, pydsdl.DelimitedType) else t
    ib = inner.bit_length_set
    src = t.source_file_path
    rel = None
    for r in roots:
        try:
            rel = os.path.relpath(str(src), os.path.dirname(os.path.abspath(r)))
            if not rel.startswith('..'):
                break
        except ValueError:
            pass
    return {
        "id": comp_id(t), "full_name": t.full_name, "short_name": t.short_name, "ns": list(t.namespace_components) if hasattr(t, 'namespace_components') else t.full_namespace.split('.'),
        "major": t.version.major, "minor": t.version.minor,
        "service_part": service_part, "service_id": service_id,
        "kind": "union" if isinstance(inner, pydsdl.UnionType) else "struct",
        "sealed": not isinstance(t, pydsdl.DelimitedType), "extent_bits": t.extent,
        "fixed_port_id": t.fixed_port_id if service_part is None else None, "deprecated": bool(t.deprecated),
        "source": rel, "in_root": in_root,
        "fields": [{"name": ("" if isinstance(f, pydsdl.PaddingField) else f.name), "type": type_json(f.data_type)} for f in t.fields],
        "constants": [{"name": c.name, "type": type_json(c.data_type), "value": const_value(c)} for c in t.constants],
        "meta": {"align": t.alignment_requirement, "min_bits": ib.min, "max_bits": ib.max,
                 "outer_min_bits": t.bit_length_set.min, "outer_max_bits": t.bit_length_set.max,
                 "tag_bits": (inner.tag_field_type.bit_length if isinstance(inner, pydsdl.UnionType) else None)},
    }


def main(argv):
    root, lookups = argv[0], argv[1:]
    top = pydsdl.read_namespace(root, lookups, allow_unregulated_fixed_port_id=True)
    roots = [root] + list(lookups)
    out, seen = [], set()

    def visit(t, in_root):
        if isinstance(t, pydsdl.ServiceType):
            sid = comp_id(t)
            for part, sub in (("Request", t.request_type), ("Response", t.response_type)):
                if comp_id(sub) not in seen:
                    seen.add(comp_id(sub))
                    out.append(comp_json(sub, roots, in_root, part, sid))
                    walk_fields(sub)
            return
        if comp_id(t) in seen:
            return
        seen.add(comp_id(t))
        out.append(comp_json(t, roots, in_root))
        walk_fields(t)

    def walk_type(dt):
        if isinstance(dt, pydsdl.ArrayType):
            walk_type(dt.element_type)
        elif isinstance(dt, pydsdl.CompositeType):
            visit(dt, False)

    def walk_fields(t):
        for f in t.fields:
            walk_type(f.data_type)

    for t in top:
        visit(t, True)
    # in_root must be True for root types even if first reached as a dependency
    root_ids = set()
    for t in top:
        if isinstance(t, pydsdl.ServiceType):
            root_ids.update({comp_id(t.request_type), comp_id(t.response_type)})
        else:
            root_ids.add(comp_id(t))
    for c in out:
        c["in_root"] = c["id"] in root_ids
    json.dump({"types": out}, sys.stdout, indent=1)
    return 0


if __name__ == "__main__":
    sys.exit(main(sys.argv[1:]))
