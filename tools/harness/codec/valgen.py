"""Values and byte strings for the codec checks, from one seeded RNG (abstract values as in proto.py).

    valgen.gen_values(rng, db, tid, n)                 -> [(value, [stratum tags])]
    valgen.gen_bytes(rng, db, tid, n, encodings)       -> [(bytes, [stratum tags])]
         encodings: [(value, bytes)] valid encodings of the type (e.g. the model's answers for gen_values)
    valgen.default_value(db, t) / default_comp(db, c)  all-zero value
    valgen.storage_range(t)                            inclusive (lo, hi) of the generated field's storage type
    valgen.layout(db, tid, value)                      [(bit_offset, width, kind)] of every item of the valid encoding
    valgen.shrink_value / shrink_bytes                 candidates for greedy shrinking

Value strata: zero, in range, wire-range boundaries, just outside the wire range but inside the storage range (must saturate /
truncate), extremes of the storage range, float NaN/inf/subnormal/tie/overflow patterns, arrays at 0/cap/cap+1 elements,
invalid union tags.  Byte strata: valid encodings, every truncation, garbage extensions, bit flips biased to prefix / tag /
header positions, header </=/> nested size and > remaining, random, empty."""
from __future__ import annotations

import typing

from . import proto

F32_SPECIAL = [0x00000000, 0x80000000, 0x3F800000, 0xBF800000, 0x7F800000, 0xFF800000, 0x7FC00000, 0xFFC00001, 0x7F800001,
               0x00000001, 0x807FFFFF, 0x00800000, 0x7F7FFFFF, 0xFF7FFFFF,
               0x477FE000, 0x477FE001, 0x477FF000, 0x47800000, 0xC7800000, 0x477FEFFF,      # around 65504 / 65520 / 65536
               0x3F801000, 0x3F803000, 0x3F800FFF, 0x3F801001, 0xBF801000,                  # float16 ties and neighbours
               0x38800000, 0x387FC000, 0x33800000, 0x33000000, 0x33000001, 0x32FFFFFF, 0x38000000, 0x387FE000, 0x35801000]
F64_SPECIAL = [0, 1 << 63, 0x3FF0000000000000, 0x7FF0000000000000, 0xFFF0000000000000, 0x7FF8000000000000, 0x7FF0000000000001,
               1, 0x000FFFFFFFFFFFFF, 0x0010000000000000, 0x7FEFFFFFFFFFFFFF, 0xFFEFFFFFFFFFFFFF, 0x400921FB54442D18]


def std_width(w: int) -> int:
    return 8 if w <= 8 else 16 if w <= 16 else 32 if w <= 32 else 64


def storage_range(t: dict) -> typing.Tuple[int, int]:
    k = t['k']
    if k == 'bool':
        return 0, 1
    s = std_width(t['w'])
    if k == 'uint':
        return 0, 2 ** s - 1
    if k == 'int':
        return -2 ** (s - 1), 2 ** (s - 1) - 1
    if k == 'float':
        return 0, 2 ** (64 if t['w'] == 64 else 32) - 1
    raise ValueError(k)


def wire_range(t: dict) -> typing.Tuple[int, int]:
    if t['k'] == 'uint':
        return 0, 2 ** t['w'] - 1
    return -2 ** (t['w'] - 1), 2 ** (t['w'] - 1) - 1


def default_value(db: proto.TypeDB, t: dict):
    k = t['k']
    if k == 'void':
        return None
    if k in ('bool', 'uint', 'int', 'float'):
        return 0
    if k == 'farr':
        return [default_value(db, t['elem']) for _ in range(t['n'])]
    if k == 'varr':
        return []
    return default_comp(db, db.comp(t['id']))


def default_comp(db: proto.TypeDB, c: dict):
    if c['kind'] == 'union':
        return {'tag': 0, 'value': default_value(db, c['fields'][0]['type'])}
    return [default_value(db, f['type']) for f in c['fields']]


# mode: 'zero' | 'rand' | 'edge' | 'out' | 'max' | 'min'
def gen_prim(rng, t: dict, mode: str, tags: set):
    k = t['k']
    if k == 'bool':
        return 0 if mode in ('zero', 'min') else 1 if mode == 'max' else rng.randrange(2)
    if k in ('uint', 'int'):
        lo, hi = wire_range(t)
        slo, shi = storage_range(t)
        if mode == 'zero':
            return 0
        if mode == 'max':
            return shi
        if mode == 'min':
            return slo
        if mode == 'edge':
            return rng.choice([lo, hi, lo + 1 if lo + 1 <= hi else lo, hi - 1 if hi - 1 >= lo else hi, 0, 1 if hi >= 1 else 0, -1 if lo <= -1 else 0])
        if mode == 'out' and (slo < lo or shi > hi):
            tags.add('outside_wire_range:' + k + (':sat' if t.get('sat', True) else ':trunc'))
            c = [x for x in (hi + 1, hi + 2, shi, lo - 1, slo, rng.randint(hi + 1, shi) if shi > hi else None,
                             rng.randint(slo, lo - 1) if slo < lo else None) if x is not None and slo <= x <= shi and not lo <= x <= hi]
            return rng.choice(c)
        return rng.randint(lo, hi)
    if k == 'float':
        if mode == 'zero':
            return 0
        if t['w'] == 64:
            if mode in ('edge', 'out', 'max', 'min') or rng.random() < 0.2:
                v = rng.choice(F64_SPECIAL)
            else:
                v = proto.f64_bits(rng.choice([1.0, -1.0]) * rng.uniform(0, 1) * 10 ** rng.randint(-10, 10))
            if (v & 0x7FFFFFFFFFFFFFFF) > 0x7FF0000000000000:
                tags.add('nan')
            return v
        if mode in ('edge', 'out', 'max', 'min') or rng.random() < 0.2:
            v = rng.choice(F32_SPECIAL)
        elif rng.random() < 0.3 and t['w'] == 16:
            # exactly representable / near-tie binary16 neighbourhood
            h = rng.randrange(0, 0x7C00)
            e, m = h >> 10, h & 1023
            x = (m / 1024.0) * 2.0 ** -14 if e == 0 else (1 + m / 1024.0) * 2.0 ** (e - 15)
            v = proto.f32_bits(x) + rng.choice([0, 0, 0x1000, 0xFFF, 0x1001]) | (rng.randrange(2) << 31)
        else:
            v = proto.f32_bits(rng.choice([1.0, -1.0]) * rng.uniform(0, 1) * 10 ** rng.randint(-8, 6))
        mag = v & 0x7FFFFFFF
        if mag > 0x7F800000:
            tags.add('nan')
        elif mag == 0x7F800000:
            tags.add('inf')
        elif t['w'] == 16 and mag > 0x477FE000:
            tags.add('f16_overflow:' + ('sat' if t.get('sat', True) else 'trunc'))
        elif t['w'] == 16 and 0 < mag < 0x38800000:
            tags.add('f16_subnormal')
        return v
    raise ValueError(k)


def gen_value(rng, db: proto.TypeDB, t: dict, mode: str, tags: set, invalid: typing.Optional[dict] = None):
    k = t['k']
    if k == 'void':
        return None
    if k in ('bool', 'uint', 'int', 'float'):
        m = mode if mode != 'mix' else rng.choice(['rand', 'rand', 'edge', 'out', 'zero'])
        if m == 'full':         # in the WIRE range (every target can hold it), so that only the size is extreme
            if k in ('uint', 'int'):
                return wire_range(t)[1]
            m = 'max' if k == 'bool' else 'rand'
        return gen_prim(rng, t, m, tags)
    if k == 'farr':
        return [gen_value(rng, db, t['elem'], mode, tags, invalid) for _ in range(t['n'])]
    if k == 'varr':
        cap = t['cap']
        if invalid is not None and invalid.get('want') == 'len' and not invalid.get('done') and rng.random() < 0.5:
            invalid['done'] = True
            n = cap + rng.choice([1, 1, 2])
            tags.add('array_len_over_cap')
        elif mode == 'zero' or mode == 'min':
            n = 0
        elif mode in ('max', 'full'):
            n = cap
        else:
            n = rng.choice([0, cap, cap, 1 if cap >= 1 else 0, rng.randint(0, cap), rng.randint(0, cap)])
            tags.add('array_len_0' if n == 0 else 'array_len_cap' if n == cap else 'array_len_mid')
        return [gen_value(rng, db, t['elem'], mode, tags, invalid) for _ in range(n)]
    return gen_comp_value(rng, db, db.comp(t['id']), mode, tags, invalid)


def gen_comp_value(rng, db: proto.TypeDB, c: dict, mode: str, tags: set, invalid: typing.Optional[dict] = None):
    if c['kind'] == 'union':
        n = len(c['fields'])
        if invalid is not None and invalid.get('want') == 'tag' and not invalid.get('done') and rng.random() < 0.6:
            invalid['done'] = True
            tags.add('invalid_union_tag')
            return {'tag': rng.choice([n, n, 255, n + 1]), 'value': None}
        if mode == 'full':      # the option with the largest serialized representation
            i = max(range(n), key=lambda j: (c['fields'][j]['type']['max_bits'], j))
        else:
            i = 0 if mode == 'zero' else n - 1 if mode == 'max' else rng.randrange(n)
        tags.add('union_tag_%s' % ('first' if i == 0 else 'last' if i == n - 1 else 'mid'))
        return {'tag': i, 'value': gen_value(rng, db, c['fields'][i]['type'], mode, tags, invalid)}
    return [gen_value(rng, db, f['type'], mode, tags, invalid) for f in c['fields']]


def has_node(db: proto.TypeDB, c: dict, what: str, seen=None) -> bool:
    seen = seen or set()
    if c['id'] in seen:
        return False
    seen.add(c['id'])
    if what == 'tag' and c['kind'] == 'union':
        return True

    def in_type(t):
        if t['k'] == 'varr':
            return what == 'len' or in_type(t['elem'])
        if t['k'] == 'farr':
            return in_type(t['elem'])
        if t['k'] == 'ref':
            return has_node(db, db.comp(t['id']), what, seen)
        return False
    return any(in_type(f['type']) for f in c['fields'])


def _varr_lists(db: proto.TypeDB, t: dict, v, acc: list) -> None:
    k = t['k']
    if k == 'farr':
        for e in v:
            _varr_lists(db, t['elem'], e, acc)
    elif k == 'varr':
        if v:
            acc.append((t, v))
        for e in v:
            _varr_lists(db, t['elem'], e, acc)
    elif k == 'ref':
        _varr_lists_comp(db, db.comp(t['id']), v, acc)


def _varr_lists_comp(db: proto.TypeDB, c: dict, v, acc: list) -> None:
    if c['kind'] == 'union':
        if 0 <= v['tag'] < len(c['fields']):
            _varr_lists(db, c['fields'][v['tag']]['type'], v['value'], acc)
    else:
        for f, x in zip(c['fields'], v):
            _varr_lists(db, f['type'], x, acc)


def gen_full(rng, db: proto.TypeDB, c: dict, short_by: int, tags: set):
    """the value with the LARGEST serialized representation (every variable-length array at capacity, every union holding its
    largest option: nested delimited objects at their maximum size), or - short_by = 1, 2 - the same with ONE variable-length
    array of small elements shortened by one or two elements (nested objects just below their maximum size)"""
    v = gen_comp_value(rng, db, c, 'full', tags, None)
    tags.add('value_at_max_size' if short_by == 0 else 'value_%d_below_max_size' % short_by)
    if short_by:
        lists: list = []
        _varr_lists_comp(db, c, v, lists)
        small = [(t, l) for t, l in lists if t['elem']['max_bits'] <= 16] or lists
        if small:
            t, l = rng.choice(small)
            del l[max(0, len(l) - short_by):]
    return v


def gen_values(rng, db: proto.TypeDB, tid: str, n: int) -> typing.List[typing.Tuple[typing.Any, typing.List[str]]]:
    c = db.comp(tid)
    plan = ['zero', 'max', 'min', 'edge', 'out', 'out', 'full', 'full1', 'full2']
    inv = [w for w in ('len', 'tag') if has_node(db, c, w)]
    out = []
    for i in range(n):
        tags: set = set()
        if i < len(plan) and plan[i].startswith('full'):
            v = gen_full(rng, db, c, int(plan[i][4:] or 0), tags)
            tags.add('mode_full')
            out.append((v, sorted(tags)))
            continue
        if i < len(plan):
            mode, invalid = plan[i], None
        elif inv and i < len(plan) + 2 * len(inv):
            mode, invalid = 'mix', {'want': inv[(i - len(plan)) % len(inv)]}
        else:
            mode, invalid = rng.choice(['mix', 'mix', 'rand', 'edge', 'out']), None
        v = gen_comp_value(rng, db, c, mode, tags, invalid)
        tags.add('mode_' + mode)
        out.append((v, sorted(tags)))
    return out


# ------------------------------------------------------------------------------------------------
# layout of a valid encoding (positions of prefixes / tags / headers), harness-side helper for biased mutation
# ------------------------------------------------------------------------------------------------

def _pad(off: int, a: int) -> int:
    return (a - off % a) % a


def layout(db: proto.TypeDB, tid: str, value) -> typing.List[typing.Tuple[int, int, str]]:
    items: typing.List[typing.Tuple[int, int, str]] = []

    def prim_w(t):
        return 1 if t['k'] == 'bool' else t['w']

    def walk_type(t, v, off: int) -> int:
        k = t['k']
        if k in ('bool', 'uint', 'int', 'float', 'void'):
            items.append((off, prim_w(t), k))
            return off + prim_w(t)
        if k == 'farr':
            for e in v:
                off = walk_type(t['elem'], e, off)
            return off
        if k == 'varr':
            items.append((off, t['prefix_bits'], 'prefix'))
            off += t['prefix_bits']
            for e in v[:t['cap']]:
                off = walk_type(t['elem'], e, off)
            return off
        c = db.comp(t['id'])
        if not c['sealed']:
            items.append((off, 32, 'header'))
            off += 32
        return walk_comp(c, v, off)

    def walk_comp(c, v, off: int) -> int:
        if c['kind'] == 'union':
            tb = c['meta']['tag_bits']
            items.append((off, tb, 'tag'))
            off += tb
            if 0 <= v['tag'] < len(c['fields']):
                off = walk_type(c['fields'][v['tag']]['type'], v['value'], off)
        else:
            for f, fv in zip(c['fields'], v):
                off += _pad(off, f['type']['align'])
                off = walk_type(f['type'], fv, off)
        return off + _pad(off, 8)

    walk_comp(db.comp(tid), value, 0)
    return items


def bulk_regions(db: proto.TypeDB, tid: str, value) -> typing.List[typing.Tuple[int, int, str]]:
    """(first_bit, end_bit, kind) of every array the generated code copies in bulk (bit-packed bool arrays, byte arrays, arrays
    of standard-width primitives) that starts at a NON byte-aligned offset in the valid encoding of `value`."""
    out: typing.List[typing.Tuple[int, int, str]] = []

    def is_bulk(e):
        return e['k'] == 'bool' or (e['k'] in ('uint', 'int', 'float') and e['w'] in (8, 16, 32, 64))

    def walk_type(t, v, off: int) -> int:
        k = t['k']
        if k in ('bool', 'uint', 'int', 'float', 'void'):
            return off + (1 if k == 'bool' else t['w'])
        if k in ('farr', 'varr'):
            if k == 'varr':
                off += t['prefix_bits']
                v = v[:t['cap']]
            start = off
            for e in v:
                off = walk_type(t['elem'], e, off)
            if is_bulk(t['elem']) and start % 8 != 0 and off > start:
                out.append((start, off, '%s_of_%s%s' % (k, t['elem']['k'], t['elem'].get('w', ''))))
            return off
        c = db.comp(t['id'])
        if not c['sealed']:
            off += 32
        return walk_comp(c, v, off)

    def walk_comp(c, v, off: int) -> int:
        if c['kind'] == 'union':
            off += c['meta']['tag_bits']
            if 0 <= v['tag'] < len(c['fields']):
                off = walk_type(c['fields'][v['tag']]['type'], v['value'], off)
        else:
            for f, fv in zip(c['fields'], v):
                off += _pad(off, f['type']['align'])
                off = walk_type(f['type'], fv, off)
        return off + _pad(off, 8)

    walk_comp(db.comp(tid), value, 0)
    return out


def _set_bits(data: bytearray, off: int, width: int, val: int) -> None:
    for i in range(width):
        p = off + i
        if p // 8 >= len(data):
            return
        if (val >> i) & 1:
            data[p // 8] |= 1 << (p % 8)
        else:
            data[p // 8] &= ~(1 << (p % 8)) & 0xFF


def _get_bits(data: bytes, off: int, width: int) -> int:
    v = 0
    for i in range(width):
        p = off + i
        if p // 8 < len(data) and (data[p // 8] >> (p % 8)) & 1:
            v |= 1 << i
    return v


def gen_bytes(rng, db: proto.TypeDB, tid: str, n: int,
              encodings: typing.List[typing.Tuple[typing.Any, bytes]]) -> typing.List[typing.Tuple[bytes, typing.List[str]]]:
    c = db.comp(tid)
    ext = (c['extent_bits'] + 7) // 8
    out: typing.List[typing.Tuple[bytes, typing.List[str]]] = [(b'', ['empty'])]
    seen = {b''}

    def add(b: bytes, tags: typing.List[str]) -> None:
        b = bytes(b)
        if b not in seen and len(out) < n:
            seen.add(b)
            out.append((b, tags))

    encs = [(v, e) for v, e in encodings if e is not None]
    rng.shuffle(encs)
    # valid encodings
    for v, e in encs[:max(2, n // 8)]:
        add(e, ['valid'])
    # every truncation of the shortest non-trivial encodings (all cut points), then sampled cuts of the others
    for v, e in sorted(encs, key=lambda x: len(x[1]))[:3]:
        lay = layout(db, tid, v)
        for cut in range(len(e)):
            kinds = sorted({'cut_in_' + k for (o, w, k) in lay if o < 8 * cut < o + w and k in ('prefix', 'tag', 'header')})
            add(e[:cut], ['truncation'] + kinds)
    budget_each = max(1, (n - len(out)) // max(1, 6))
    # mutations driven by the layout
    for v, e in encs:
        if len(out) >= n:
            break
        lay = layout(db, tid, v)
        hot = [(o, w, k) for (o, w, k) in lay if k in ('prefix', 'tag', 'header')]
        for _ in range(3):
            m = bytearray(e)
            if hot and rng.random() < 0.8:
                o, w, k = rng.choice(hot)
                cur = _get_bits(e, o, w)
                if k == 'header':
                    remaining = max(0, len(e) - (o + 32) // 8)
                    val = rng.choice([0, max(cur - 1, 0), cur + 1, remaining, remaining + 1, rng.randrange(0, 300), 0xFFFFFFFF, 1 << 31])
                    tag = 'header_' + ('lt' if val < cur else 'eq' if val == cur else 'gt') + ('_over_remaining' if val > remaining else '')
                elif k == 'prefix':
                    val = rng.choice([0, cur + 1, max(cur - 1, 0), 255, (1 << w) - 1, rng.randrange(0, 1 << min(w, 10))])
                    tag = 'prefix_mutated'
                else:
                    val = rng.choice([cur + 1, max(cur - 1, 0), 255, rng.randrange(0, 8)])
                    tag = 'tag_mutated'
                _set_bits(m, o, w, val)
                add(m, [tag])
            elif len(m) > 0:
                for _ in range(rng.choice([1, 1, 2, 5])):
                    p = rng.randrange(8 * len(m))
                    m[p // 8] ^= 1 << (p % 8)
                add(m, ['bit_flip'])
        # garbage extension
        g = bytes(rng.randrange(256) for _ in range(rng.choice([1, 2, 7, 16])))
        add(e + g, ['extension_garbage'])
        add(e + bytes(rng.choice([1, 3, 9])), ['extension_zero'])
        if len(e) > 1:
            cut = rng.randrange(1, len(e))
            add(e[:cut], ['truncation'])
    # random strings
    while len(out) < n:
        ln = rng.choice([1, 2, 3, 4, 5, 8, ext, ext + 2, rng.randint(0, ext + 2), rng.randint(0, max(1, ext // 4))])
        style = rng.randrange(3)
        if style == 0:
            b = bytes(rng.randrange(256) for _ in range(ln))
        elif style == 1:
            b = bytes(rng.choice([0, 0, 0, 1, 2, 255]) for _ in range(ln))
        else:
            b = bytes([rng.randrange(0, 4)] + [rng.choice([0, 1, 2, 3, 4, 0, 0]) for _ in range(max(ln - 1, 0))])
        if b in seen:
            b = b + bytes([rng.randrange(256)])
        add(b, ['random' if style == 0 else 'random_sparse'])
    return out[:n]


# ------------------------------------------------------------------------------------------------
# shrinking candidates
# ------------------------------------------------------------------------------------------------

def shrink_bytes(b: bytes) -> typing.Iterator[bytes]:
    for cut in range(len(b)):
        yield b[:cut]
    for i in range(len(b)):
        if b[i] != 0:
            yield b[:i] + b'\0' + b[i + 1:]
    for i in range(len(b)):
        for bit in range(8):
            if b[i] & (1 << bit) and b[i] != (1 << bit):
                yield b[:i] + bytes([b[i] & ~(1 << bit)]) + b[i + 1:]


def shrink_value(db: proto.TypeDB, t: dict, v) -> typing.Iterator[typing.Any]:
    """simpler values of TYPE t (one step)"""
    k = t['k']
    if k == 'void':
        return
    if k in ('bool', 'uint', 'int', 'float'):
        if v != 0:
            yield 0
            if k != 'float' and abs(v) > 1:
                yield v // 2 if v > 0 else -((-v) // 2)
        return
    if k == 'farr':
        for i, e in enumerate(v):
            for s in shrink_value(db, t['elem'], e):
                yield v[:i] + [s] + v[i + 1:]
        return
    if k == 'varr':
        for i in range(len(v)):
            yield v[:i] + v[i + 1:]
        for i, e in enumerate(v):
            for s in shrink_value(db, t['elem'], e):
                yield v[:i] + [s] + v[i + 1:]
        return
    yield from shrink_comp(db, db.comp(t['id']), v)


def shrink_comp(db: proto.TypeDB, c: dict, v) -> typing.Iterator[typing.Any]:
    if c['kind'] == 'union':
        if 0 < v['tag'] < len(c['fields']):
            yield {'tag': 0, 'value': default_value(db, c['fields'][0]['type'])}
        if 0 <= v['tag'] < len(c['fields']):
            for s in shrink_value(db, c['fields'][v['tag']]['type'], v['value']):
                yield {'tag': v['tag'], 'value': s}
        return
    for i, (f, fv) in enumerate(zip(c['fields'], v)):
        for s in shrink_value(db, f['type'], fv):
            yield v[:i] + [s] + v[i + 1:]
