"""Python target runner of the codec harness: drives the code nunavut generates for `--target-language py`.

    t = PyTarget({...})                       # options below
    ok, log = t.build(ns_dirs, db, workdir, repo)
    responses = t.run(['ser ...', 'des ...', 'meta ...'])
    t.close()

Options honoured (all optional):
  construct         'ctor' (default) | 'setattr'      how `ser` builds objects (see target_py_driver.py)
  array_mode        'list' (default) | 'bytes' | 'ndarray'   which branch of the generated assign_array the values take
  fragment          0 (default) | n: `des` input handed to deserialize() in fragments of n bytes
  builtin_via_json  False (default) | True: `builtin` passes the to_builtin() result through json.dumps/loads
  python_optimize   False (default) | True: run the driver under `python -O` (generated `assert`s disabled)
  request_timeout   seconds one request may take before the driver is killed (default 20)
  nnvg_args         extra command line arguments for the generator
Options of the C/C++ runners (target_endianness, enable_serialization_asserts, std, sanitize) have no meaning for the
Python templates and are ignored.

Extra request (this target only): `hist <step> ;; <step> ...` runs a HISTORY in one driver call with every earlier result kept
alive (decoded objects, the fragments serialize() returned - not copied); steps des/ser/reser/frag/desfrag/dump/mutate, see
target_py_driver.op_hist; generated and checked by campaign.gen_histories / check_history.

What Python cannot observe (see design_notes/codec_target_py.md): consumed size of `des` (reported as '-'), the
caller-provided buffer of `ser` (cap only yields `err too_small` when size > cap; fill is ignored), `prior` of `des`.
"""
from __future__ import annotations

import json
import os
import select
import shutil
import subprocess
import time
import typing

from . import proto

HERE = os.path.dirname(os.path.abspath(__file__))
VERIF = os.path.dirname(os.path.dirname(os.path.dirname(HERE)))
PY = '/venv/bin/python'
PYDEPS = os.path.join(VERIF, 'build', 'pydeps')
DRIVER_SRC = os.path.join(HERE, 'target_py_driver.py')

NUMPY_HINT = ('NumPy is missing: %s has no numpy package. Run `bash %s/tools/setup.sh`, or install it with '
              '`/venv/bin/pip install --no-index --find-links /opt/veriftools/wheels --target %s numpy`'
              % (PYDEPS, VERIF, PYDEPS))

_DRIVER_OPTS = ('construct', 'array_mode', 'fragment', 'builtin_via_json', 'selftest_ops')


class _Driver:
    """One driver process with a line-oriented request/response channel and a hard per-request deadline."""

    def __init__(self, cmd: typing.List[str], env: dict, cwd: str, stderr_path: str):
        self.stderr_path = stderr_path
        self._err = open(stderr_path, 'wb')
        self.p = subprocess.Popen(cmd, env=env, cwd=cwd, stdin=subprocess.PIPE, stdout=subprocess.PIPE,
                                  stderr=self._err, bufsize=0)
        self._buf = b''

    def alive(self) -> bool:
        return self.p.poll() is None

    def ask(self, line: str, deadline: float) -> typing.Optional[str]:
        """Response line, or None if the process died (self.eof) / the deadline passed (the caller then kills it)."""
        self.eof = False
        try:
            data = memoryview(line.encode('ascii', 'backslashreplace') + b'\n')
            while len(data):   # raw (unbuffered) pipe: a write may be partial
                data = data[self.p.stdin.write(data) or 0:]
        except (BrokenPipeError, OSError):
            self.eof = True
            return None
        fd = self.p.stdout.fileno()
        while True:
            nl = self._buf.find(b'\n')
            if nl >= 0:
                out, self._buf = self._buf[:nl], self._buf[nl + 1:]
                return out.decode('ascii', 'replace').rstrip('\r')
            left = deadline - time.monotonic()
            if left <= 0:
                return None
            r, _, _ = select.select([fd], [], [], min(left, 1.0))
            if not r:
                continue
            chunk = os.read(fd, 1 << 16)
            if not chunk:
                self.eof = True   # the driver is gone
                return None
            self._buf += chunk

    def kill(self) -> None:
        try:
            self.p.kill()
        except OSError:
            pass
        try:
            self.p.wait(timeout=10)
        except Exception:
            pass
        for f in (self.p.stdin, self.p.stdout, self._err):
            try:
                f.close()
            except Exception:
                pass

    def close(self) -> None:
        try:
            self.p.stdin.close()
            self.p.wait(timeout=5)
        except Exception:
            pass
        self.kill()

    def last_stderr_line(self) -> str:
        try:
            self._err.flush()
        except Exception:
            pass
        try:
            with open(self.stderr_path, 'rb') as f:
                f.seek(0, 2)
                f.seek(max(0, f.tell() - 8192))
                lines = [ln.strip() for ln in f.read().decode('utf-8', 'replace').splitlines() if ln.strip()]
        except OSError:
            lines = []
        return lines[-1] if lines else ''


class PyTarget(proto.Target):
    name = 'py'

    def __init__(self, options: typing.Optional[dict] = None):
        super().__init__(options)
        self.workdir: typing.Optional[str] = None
        self.cmd: typing.List[str] = []
        self.env: dict = {}
        self._drv: typing.Optional[_Driver] = None
        self.restarts = 0

    # ------------------------------------------------------------------------------------------------------------
    def build(self, ns_dirs: typing.List[str], db: proto.TypeDB, workdir: str, repo: str) -> typing.Tuple[bool, str]:
        self.close()
        log: typing.List[str] = []
        ns_dirs = [os.path.abspath(d) for d in ns_dirs]
        workdir = os.path.abspath(workdir)
        gen = os.path.join(workdir, 'gen')
        os.makedirs(workdir, exist_ok=True)
        shutil.rmtree(gen, ignore_errors=True)
        if not os.path.isdir(os.path.join(PYDEPS, 'numpy')):
            return False, NUMPY_HINT

        genv = dict(os.environ)
        genv.update(PYTHONPATH=os.path.join(repo, 'src'), PYTHONDONTWRITEBYTECODE='1', PYTHONHASHSEED='0',
                    LC_ALL='C.UTF-8')
        # the root namespace and every lookup namespace get their own run (nnvg only emits the root namespace's types)
        for i, root in enumerate(ns_dirs):
            cmd = [PY, '-m', 'nunavut', '--target-language', 'py', '--outdir', gen,
                   '--allow-unregulated-fixed-port-id']
            cmd += list(self.options.get('nnvg_args', []))
            cmd.append(root)
            for j, other in enumerate(ns_dirs):
                if j != i:
                    cmd += ['--lookup-dir', other]
            try:
                r = subprocess.run(cmd, env=genv, cwd=workdir, stdout=subprocess.PIPE, stderr=subprocess.STDOUT,
                                   timeout=600, text=True, errors='replace')
            except subprocess.TimeoutExpired:
                return False, '\n'.join(log + ['nnvg timed out: ' + ' '.join(cmd)])
            log.append('$ ' + ' '.join(cmd))
            if r.stdout.strip():
                log.append(r.stdout.strip())
            if r.returncode != 0:
                log.append('nnvg exit status %d' % r.returncode)
                return False, '\n'.join(log)
        if not os.path.isfile(os.path.join(gen, 'nunavut_support.py')):
            log.append('nnvg did not emit nunavut_support.py')
            return False, '\n'.join(log)

        types_path = os.path.join(workdir, 'types.json')
        with open(types_path, 'w') as f:
            json.dump({'types': list(db.types.values())}, f)
        shutil.copyfile(DRIVER_SRC, os.path.join(workdir, 'driver.py'))

        self.workdir = workdir
        self.cmd = [PY] + (['-O'] if self.options.get('python_optimize') else []) + \
                   [os.path.join(workdir, 'driver.py'), types_path] + ns_dirs
        env = dict(os.environ)
        env.update(PYTHONPATH=gen + os.pathsep + PYDEPS, PYTHONDONTWRITEBYTECODE='1', PYTHONHASHSEED='0',
                   LC_ALL='C.UTF-8', OMP_NUM_THREADS='1', OPENBLAS_NUM_THREADS='1',
                   CODEC_PY_OPTS=json.dumps({k: self.options[k] for k in _DRIVER_OPTS if k in self.options}))
        self.env = env

        # smoke test: the driver starts and every class of the type database can be imported
        reqs = ['ping'] + ['meta ' + tid for tid in db.ids()]
        resp = self.run(reqs, timeout=120.0)
        bad = [(q, a) for q, a in zip(reqs, resp) if not a.startswith('ok')]
        if bad:
            log.append('driver smoke test failed:')
            log += ['  %s -> %s' % qa for qa in bad[:20]]
            if 'numpy' in ' '.join(a for _, a in bad[:3]).lower():
                log.append(NUMPY_HINT)
            self.close()
            return False, '\n'.join(log)
        log.append('driver ok: %d types importable' % len(db.ids()))
        return True, '\n'.join(log)

    # ------------------------------------------------------------------------------------------------------------
    def _start(self) -> _Driver:
        assert self.workdir is not None, 'build() first'
        self._drv = _Driver(self.cmd, self.env, self.workdir, os.path.join(self.workdir, 'driver.stderr'))
        return self._drv

    def _crash_detail(self, drv: _Driver, timed_out: bool) -> str:
        drv.kill()
        rc = drv.p.returncode
        last = drv.last_stderr_line()
        what = 'timeout' if timed_out else ('exit status %s' % rc)
        return ('crash %s %s' % (what, last)).strip()

    def run(self, requests: typing.List[str], timeout: float = 120.0) -> typing.List[str]:
        """`timeout` bounds the whole call; one request may take at most options['request_timeout'] (default 20 s)."""
        per_req = float(self.options.get('request_timeout', 20.0))
        t_end = time.monotonic() + timeout
        out: typing.List[str] = []
        for req in requests:
            req = ' '.join(req.split())   # one line, whatever the caller passed
            if time.monotonic() >= t_end:
                out.append('crash timeout run deadline reached before this request was sent')
                continue
            drv = self._drv
            if drv is None or not drv.alive():
                if drv is not None:
                    drv.kill()
                    self.restarts += 1
                drv = self._start()
            deadline = min(t_end, time.monotonic() + per_req)
            resp = drv.ask(req, deadline)
            if resp is None:
                out.append(self._crash_detail(drv, timed_out=not drv.eof))
                self._drv = None
                self.restarts += 1
                continue
            out.append(resp)
        return out

    def close(self) -> None:
        if self._drv is not None:
            self._drv.close()
            self._drv = None

    def __del__(self):
        try:
            self.close()
        except Exception:
            pass
