"""Shared protocol of the codec harness (C01-C05, C18): value representation, token encoding, target-runner interface.

Types are the JSON produced by astdump.py (`TYPE`, `COMPOSITE`).  `TypeDB` indexes the composites by id.

ABSTRACT VALUE (Python side, JSON-able) of a TYPE:
  bool   -> 0 | 1
  uint   -> int (storage-range value, may exceed the wire range: the serializer saturates/truncates)
  int    -> int
  float  -> int: the raw IEEE-754 bit pattern of the STORAGE type of the generated field:
            w=16 and w=32 -> binary32 pattern (C `float`, C++ `float`, Python float rounded to binary32), w=64 -> binary64 pattern
  void   -> None  (contributes no tokens)
  farr   -> [v0, ..., v(n-1)]           exactly n elements
  varr   -> [v0, ...]                   any length (longer than cap is an *invalid* object a serializer must reject)
  ref    -> value of the composite:
            struct -> [v_field0, v_field1, ...]   one entry per field INCLUDING padding fields (None)
            union  -> {"tag": i, "value": v}      i indexes `fields`; i >= len(fields) is an invalid object (value None)

TOKEN ENCODING (what drivers read/write; whitespace-separated, unambiguous given the type):
  bool: `0|1`; uint/int: decimal; float: lower-case hex bit pattern without prefix; void: nothing;
  farr: elements; varr: count then elements; struct: fields in order; union: tag then the selected field's value
  (nothing after an invalid tag).

DRIVER LINE PROTOCOL (one request per line on stdin, one response line per request on stdout, flushed):
  ser <type_id> <cap_bytes> <fill> <tokens...>
        fill in {z, f, r<seed>}: initial buffer content zero / 0xFF / pseudo-random bytes
        (byte i = (1103515245*(seed+i)+12345)>>16 & 0xFF; use proto.fill_bytes);
        the buffer handed to the serializer is EXACTLY cap_bytes long (heap allocated, so sanitizers see overruns)
     -> `ok <size> <hex of buffer[0:size]>`   |   `err <class>`
  des <type_id> <prior> <hex|->            hex '-' = empty input; the input buffer is exactly len(hex)/2 bytes, heap allocated
        prior in {fresh, poison, prev:<hex>}: destination object default-initialised / filled with 0xA5 bytes (C only;
        C++ and Python treat poison as fresh) / the result of first decoding <hex> into the same object
     -> `ok <consumed_bytes> <tokens...>`     |   `err <class>`
  meta <type_id>
     -> `ok extent_bytes=<n> buffer_bytes=<n> full_name=<s> major=<n> minor=<n> port_id=<n|none> [cap.<field>=<n> ...] [union_count=<n>] [const.<NAME>=<token> ...]`
  error classes: too_small | bad_length | bad_tag | bad_header | invalid_arg | format (Python: any FormatError/None result)
                 | rejected (Python: the object could not even be constructed: setter raised ValueError)
  Conventions agreed between the runners: an empty hex string is always written `-` (`ok 0 -` for a zero-size
  serialization); nnvg is run with --allow-unregulated-fixed-port-id (astdump reads with that flag); a token value that
  does not fit the generated STORAGE type (300 for a uint8_t field, 2 for bool, array count absurdly large) -> `err rejected`;
  malformed/missing/extra tokens or an unknown type id -> `err invalid_arg`; `meta` keys a target cannot provide are omitted.
  A driver must never crash; a crash / sanitizer report / timeout is reported by the runner as `crash <detail>`.
"""
from __future__ import annotations

import struct
import typing


class TypeDB:
    def __init__(self, doc: dict):
        self.types: typing.Dict[str, dict] = {t['id']: t for t in doc['types']}

    def comp(self, tid: str) -> dict:
        return self.types[tid]

    def ids(self) -> typing.List[str]:
        return list(self.types)


def fill_bytes(fill: str, n: int) -> bytes:
    if fill == 'z':
        return bytes(n)
    if fill == 'f':
        return b'\xff' * n
    assert fill.startswith('r')
    seed = int(fill[1:])
    return bytes((((1103515245 * (seed + i) + 12345) >> 16) & 0xFF) for i in range(n))


# ------------------------------------------------------------------------------------------------
# tokens
# ------------------------------------------------------------------------------------------------

def encode_value(db: TypeDB, t: dict, v) -> typing.List[str]:
    k = t['k']
    if k == 'void':
        return []
    if k in ('bool', 'uint', 'int'):
        return [str(int(v))]
    if k == 'float':
        return ['%x' % v]
    if k == 'farr':
        out: typing.List[str] = []
        for e in v:
            out += encode_value(db, t['elem'], e)
        return out
    if k == 'varr':
        out = [str(len(v))]
        for e in v:
            out += encode_value(db, t['elem'], e)
        return out
    if k == 'ref':
        return encode_comp(db, db.comp(t['id']), v)
    raise ValueError(k)


def encode_comp(db: TypeDB, c: dict, v) -> typing.List[str]:
    if c['kind'] == 'union':
        out = [str(v['tag'])]
        if 0 <= v['tag'] < len(c['fields']):
            out += encode_value(db, c['fields'][v['tag']]['type'], v['value'])
        return out
    out = []
    for f, fv in zip(c['fields'], v):
        out += encode_value(db, f['type'], fv)
    return out


def decode_value(db: TypeDB, t: dict, toks: typing.List[str], pos: int):
    k = t['k']
    if k == 'void':
        return None, pos
    if k in ('bool', 'uint', 'int'):
        return int(toks[pos]), pos + 1
    if k == 'float':
        return int(toks[pos], 16), pos + 1
    if k == 'farr':
        out = []
        for _ in range(t['n']):
            e, pos = decode_value(db, t['elem'], toks, pos)
            out.append(e)
        return out, pos
    if k == 'varr':
        n = int(toks[pos])
        pos += 1
        out = []
        for _ in range(n):
            e, pos = decode_value(db, t['elem'], toks, pos)
            out.append(e)
        return out, pos
    if k == 'ref':
        return decode_comp(db, db.comp(t['id']), toks, pos)
    raise ValueError(k)


def decode_comp(db: TypeDB, c: dict, toks: typing.List[str], pos: int):
    if c['kind'] == 'union':
        tag = int(toks[pos])
        pos += 1
        if 0 <= tag < len(c['fields']):
            v, pos = decode_value(db, c['fields'][tag]['type'], toks, pos)
            return {'tag': tag, 'value': v}, pos
        return {'tag': tag, 'value': None}, pos
    out = []
    for f in c['fields']:
        v, pos = decode_value(db, f['type'], toks, pos)
        out.append(v)
    return out, pos


# float helpers ----------------------------------------------------------------------------------

def f32_bits(x: float) -> int:
    return struct.unpack('<I', struct.pack('<f', x))[0]


def f32_from_bits(b: int) -> float:
    return struct.unpack('<f', struct.pack('<I', b))[0]


def f64_bits(x: float) -> int:
    return struct.unpack('<Q', struct.pack('<d', x))[0]


def f64_from_bits(b: int) -> float:
    return struct.unpack('<d', struct.pack('<Q', b))[0]


# ------------------------------------------------------------------------------------------------
# target runner interface
# ------------------------------------------------------------------------------------------------

class Target:
    """A code-generation target under one option set.

    name     e.g. 'c', 'cpp', 'py'
    options  dict, e.g. {'target_endianness': 'little', 'enable_serialization_asserts': True, 'std': 'c++17',
             'sanitize': True}; each runner documents which it honours
    """

    name = '?'

    def __init__(self, options: typing.Optional[dict] = None):
        self.options = dict(options or {})

    def build(self, ns_dirs: typing.List[str], db: TypeDB, workdir: str, repo: str) -> typing.Tuple[bool, str]:
        """Generate code with the real nnvg from `repo` for the root namespace ns_dirs[0] (lookup dirs ns_dirs[1:]),
        emit and compile the driver into `workdir`.  Returns (ok, log)."""
        raise NotImplementedError

    def run(self, requests: typing.List[str], timeout: float = 120.0) -> typing.List[str]:
        """Feed request lines to the driver, return one response line per request ('crash ...' where the driver died;
        the runner restarts the driver after a crash and continues with the next request)."""
        raise NotImplementedError
