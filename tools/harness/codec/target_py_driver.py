#!/venv/bin/python
"""Line-protocol driver for nunavut-generated *Python* code (codec harness, target 'py').

Copied verbatim into <workdir>/driver.py by target_py.PyTarget.build(); run as

    PYTHONPATH=<workdir>/gen:/verif/build/pydeps /venv/bin/python driver.py <types.json> <root_ns_dir> [<lookup_dir> ...]

Generic: walks the type JSON of astdump.py at run time, no per-type code.  Protocol: see proto.py (ser/des/meta) plus
the C18 extras `set`, `builtin`, `model` and `ping`.  Behaviour switches come from the environment variable
CODEC_PY_OPTS (JSON object):
  construct   'ctor' (default: Class(**kwargs), what _deserialize_ itself does) | 'setattr' (Class() then one setter per field)
  array_mode  'list' (default: Python lists -> "last resort" branch of assign_array)
              | 'bytes'   (arrays stored as numpy.uint8 whose elements are all in 0..255 are passed as `bytes`: zero-copy branch)
              | 'ndarray' (a numpy array of the storage dtype is passed when it can be built without error: fast-binding branch)
  fragment    0 (default: one input fragment) | n > 0 (des input is handed over in fragments of n bytes)

The driver never imports the harness; it only needs numpy, pydsdl, nunavut_support and the generated packages.
"""
from __future__ import annotations

import importlib
import json
import os
import struct
import sys
import warnings

import numpy as np

import nunavut_support as ns

OPTS = {'construct': 'ctor', 'array_mode': 'list', 'fragment': 0}


class BadRequest(Exception):
    """The request line itself is malformed (driver/harness problem, not the generated code)."""


class Rejected(Exception):
    """The value cannot be represented as an object of the generated class."""

    def __init__(self, exc_type: str, text: str):
        super().__init__(exc_type, text)
        self.exc_type = exc_type
        self.text = text


# ------------------------------------------------------------------------------------------------------------------
# type database
# ------------------------------------------------------------------------------------------------------------------

TYPES = {}      # id -> COMPOSITE json
_CLASSES = {}   # id -> class
_ATTR = {}      # (id, dsdl field name) -> python attribute name


def _import_ns(components):
    """Same fallback as nunavut_support.get_class.do_import: a reserved namespace component gets a '_' suffix."""
    mod = None
    for comp in components:
        name = (mod.__name__ + '.' + comp) if mod else comp
        try:
            mod = importlib.import_module(name)
        except ImportError:
            mod = importlib.import_module(name + '_')
    return mod


def get_cls(tid):
    cls = _CLASSES.get(tid)
    if cls is not None:
        return cls
    c = TYPES.get(tid)
    if c is None:
        raise BadRequest('unknown type id %s' % tid)
    if c['service_part']:
        svc_short = c['ns'][-1]
        mod = _import_ns(c['ns'][:-1])
        svc = getattr(mod, '%s_%d_%d' % (svc_short, c['major'], c['minor']))
        cls = getattr(svc, c['service_part'])
    else:
        mod = _import_ns(c['ns'])
        cls = getattr(mod, '%s_%d_%d' % (c['short_name'], c['major'], c['minor']))
    _CLASSES[tid] = cls
    return cls


def attr_name(tid, name):
    key = (tid, name)
    a = _ATTR.get(key)
    if a is None:
        cls = get_cls(tid)
        if hasattr(cls, name):
            a = name
        elif hasattr(cls, name + '_'):
            a = name + '_'
        else:
            raise BadRequest('class of %s has no attribute for field %s' % (tid, name))
        _ATTR[key] = a
    return a


# ------------------------------------------------------------------------------------------------------------------
# tokens -> abstract value (same as proto.decode_comp; duplicated to keep the driver standalone)
# ------------------------------------------------------------------------------------------------------------------

ABSURD_SLACK = 4096   # token-less elements: counts up to cap + this are handed to the generated code, larger are 'rejected'
_MIN_TOKENS = {}


def min_tokens(t):
    """Least number of tokens a value of TYPE t occupies (0 for void and for composites without value-carrying fields)."""
    k = t['k']
    if k == 'void':
        return 0
    if k in ('bool', 'uint', 'int', 'float', 'varr'):
        return 1
    if k == 'farr':
        return t['n'] * min_tokens(t['elem'])
    if k == 'ref':
        tid = t['id']
        if tid not in _MIN_TOKENS:
            c = TYPES[tid]
            _MIN_TOKENS[tid] = 1 if c['kind'] == 'union' else sum(min_tokens(f['type']) for f in c['fields'])
        return _MIN_TOKENS[tid]
    raise BadRequest('unknown type kind %r' % k)


def parse_value(t, toks, pos):
    k = t['k']
    if k == 'void':
        return None, pos
    if k in ('bool', 'uint', 'int'):
        return int(toks[pos]), pos + 1
    if k == 'float':
        return int(toks[pos], 16), pos + 1
    if k == 'farr' or k == 'varr':
        if k == 'farr':
            n = t['n']
        else:
            n = int(toks[pos])
            pos += 1
            if n < 0:
                raise BadRequest('negative array count %d' % n)
            if min_tokens(t['elem']) > 0:
                # every element needs a token: a count beyond the tokens that are left is a malformed request
                if n > len(toks) - pos:
                    raise BadRequest('array count %d exceeds the %d remaining tokens' % (n, len(toks) - pos))
            elif n > t['cap'] + ABSURD_SLACK:
                # elements may be token-less (composite without fields): any count is well-formed; do not loop forever
                raise Rejected('StorageRange', 'array count %d is absurd for capacity %d' % (n, t['cap']))
        out = []
        for _ in range(n):
            e, pos = parse_value(t['elem'], toks, pos)
            out.append(e)
        return out, pos
    if k == 'ref':
        return parse_comp(TYPES[t['id']], toks, pos)
    raise BadRequest('unknown type kind %r' % k)


def parse_comp(c, toks, pos):
    if c['kind'] == 'union':
        tag = int(toks[pos])
        pos += 1
        if 0 <= tag < len(c['fields']):
            v, pos = parse_value(c['fields'][tag]['type'], toks, pos)
            return {'tag': tag, 'value': v}, pos
        return {'tag': tag, 'value': None}, pos
    out = []
    for f in c['fields']:
        v, pos = parse_value(f['type'], toks, pos)
        out.append(v)
    return out, pos


def parse_all(parse, t, toks):
    try:
        v, pos = parse(t, toks, 0)
    except (IndexError, ValueError) as ex:
        raise BadRequest('bad value tokens: %r' % (ex,)) from None
    if pos != len(toks):
        raise BadRequest('%d surplus value tokens' % (len(toks) - pos))
    return v


# ------------------------------------------------------------------------------------------------------------------
# abstract value -> generated objects.  Everything raised in here comes from generated code or NumPy.
# ------------------------------------------------------------------------------------------------------------------

def f32_from_bits(b):
    return struct.unpack('<f', struct.pack('<I', b & 0xFFFFFFFF))[0]


def f64_from_bits(b):
    return struct.unpack('<d', struct.pack('<Q', b & 0xFFFFFFFFFFFFFFFF))[0]


def storage_dtype(t):
    k = t['k']
    if k == 'bool':
        return np.bool_
    if k in ('uint', 'int'):
        w = t['w']
        bits = 8 if w <= 8 else 16 if w <= 16 else 32 if w <= 32 else 64
        return getattr(np, ('uint' if k == 'uint' else 'int') + str(bits))
    if k == 'float':
        return {16: np.float16, 32: np.float32, 64: np.float64}[t['w']]
    return np.object_


def make_value(t, v):
    k = t['k']
    if k == 'bool':
        if v not in (0, 1):   # runner convention: a token that does not fit the storage type is 'rejected'
            raise Rejected('StorageRange', 'bool token %d' % v)
        return bool(v)
    if k in ('uint', 'int'):
        return int(v)
    if k == 'float':
        if not 0 <= v < (1 << (64 if t['w'] == 64 else 32)):
            raise Rejected('StorageRange', 'float bit pattern %x' % v)
        return f64_from_bits(v) if t['w'] == 64 else f32_from_bits(v)
    if k in ('farr', 'varr'):
        et = t['elem']
        elems = [make_value(et, e) for e in v]
        mode = OPTS['array_mode']
        if mode == 'bytes' and et['k'] == 'uint' and et['w'] <= 8 and all(0 <= e <= 255 for e in elems):
            return bytes(elems)
        if mode == 'ndarray':
            try:
                with np.errstate(all='ignore'):
                    return np.array(elems, storage_dtype(et))
            except Exception:  # not representable in the storage dtype: let the generated setter see the list
                return elems
        return elems
    if k == 'ref':
        return make_obj(t['id'], v)
    raise BadRequest('cannot build a value of kind %r' % k)


def make_obj(tid, v):
    c = TYPES[tid]
    cls = get_cls(tid)
    if c['kind'] == 'union':
        tag = v['tag']
        if not 0 <= tag < len(c['fields']):
            raise Rejected('InvalidTag', 'union tag %d is not below %d' % (tag, len(c['fields'])))
        f = c['fields'][tag]
        val = make_value(f['type'], v['value'])
        a = attr_name(tid, f['name'])
        if OPTS['construct'] == 'setattr':
            obj = cls()
            setattr(obj, a, val)
            return obj
        return cls(**{a: val})
    kwargs = {}
    for f, fv in zip(c['fields'], v):
        if f['name'] == '':
            continue
        kwargs[attr_name(tid, f['name'])] = make_value(f['type'], fv)
    if OPTS['construct'] == 'setattr':
        obj = cls()
        for a, val in kwargs.items():
            setattr(obj, a, val)
        return obj
    return cls(**kwargs)


REJECT_EXC = (ValueError, OverflowError, TypeError)


def build_obj(tid, v):
    """Abstract value -> object; ValueError & co. of the generated constructors/setters become Rejected."""
    try:
        with np.errstate(all='ignore'):
            return make_obj(tid, v)
    except REJECT_EXC as ex:
        raise Rejected(type(ex).__name__, str(ex)) from None


# ------------------------------------------------------------------------------------------------------------------
# generated objects -> tokens
# ------------------------------------------------------------------------------------------------------------------

def f32_bits(x):
    with np.errstate(all='ignore'):
        return int(np.array([x], np.float64).astype(np.float32).view(np.uint32)[0])


def f64_bits(x):
    return struct.unpack('<Q', struct.pack('<d', float(x)))[0]


def dump_value(t, x, out):
    k = t['k']
    if k == 'void':
        return
    if k == 'bool':
        out.append('1' if bool(x) else '0')
    elif k in ('uint', 'int'):
        out.append(str(int(x)))
    elif k == 'float':
        if t['w'] == 64:
            out.append('%x' % f64_bits(x))
        elif isinstance(x, np.float32):
            out.append('%x' % int(np.array([x], np.float32).view(np.uint32)[0]))  # exact, NaN payload included
        else:
            out.append('%x' % f32_bits(float(x)))
    elif k in ('farr', 'varr'):
        n = len(x)
        if k == 'varr':
            out.append(str(n))
        elif n != t['n']:
            raise RuntimeError('fixed array attribute holds %d elements, type says %d' % (n, t['n']))
        et = t['elem']
        for e in x:
            dump_value(et, e, out)
    elif k == 'ref':
        dump_obj(t['id'], x, out)
    else:
        raise BadRequest('cannot dump kind %r' % k)


def dump_obj(tid, obj, out):
    c = TYPES[tid]
    if not isinstance(obj, get_cls(tid)):
        raise RuntimeError('expected an instance of %s, found %s' % (tid, type(obj).__name__))
    if c['kind'] == 'union':
        active = [i for i, f in enumerate(c['fields']) if getattr(obj, attr_name(tid, f['name'])) is not None]
        if len(active) != 1:
            raise RuntimeError('malformed union %s: active options %r' % (tid, active))
        i = active[0]
        out.append(str(i))
        dump_value(c['fields'][i]['type'], getattr(obj, attr_name(tid, c['fields'][i]['name'])), out)
        return
    for f in c['fields']:
        if f['name'] == '':
            continue
        dump_value(f['type'], getattr(obj, attr_name(tid, f['name'])), out)


# ------------------------------------------------------------------------------------------------------------------
# operations
# ------------------------------------------------------------------------------------------------------------------

def one_line(s):
    return ' '.join(str(s).split())


def ser_bytes(obj):
    with np.errstate(all='ignore'):
        return b''.join(bytes(frag) for frag in ns.serialize(obj))


def hex_or_dash(b):
    return b.hex() if b else '-'


def op_ser(args):
    if len(args) < 3:
        raise BadRequest('ser needs <type_id> <cap> <fill>')
    tid, cap = args[0], int(args[1])
    c = TYPES.get(tid)
    if c is None:
        raise BadRequest('unknown type id %s' % tid)
    try:
        v = parse_all(parse_comp, c, args[3:])
        obj = build_obj(tid, v)
    except Rejected as r:
        return 'err rejected %s %s' % (r.exc_type, one_line(r.text))
    try:
        data = ser_bytes(obj)
    except Exception as ex:  # the serializer has no documented failure mode: whatever it raises is reported
        return 'err invalid_arg raised:%s %s' % (type(ex).__name__, one_line(ex))
    if len(data) > cap:
        return 'err too_small %d' % len(data)
    return 'ok %d %s' % (len(data), hex_or_dash(data))


def op_des(args):
    if len(args) != 3:
        raise BadRequest('des needs <type_id> <prior> <hex|->')
    tid, _prior, hx = args
    if tid not in TYPES:
        raise BadRequest('unknown type id %s' % tid)
    cls = get_cls(tid)
    try:
        data = bytearray() if hx == '-' else bytearray.fromhex(hx)
    except ValueError:
        raise BadRequest('bad hex') from None
    n = int(OPTS['fragment'] or 0)
    if n > 0 and len(data) > n:
        frags = [memoryview(data[i:i + n]) for i in range(0, len(data), n)]
    else:
        frags = [memoryview(data)]
    try:
        with np.errstate(all='ignore'):
            obj = ns.deserialize(cls, frags)
    except Exception as ex:  # deserialize() documents that it never raises on bad input: a raise is a defect
        return 'err invalid_arg raised:%s %s' % (type(ex).__name__, one_line(ex))
    if obj is None:
        return 'err format'
    out = []
    dump_obj(tid, obj, out)
    return ' '.join(['ok', '-'] + out)


def const_token(t, x):
    k = t['k']
    if k == 'bool':
        return '1' if x else '0'
    if k in ('uint', 'int'):
        if isinstance(x, float) and not x.is_integer():
            return repr(x)
        return str(int(x))
    if k == 'float':
        return '%x' % (f64_bits(x) if t['w'] == 64 else f32_bits(float(x)))
    return repr(x)


def op_meta(args):
    if len(args) != 1:
        raise BadRequest('meta needs <type_id>')
    tid = args[0]
    c = TYPES.get(tid)
    if c is None:
        raise BadRequest('unknown type id %s' % tid)
    cls = get_cls(tid)
    import pydsdl
    model = ns.get_model(cls)
    port = ns.get_fixed_port_id(cls)
    out = ['ok',
           'extent_bytes=%d' % ns.get_extent_bytes(cls),
           # no buffer_bytes: the generated Python has no such constant (serialize() allocates _EXTENT_BYTES_ + 1)
           'full_name=%s' % model.full_name,
           'major=%d' % model.version.major,
           'minor=%d' % model.version.minor,
           'port_id=%s' % ('none' if port is None else port)]
    for f in model.fields_except_padding:
        if isinstance(f.data_type, pydsdl.ArrayType):
            out.append('cap.%s=%d' % (f.name, f.data_type.capacity))
    if isinstance(model.inner_type, pydsdl.UnionType):
        out.append('union_count=%d' % len(model.inner_type.fields))
    by_name = {k['name']: k for k in c['constants']}
    for k in model.constants:
        val = ns.get_attribute(cls, k.name)
        t = by_name[k.name]['type'] if k.name in by_name else None
        out.append('const.%s=%s' % (k.name, const_token(t, val) if t else repr(val)))
    return ' '.join(out)


def _field_json(tid, name):
    for f in TYPES[tid]['fields']:
        if f['name'] == name and name != '':
            return f
    raise BadRequest('type %s has no field %s' % (tid, name))


def op_set(args):
    """set <type_id> <field> <tokens...>   |   set <type_id> <field> @json <JSON text to end of line>
    -> ok <hex after>  |  err rejected <ExcType> <hex after> <text>     (hex '-' when empty, '?' when not serializable)"""
    if len(args) < 2:
        raise BadRequest('set needs <type_id> <field_name> <tokens...>')
    tid, fname, rest = args[0], args[1], args[2:]
    if tid not in TYPES:
        raise BadRequest('unknown type id %s' % tid)
    f = _field_json(tid, fname)
    cls = get_cls(tid)
    obj = cls()
    if rest and rest[0] == '@json':
        try:
            val = json.loads(' '.join(rest[1:]))
        except ValueError as ex:
            raise BadRequest('bad JSON: %s' % ex) from None
    else:
        try:
            v = parse_all(parse_value, f['type'], rest)
            with np.errstate(all='ignore'):
                val = make_value(f['type'], v)
        except Rejected as r:
            return 'err rejected nested:%s ? %s' % (r.exc_type, one_line(r.text))
        except REJECT_EXC as ex:
            return 'err rejected nested:%s ? %s' % (type(ex).__name__, one_line(ex))

    def after():
        try:
            return hex_or_dash(ser_bytes(obj))
        except Exception:
            return '?'

    try:
        with np.errstate(all='ignore'):
            setattr(obj, attr_name(tid, fname), val)
    except Exception as ex:
        return 'err rejected %s %s %s' % (type(ex).__name__, after(), one_line(ex))
    return 'ok %s' % after()


def op_builtin(args):
    """builtin <type_id> <tokens...> -> ok <hex of serialize(update_from_builtin(Class(), to_builtin(obj)))> <hex of serialize(obj)>"""
    if len(args) < 1:
        raise BadRequest('builtin needs <type_id> <tokens...>')
    tid = args[0]
    c = TYPES.get(tid)
    if c is None:
        raise BadRequest('unknown type id %s' % tid)
    try:
        v = parse_all(parse_comp, c, args[1:])
        obj = build_obj(tid, v)
    except Rejected as r:
        return 'err rejected %s %s' % (r.exc_type, one_line(r.text))
    try:
        ref = ser_bytes(obj)
    except Exception as ex:
        return 'err invalid_arg raised:%s %s' % (type(ex).__name__, one_line(ex))
    try:
        with np.errstate(all='ignore'):
            b = ns.to_builtin(obj)
            b = json.loads(json.dumps(b)) if OPTS.get('builtin_via_json') else b
            obj2 = ns.update_from_builtin(get_cls(tid)(), b)
        back = ser_bytes(obj2)
    except Exception as ex:
        return 'err invalid_arg builtin-raised:%s %s' % (type(ex).__name__, one_line(ex))
    return 'ok %s %s' % (hex_or_dash(back), hex_or_dash(ref))


# model comparison ---------------------------------------------------------------------------------------------------

_SRC_MODELS = None
NS_DIRS = []


def src_models():
    global _SRC_MODELS
    if _SRC_MODELS is None:
        import pydsdl
        out = {}
        for i, root in enumerate(NS_DIRS):
            others = [d for j, d in enumerate(NS_DIRS) if j != i]
            for t in pydsdl.read_namespace(root, others, allow_unregulated_fixed_port_id=True):
                key = '%s.%d.%d' % (t.full_name, t.version.major, t.version.minor)
                out[key] = t
                if isinstance(t, pydsdl.ServiceType):
                    for part in (t.request_type, t.response_type):
                        out['%s.%d.%d' % (part.full_name, part.version.major, part.version.minor)] = part
        _SRC_MODELS = out
    return _SRC_MODELS


def canon(t, depth=0):
    """Deep structural description of a pydsdl type (pydsdl's own == only compares name, version and bit length set)."""
    import pydsdl
    d = {'class': type(t).__name__, 'str': str(t), 'align': t.alignment_requirement}
    try:
        bls = t.bit_length_set
        d['bls'] = (bls.min, bls.max, bls.fixed_length)
    except TypeError:
        d['bls'] = None
    if isinstance(t, pydsdl.PrimitiveType):
        d['cast'] = str(t.cast_mode)
        d['bits'] = t.bit_length
    elif isinstance(t, pydsdl.VoidType):
        d['bits'] = t.bit_length
    elif isinstance(t, pydsdl.ArrayType):
        d['capacity'] = t.capacity
        d['string_like'] = bool(t.string_like)
        d['elem'] = canon(t.element_type, depth + 1)
    elif isinstance(t, pydsdl.ServiceType):
        d.update(full_name=t.full_name, version=tuple(t.version), deprecated=t.deprecated, fixed_port_id=t.fixed_port_id,
                 doc=t.doc, request=canon(t.request_type, depth + 1), response=canon(t.response_type, depth + 1),
                 source=os.path.basename(str(t.source_file_path)))
    elif isinstance(t, pydsdl.CompositeType):
        d.update(full_name=t.full_name, version=tuple(t.version), deprecated=t.deprecated, fixed_port_id=t.fixed_port_id,
                 doc=t.doc, has_parent_service=t.has_parent_service, extent=t.extent,
                 inner=type(t.inner_type).__name__, sealed=not isinstance(t, pydsdl.DelimitedType),
                 source=os.path.basename(str(t.source_file_path)))
        if isinstance(t.inner_type, pydsdl.UnionType):
            d['tag_bits'] = t.inner_type.tag_field_type.bit_length
        d['attributes'] = []
        for a in t.attributes:
            ad = {'class': type(a).__name__, 'name': a.name, 'doc': a.doc, 'type': canon(a.data_type, depth + 1)}
            if isinstance(a, pydsdl.Constant):
                ad['value'] = str(a.value)
            d['attributes'].append(ad)
    return d


def first_diff(a, b, path=''):
    if type(a) is not type(b):
        return path or '.'
    if isinstance(a, dict):
        for k in sorted(set(a) | set(b)):
            if k not in a or k not in b:
                return '%s/%s' % (path, k)
            r = first_diff(a[k], b[k], '%s/%s' % (path, k))
            if r:
                return r
        return None
    if isinstance(a, (list, tuple)):
        if len(a) != len(b):
            return path + '/len'
        for i, (x, y) in enumerate(zip(a, b)):
            r = first_diff(x, y, '%s/%d' % (path, i))
            if r:
                return r
        return None
    return None if a == b else (path or '.')


def op_model(args):
    """model <type_id> -> ok equal | ok differ <path of the first difference>   (service id allowed as well)"""
    if len(args) != 1:
        raise BadRequest('model needs <type_id>')
    tid = args[0]
    src = src_models().get(tid)
    if src is None:
        raise BadRequest('type %s not found in the DSDL source directories' % tid)
    if tid in TYPES:
        cls = get_cls(tid)
    else:   # a service as a whole: "ns.Svc.1.0"
        parts = tid.split('.')
        mod = _import_ns(parts[:-3])
        cls = getattr(mod, '%s_%s_%s' % (parts[-3], parts[-2], parts[-1]))
    emb = ns.get_model(cls)
    if emb is not cls._MODEL_:
        return 'ok differ get_model'
    d = first_diff(canon(emb), canon(src))
    if d is None and not (emb == src and src == emb):
        d = 'pydsdl.__eq__'
    return 'ok equal' if d is None else 'ok differ %s' % d


def op_die(args):
    """selftest only (option selftest_ops): die like a crashing driver would"""
    sys.stderr.write('selftest: dying on request\n')
    sys.stderr.flush()
    os._exit(3)


def op_sleep(args):
    """selftest only (option selftest_ops)"""
    import time
    time.sleep(float(args[0]))
    return 'ok'


# ------------------------------------------------------------------------------------------------------------------
# histories: several calls in ONE process with earlier results kept alive (object aliasing across calls)
# ------------------------------------------------------------------------------------------------------------------

def _arrays_of(x, acc, depth=0):
    """every numpy array reachable from a generated object (fields, nested composites, arrays of composites)"""
    if depth > 12:
        return
    if isinstance(x, np.ndarray):
        if x.dtype == object:
            for e in x.flat:
                _arrays_of(e, acc, depth + 1)
        else:
            acc.append(x)
        return
    if isinstance(x, (list, tuple)):
        for e in x:
            _arrays_of(e, acc, depth + 1)
        return
    d = getattr(x, '__dict__', None)
    if d is not None and type(x).__module__ not in ('builtins', 'numpy'):
        for v in d.values():
            _arrays_of(v, acc, depth + 1)


def op_hist(args):
    """hist <step> ;; <step> ;; ...   -> `ok ;; <answer of step 1> ;; <answer of step 2> ...`
    Everything a step produces stays referenced until the end of the history (decoded objects, their input buffers, the
    fragments serialize() returned - NOT copied), so that aliasing between calls becomes observable.
      des <tid> <hex|-> <name>        deserialize, keep the object as <name>                -> ok - <tokens>
      ser <tid> <name> <tokens...>    build the object from tokens, serialize, keep the returned fragments as <name> and the
                                      object as <name>.obj                                  -> ok <size> <hex>
      reser <obj> <name>              serialize a kept object again, keep the fragments     -> ok <size> <hex>
      frag <name>                     read the kept fragments of an EARLIER serialize again -> ok <size> <hex>
      desfrag <tid> <frag> <name>     deserialize from kept fragments (zero-copy views), keep -> ok - <tokens>
      dump <obj>                      dump a kept object again                              -> ok - <tokens>
      mutate <obj>                    overwrite in place every writeable numpy array reachable from a kept object (the caller
                                      owns the object it was handed)                        -> ok <arrays written>"""
    steps, cur = [], []
    for a in args:
        if a == ';;':
            steps.append(cur)
            cur = []
        else:
            cur.append(a)
    if cur:
        steps.append(cur)
    kept = {}
    alive = []
    out = ['ok']

    def ser_keep(obj, name):
        with np.errstate(all='ignore'):
            frags = list(ns.serialize(obj))
        kept[name] = frags
        alive.append(frags)
        data = b''.join(bytes(f) for f in frags)
        return 'ok %d %s' % (len(data), hex_or_dash(data))

    for st in steps:
        try:
            op = st[0]
            if op == 'des':
                tid, hx, name = st[1], st[2], st[3]
                data = bytearray() if hx == '-' else bytearray.fromhex(hx)
                alive.append(data)
                with np.errstate(all='ignore'):
                    obj = ns.deserialize(get_cls(tid), [memoryview(data)])
                if obj is None:
                    out.append('err format')
                    continue
                kept[name] = obj
                toks = []
                dump_obj(tid, obj, toks)
                kept[name + '.tid'] = tid
                out.append(' '.join(['ok', '-'] + toks))
            elif op == 'ser':
                tid, name = st[1], st[2]
                v = parse_all(parse_comp, TYPES[tid], st[3:])
                obj = build_obj(tid, v)
                kept[name + '.obj'] = obj
                kept[name + '.obj.tid'] = tid
                out.append(ser_keep(obj, name))
            elif op == 'reser':
                out.append(ser_keep(kept[st[1]], st[2]))
            elif op == 'frag':
                data = b''.join(bytes(f) for f in kept[st[1]])
                out.append('ok %d %s' % (len(data), hex_or_dash(data)))
            elif op == 'desfrag':
                tid, fname, name = st[1], st[2], st[3]
                with np.errstate(all='ignore'):
                    obj = ns.deserialize(get_cls(tid), kept[fname])
                if obj is None:
                    out.append('err format')
                    continue
                kept[name] = obj
                kept[name + '.tid'] = tid
                toks = []
                dump_obj(tid, obj, toks)
                out.append(' '.join(['ok', '-'] + toks))
            elif op == 'dump':
                toks = []
                dump_obj(kept[st[1] + '.tid'], kept[st[1]], toks)
                out.append(' '.join(['ok', '-'] + toks))
            elif op == 'mutate':
                arrs = []
                _arrays_of(kept[st[1]], arrs)
                n = 0
                for a in arrs:
                    try:
                        if a.dtype == np.bool_:
                            a[...] = True
                        elif a.dtype.kind == 'f':
                            a[...] = 1.5
                        else:
                            a[...] = np.iinfo(a.dtype).max
                        n += 1
                    except (ValueError, TypeError):     # read-only view: nothing the caller can do to it
                        pass
                out.append('ok %d' % n)
            else:
                raise BadRequest('unknown history step %s' % op)
        except Rejected as r:
            out.append('err rejected %s %s' % (r.exc_type, one_line(r.text)))
        except BadRequest:
            raise
        except Exception as ex:  # noqa: BLE001
            out.append('err invalid_arg raised:%s %s' % (type(ex).__name__, one_line(ex)))
    return ' ;; '.join(out)


OPS = {'hist': op_hist, 'ser': op_ser, 'des': op_des, 'meta': op_meta, 'set': op_set, 'builtin': op_builtin, 'model': op_model,
       'ping': lambda args: 'ok'}


def handle(line):
    parts = line.split()
    if not parts:
        return 'err invalid_arg empty request'
    fn = OPS.get(parts[0])
    if fn is None:
        return 'err invalid_arg unknown op %s' % one_line(parts[0])
    try:
        return fn(parts[1:])
    except BadRequest as ex:
        return 'err invalid_arg bad-request %s' % one_line(ex)
    except Exception as ex:  # never die on a request
        return 'err invalid_arg raised:%s %s' % (type(ex).__name__, one_line(repr(ex)))


def main(argv):
    global NS_DIRS
    if len(argv) < 2:
        sys.stderr.write('usage: driver.py <types.json> <root_ns_dir> [<lookup_dir> ...]\n')
        return 2
    with open(argv[1]) as fh:
        for c in json.load(fh)['types']:
            TYPES[c['id']] = c
    NS_DIRS = list(argv[2:])
    env = os.environ.get('CODEC_PY_OPTS')
    if env:
        OPTS.update(json.loads(env))
    if OPTS.get('selftest_ops'):
        OPS['_die'] = op_die
        OPS['_sleep'] = op_sleep
    warnings.simplefilter('ignore')
    sys.setrecursionlimit(10000)
    # the protocol channel is the ORIGINAL stdout; anything generated code might print goes to stderr
    chan = os.fdopen(os.dup(1), 'w', buffering=1, encoding='ascii', errors='backslashreplace')
    os.dup2(2, 1)
    for line in sys.stdin:
        try:
            resp = handle(line)
        except BaseException as ex:   # RecursionError inside the handler of handle() etc.
            if isinstance(ex, (KeyboardInterrupt, SystemExit)):
                raise
            resp = 'err invalid_arg raised:%s' % type(ex).__name__
        chan.write(resp + '\n')
        chan.flush()
    return 0


if __name__ == '__main__':
    sys.exit(main(sys.argv))
