#!/venv/bin/python
"""Second, independent reference for the wire specification: pydsdl's own serializer (pydsdl.serialize / deserialize).

stdin: {"ns_dirs": [...], "db": <astdump JSON>, "cases": [{"op": "ser", "tid":, "value": <abstract value>} | {"op": "des", "tid":, "hex":}]}
stdout: {"out": ["ok <size> <hex>" | "ok ? <tokens>" | "err <class>" | "skip <why>"]}
(run with /venv/bin/python; needs pydsdl only).  Abstract values as in proto.py."""
import json
import os
import sys

sys.path.insert(0, os.path.dirname(os.path.dirname(os.path.dirname(os.path.dirname(os.path.abspath(__file__))))))

import pydsdl  # noqa: E402

from tools.harness.codec import proto  # noqa: E402


def comp_id(t):
    return "%s.%d.%d" % (t.full_name, t.version.major, t.version.minor)


def collect(ns_dirs):
    top = pydsdl.read_namespace(ns_dirs[0], ns_dirs[1:], allow_unregulated_fixed_port_id=True)
    out = {}

    def visit(t):
        if isinstance(t, pydsdl.ServiceType):
            visit(t.request_type)
            visit(t.response_type)
            return
        if comp_id(t) in out:
            return
        out[comp_id(t)] = t
        for f in t.fields:
            dt = f.data_type
            while isinstance(dt, pydsdl.ArrayType):
                dt = dt.element_type
            if isinstance(dt, pydsdl.CompositeType):
                visit(dt)
    for t in top:
        visit(t)
    return out


class Skip(Exception):
    pass


def to_py(db, t, v):
    k = t['k']
    if k == 'bool':
        return bool(v)
    if k in ('uint', 'int'):
        return int(v)
    if k == 'float':
        return proto.f64_from_bits(v) if t['w'] == 64 else proto.f32_from_bits(v)
    if k in ('farr', 'varr'):
        e = t['elem']
        if e['k'] == 'uint' and e.get('flavor') == 'utf8':
            b = bytes(x & 0xFF for x in v)
            if any(x > 255 for x in v):
                raise Skip('utf8 element outside a byte')
            try:
                b.decode('utf-8')
            except UnicodeDecodeError:
                raise Skip('not valid UTF-8 (pydsdl refuses)')
            return b
        return [to_py(db, e, x) for x in v]
    if k == 'ref':
        return comp_to_py(db, db.comp(t['id']), v)
    raise ValueError(k)


def comp_to_py(db, c, v):
    if c['kind'] == 'union':
        if not 0 <= v['tag'] < len(c['fields']):
            raise Skip('invalid tag is not expressible')
        f = c['fields'][v['tag']]
        return {f['name']: to_py(db, f['type'], v['value'])}
    return {f['name']: to_py(db, f['type'], x) for f, x in zip(c['fields'], v) if f['type']['k'] != 'void'}


def from_py(db, t, o):
    k = t['k']
    if k == 'void':
        return None
    if k == 'bool':
        return 1 if o else 0
    if k in ('uint', 'int'):
        return int(o)
    if k == 'float':
        return proto.f64_bits(o) if t['w'] == 64 else proto.f32_bits(o)
    if k in ('farr', 'varr'):
        e = t['elem']
        if isinstance(o, str):
            o = o.encode('utf-8')
        if isinstance(o, (bytes, bytearray)):
            return list(o)
        return [from_py(db, e, x) for x in o]
    return comp_from_py(db, db.comp(t['id']), o)


def comp_from_py(db, c, o):
    if c['kind'] == 'union':
        (name, val), = o.items()
        for i, f in enumerate(c['fields']):
            if f['name'] == name:
                return {'tag': i, 'value': from_py(db, f['type'], val)}
        raise ValueError(name)
    return [None if f['type']['k'] == 'void' else from_py(db, f['type'], o[f['name']]) for f in c['fields']]


def main():
    doc = json.load(sys.stdin)
    db = proto.TypeDB(doc['db'])
    types = collect(doc['ns_dirs'])
    out = []
    for case in doc['cases']:
        c = db.comp(case['tid'])
        schema = types[case['tid']]
        try:
            if case['op'] == 'ser':
                obj = comp_to_py(db, c, case['value'])
                b = pydsdl.serialize(schema, obj)
                out.append('ok %d %s' % (len(b), b.hex() or '-'))
            else:
                data = bytes.fromhex(case['hex'] if case['hex'] != '-' else '')
                obj = pydsdl.deserialize(schema, data)
                out.append(' '.join(['ok', '?'] + proto.encode_comp(db, c, comp_from_py(db, c, obj))))
        except Skip as ex:
            out.append('skip %s' % ex)
        except UnicodeDecodeError:
            out.append('skip not valid UTF-8 (pydsdl refuses)')
        except pydsdl._serdes.ArrayLengthError:
            out.append('err bad_length')
        except pydsdl._serdes.UnionTagError:
            out.append('err bad_tag')
        except pydsdl._serdes.DelimiterHeaderError:
            out.append('err bad_header')
        except Exception as ex:  # noqa: BLE001
            out.append('crash %s: %s' % (type(ex).__name__, str(ex)[:200]))
    json.dump({'out': out}, sys.stdout)


if __name__ == '__main__':
    main()
