"""C19 harness: runs the bundled Jinja2 of the working tree (PYTHONPATH=<repo>/src) and the stock Jinja2 installed in
/venv on JSON requests from stdin ({"op": ..., "cases": [...]}) and prints {"out": [...]}.

ops
  (lex / render_b / diff cases may carry "opts": keyword arguments of Environment -- lstrip_blocks, trim_blocks,
   keep_trailing_newline, delimiters, line statement / comment prefixes -- applied to BOTH engines)
  lex        case = source string | {"src", "opts"} -> {"b": {"toks": [[kind, value]...], "err": str|None}, "s": {...}}
  lineprefix case = [s, prefix]              -> {"ok": text} | {"err": class}      (bundled filters.do_lineprefix)
  render_b   case = {"templates", "main", "ctx"} -> {"ok": text} | {"err": class}  (bundled plain Environment + DictLoader)
  diff       case = {"templates", "main", "ctx"} -> {"b": {...}, "s": {...}}        (both plain Environments)
  ext        case = {"src", "ctx", "queries": {name: bool}} -> {"ok"...}            (nunavut CodeGenEnvironment, target c)
  render_cg  case = {"templates", "main", "ctx", "opts": {trim_blocks, lstrip_blocks}} -> {"ok"} | {"err"}   (real CodeGenEnvironment)
  ext_seq    case = {"templates", "plain", "scripts": {name: [bool]}, "steps": [template name]} -> {"n": [...], "s": [...]}
  parse_b    case = source string            -> repr of the bundled AST (env.parse) | {"err": class}
"""
import json
import sys


def _err(ex):
    out = {'err': type(ex).__name__}
    ln = getattr(ex, 'lineno', None)
    if isinstance(ln, int):
        out['lineno'] = ln          # TemplateSyntaxError / TemplateAssertionError: the template line both engines blame
    return out


def main():
    doc = json.load(sys.stdin)
    op, cases = doc['op'], doc['cases']
    outs = []
    import nunavut.jinja.jinja2 as B
    import jinja2 as S

    def lex_one(env, lexer_mod, src):
        toks, err = [], None
        try:
            for _lineno, kind, value in lexer_mod.get_lexer(env).tokeniter(src, None):
                toks.append([str(kind), value])
        except Exception as ex:  # noqa
            err = type(ex).__name__
        return {'toks': toks, 'err': err}

    FINALIZERS = {'none_to_empty': (lambda v: '' if v is None else v)}

    def env_opts(c, mod):
        o = dict(c.get('opts', {}))
        if 'finalize' in o:
            o['finalize'] = FINALIZERS[o['finalize']]
        if o.pop('strict_undefined', False):
            o['undefined'] = mod.StrictUndefined
        return o

    def render(envcls, loadercls, c):
        try:
            env = envcls(loader=loadercls(c['templates']), **env_opts(c, B if envcls is B.Environment else S))
            return {'ok': env.get_template(c['main']).render(**c['ctx'])}
        except RecursionError:
            return {'err': 'RecursionError'}
        except Exception as ex:  # noqa
            return _err(ex)

    if op == 'lex':
        from nunavut.jinja.jinja2 import lexer as BL
        from jinja2 import lexer as SL
        for c in cases:
            src, opts = (c, {}) if isinstance(c, str) else (c['src'], c.get('opts', {}))
            outs.append({'b': lex_one(B.Environment(**opts), BL, src), 's': lex_one(S.Environment(**opts), SL, src)})
    elif op == 'lineprefix':
        from nunavut.jinja.jinja2.filters import do_lineprefix
        for s, p in cases:
            try:
                outs.append({'ok': do_lineprefix(s, p)})
            except Exception as ex:  # noqa
                outs.append(_err(ex))
    elif op == 'render_b':
        for c in cases:
            outs.append(render(B.Environment, B.DictLoader, c))
    elif op == 'diff':
        for c in cases:
            outs.append({'b': render(B.Environment, B.DictLoader, c), 's': render(S.Environment, S.DictLoader, c)})
    elif op == 'parse_b':
        be = B.Environment()
        for src in cases:
            try:
                outs.append({'ok': repr(be.parse(src))})
            except Exception as ex:  # noqa
                outs.append(_err(ex))
    elif op == 'ext':
        from nunavut.jinja import CodeGenEnvironmentBuilder
        from nunavut.lang import LanguageContextBuilder
        lctx = LanguageContextBuilder().set_target_language('c').create()
        for c in cases:
            try:
                env = CodeGenEnvironmentBuilder(B.DictLoader({'t': c['src']}), lctx).create()
                uq = env.globals['uses_queries']
                for k, v in c.get('queries', {}).items():
                    setattr(uq, k, (lambda r: (lambda: r))(v))
                outs.append({'ok': env.get_template('t').render(**c['ctx'])})
            except Exception as ex:  # noqa
                outs.append(_err(ex))
    elif op == 'render_cg':
        # nunavut's own environment class (extensions, StrictUndefined, keep_trailing_newline, select_autoescape, its filters/tests),
        # target language c, trim_blocks / lstrip_blocks as the nnvg options set them
        from nunavut.jinja import CodeGenEnvironmentBuilder
        from nunavut.jinja.jinja2.filters import do_lineprefix as _lp
        from nunavut.lang import LanguageContextBuilder
        lctx = LanguageContextBuilder().set_target_language('c').create()
        for c in cases:
            try:
                o = c.get('opts', {})
                env = (CodeGenEnvironmentBuilder(B.DictLoader(c['templates']), lctx).set_trim_blocks(bool(o.get('trim_blocks')))
                       .set_lstrip_blocks(bool(o.get('lstrip_blocks'))).create())
                if env.filters.get('lineprefix') is not _lp:
                    outs.append({'err': 'LineprefixFilterReplaced'})
                    continue
                outs.append({'ok': env.get_template(c['main']).render(**c['ctx'])})
            except Exception as ex:  # noqa
                outs.append(_err(ex))
    elif op == 'ext_seq':
        # one long-lived CodeGenEnvironment per case; use queries (and context callables a<i>()) answer from scripts that advance
        # with every call, so answers change between AND during renders; on odd steps the query attributes are re-pointed to
        # fresh callables.  The stock side renders the ordinary {% if q() %} translations over an identical copy of the scripts.
        from nunavut.jinja import CodeGenEnvironmentBuilder
        from nunavut.lang import LanguageContextBuilder
        lctx = LanguageContextBuilder().set_target_language('c').create()

        def make_world(scripts):
            state = {k: list(v) for k, v in scripts.items()}

            def asker(k):
                def ask():
                    lst = state[k]
                    return lst.pop(0) if len(lst) > 1 else (lst[0] if lst else False)
                return ask
            return asker
        for c in cases:
            res = {'n': [], 's': []}
            try:
                env = CodeGenEnvironmentBuilder(B.DictLoader(c['templates']), lctx).create()
                senv = S.Environment(loader=S.DictLoader(c['plain']))
                uq = env.globals['uses_queries']
                ask_n, ask_s = make_world(c['scripts']), make_world(c['scripts'])
                fn_n = {k: ask_n(k) for k in c['scripts']}
                fn_s = {k: ask_s(k) for k in c['scripts']}
                for k, f in fn_n.items():
                    setattr(uq, k, f)
                for i, name in enumerate(c['steps']):
                    if i % 2 == 1:
                        for k, f in fn_n.items():
                            setattr(uq, k, (lambda g: (lambda: g()))(f))
                    try:
                        res['n'].append({'ok': env.get_template(name).render(**fn_n)})
                    except Exception as ex:  # noqa
                        res['n'].append(_err(ex))
                    try:
                        res['s'].append({'ok': senv.get_template(name).render(**fn_s)})
                    except Exception as ex:  # noqa
                        res['s'].append(_err(ex))
            except Exception as ex:  # noqa
                res['setup_error'] = repr(ex)
            outs.append(res)
    else:
        raise SystemExit('unknown op ' + op)
    sys.stdout.write('\n@@C19@@' + json.dumps({'out': outs}))


if __name__ == '__main__':
    main()
