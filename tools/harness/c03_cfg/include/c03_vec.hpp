// Minimal vector-like container for the C03 pairwise build with a custom variable_array_type_template.
// Same interface as std::vector (it is one), but a distinct class template with the DSDL capacity as a template argument.
#ifndef C03_VEC_HPP
#define C03_VEC_HPP
#include <cstddef>
#include <vector>
namespace c03stub
{
template <typename T, std::size_t MaxSize>
class vec : public std::vector<T>
{
public:
    using std::vector<T>::vector;
    static constexpr std::size_t max_size_c03 = MaxSize;
};
}  // namespace c03stub
#endif
