"""Engine of check C03: round trip, cross-target and cross-option agreement of the generated codecs.

Oracle-free (metamorphic) part: the SAME requests are sent to every built (target, option set); the answers are compared
PAIRWISE with each other (bytes of `ser`; consumed size + decoded tokens of `des`; success-vs-error and error class), and every
target is sent through its own chains ser -> des -> ser (re-serialization reproduces the bytes, the deserializer consumes exactly
what the serializer emitted) and des -> ser -> des (decoding re-encoded decoded data is stable).
Model part: every answer is also compared with the per-target observable of Spec/TargetsC03.v (extracted): `ser` for C and C++,
`pser` (struct.pack('<e') rounds half to even) for Python, `des` for all, `cast` for the round-trip value.

Documented observability limits that are respected, not papered over (design_notes/codec_target_py.md):
  Python: no caller buffer (capacity strata are C/C++ only), consumed size not observable ('-'), one error class (`format`),
  setters reject values outside the wire range and finite floats beyond the float16/32 range (`err rejected`: the request is not
  comparable for that target and counted), NaN payloads travel through a Python double (NaN fields: any NaN pattern).
  C++: an object with an invalid union tag cannot be built (`err rejected`).
Finding F-F16-TIE (C/C++ round float16 ties away from zero, Python to even) is probed on every run; while it reproduces, a
C-family/Python pair may differ on a request whose value holds an exact tie in a float16 field AND both sides answer exactly what
their models predict; any other difference is reported."""
from __future__ import annotations

import concurrent.futures
import json
import os
import shutil
import time
import typing

from tools.lib import core
from tools.harness.codec import campaign, dsdlgen, model as modelmod, proto, valgen

TIE = 'F-F16-TIE'
# translators whose output is in the cone of Properties/C03.v: the option list of properties.yaml (classification of every language
# option), nunavut.lang.c.is_zero_cost_primitive (which array path a C build takes), the macro structure of the codec templates
GENERATORS = ['optguard', 'c03opt', 'c01', 'codec_tpl']

# deterministic types added to every generated namespace: the finding's witness and layouts the drills aim at
OWN_FILES = {
    'nsa/c03/Tie.1.0.dsdl': 'truncated float16 t\nsaturated float16 s\nbool b\ntruncated float16 u\nsaturated float16[2] a\n@sealed\n',
    'nsa/c03/Mix.1.0.dsdl': ('uint24 a\ntruncated uint12 b\nsaturated uint12 c\nfloat32 f\nbool g\ntruncated float32 h\nint24 i\n'
                             'truncated uint24[2] arr\nsaturated uint7 j\ntruncated uint7 k\nvoid2\nfloat64 d\n@sealed\n'),
}
TIE_TID = 'nsa.c03.Tie.1.0'
MIX_TID = 'nsa.c03.Mix.1.0'
# 1 + 2^-11 (away -> 0x3C01, even -> 0x3C00), 1 + 3*2^-11 (both 0x3C02), the smallest subnormal tie 2^-25 (away 1, even 0)
OWN_SER = [
    (TIE_TID, [0x3F801000, 0x3F801000, 1, 0x3F801000, [0x3F801000, 0xBF801000]], ['f16_tie', 'own']),
    (TIE_TID, [0x3F803000, 0x3F803000, 0, 0x3F803000, [0x33000000, 0xB3000000]], ['f16_tie', 'own']),
    (TIE_TID, [0x3F801001, 0x3F800FFF, 1, 0x3F802000, [0x33000001, 0x32FFFFFF]], ['f16_near_tie', 'own']),
    (TIE_TID, [0x477FE000, 0xC77FE000, 0, 0x7F800000, [0xFF800000, 0x00000000]], ['f16_max', 'own']),
    (MIX_TID, [0xFFFFFF, 0xFFF, 0xFFF, 0x3F800001, 1, 0xC0490FDB, -8388608, [0xFFFFFF, 0x010203], 127, 127, None, 0x400921FB54442D18],
     ['own']),
    (MIX_TID, [0x123456, 0xABC, 0x123, 0x7F7FFFFF, 0, 0x00000001, 8388607, [1, 0x800000], 1, 64, None, 0xFFEFFFFFFFFFFFFF], ['own']),
]
WITNESS_VALUE = [0x3F801000, 0x3F801000, 0, 0, [0, 0]]
WITNESS_VALUE_ARRAY = [0, 0, 0, 0, [0x3F801000, 0xBF801000]]


# ------------------------------------------------------------------------------------------------
# option matrix
# ------------------------------------------------------------------------------------------------

CFG_DIR = os.path.join(os.path.dirname(os.path.abspath(__file__)), 'c03_cfg')
# C++ builds under option VALUES no other check builds (audit3 C03 #1): the uses-leading-allocator constructor convention (pmr flavour)
# and a custom variable-length array container (harness stub c03_cfg/include/c03_vec.hpp); nnvg --configuration overrides
CPP_LEADING = {'std': 'c++17-pmr', 'target_endianness': 'any', 'nnvg_extra': ['--configuration', os.path.join(CFG_DIR, 'leading_alloc.yaml')]}
CPP_CUSTOM_VEC = {'std': 'c++17', 'target_endianness': 'little', 'enable_serialization_asserts': True,
                  'nnvg_extra': ['--configuration', os.path.join(CFG_DIR, 'custom_vec.yaml')],
                  'extra_cxxflags': ['-I', os.path.join(CFG_DIR, 'include')]}

def option_matrix(tier: str, rng) -> typing.List[typing.Tuple[str, dict]]:
    if tier == 'quick':
        return [('target_c', {'target_endianness': 'any'}),
                ('target_c', {'target_endianness': 'little', 'enable_serialization_asserts': True}),
                ('target_c', {'target_endianness': 'big', 'enable_override_variable_array_capacity': True}),
                ('target_cpp', {'target_endianness': 'any', 'std': 'c++14', 'enable_override_variable_array_capacity': True}),
                ('target_cpp', {'target_endianness': 'little', 'std': 'c++17', 'enable_serialization_asserts': True}),
                ('target_cpp', {'target_endianness': 'big', 'std': 'c++20'}),
                ('target_cpp', {'target_endianness': rng.choice(['any', 'little', 'big']), 'std': 'c++17-pmr',
                                'enable_serialization_asserts': rng.choice([False, True])}),
                ('target_cpp', dict(CPP_LEADING)), ('target_cpp', dict(CPP_CUSTOM_VEC)),
                ('target_py', {})]
    out: typing.List[typing.Tuple[str, dict]] = []
    out += [('target_c', {'target_endianness': e, 'enable_serialization_asserts': a}) for e in ('any', 'little', 'big') for a in (False, True)]
    ends = ['any', 'little', 'big']
    i = 0
    for s in ('c++14', 'c++17', 'c++20', 'c++17-pmr'):
        for a in (False, True):
            out.append(('target_cpp', {'target_endianness': ends[i % 3], 'enable_serialization_asserts': a, 'std': s}))
            i += 1
    out.append(('target_c', {'target_endianness': 'little', 'sanitize': True}))
    out.append(('target_c', {'target_endianness': 'little', 'enable_override_variable_array_capacity': True, 'enable_serialization_asserts': True}))
    out.append(('target_cpp', {'target_endianness': 'little', 'std': 'c++17', 'enable_override_variable_array_capacity': True}))
    out += [('target_cpp', dict(CPP_LEADING)), ('target_cpp', dict(CPP_CUSTOM_VEC)),
            ('target_cpp', dict(CPP_LEADING, enable_serialization_asserts=True, sanitize=True))]
    out.append(('target_py', {}))
    return out


SIZES = {'quick': dict(n_types=26, per_type=40, n_values=10, rounds=1, obs_sample=700),
         'thorough': dict(n_types=32, per_type=110, n_values=24, rounds=7, obs_sample=2500)}


def obs_keys(tgt: proto.Target) -> typing.List[str]:
    """the ObsC03 instance (target, target_endianness, omit_float, asserts) that models this build"""
    a = '1' if tgt.options.get('enable_serialization_asserts') else '0'
    e = {'little': 'l', 'big': 'b'}.get(tgt.options.get('target_endianness', 'any'), 'a')
    f = '1' if tgt.options.get('omit_float_serialization_support') else '0'
    if tgt.name in ('c', 'cpp'):
        return ['%s %s %s %s' % (tgt.name, e, f, a)]
    return ['py a 0 0']


def obs_request(key: str, c) -> str:
    verb, rest = c.req.split(' ', 1)
    return 'o%s %s %s' % (verb, key, rest)


def family(tgt: proto.Target) -> str:
    return 'py' if tgt.name == 'py' else 'cfam'


# ------------------------------------------------------------------------------------------------
# comparison of two answers (no model involved except the layout mask that locates float fields for the NaN rule)
# ------------------------------------------------------------------------------------------------

def nan_only_equal(a_hex: str, b_hex: str, mask_hex: typing.Optional[str]) -> bool:
    """equal byte strings except that inside a float field marked by the layout mask both sides may hold ANY NaN of that width"""
    if a_hex == b_hex:
        return True
    if not mask_hex or mask_hex == '-':
        return False
    try:
        ab = bytes.fromhex(a_hex if a_hex != '-' else '')
        bb = bytes.fromhex(b_hex if b_hex != '-' else '')
        kb = bytes.fromhex(mask_hex)
    except ValueError:
        return False
    if len(ab) != len(bb):
        return False
    kb = kb.ljust(len(ab), b'\0')[:len(ab)]
    ai, bi, ki = int.from_bytes(ab, 'little'), int.from_bytes(bb, 'little'), int.from_bytes(kb, 'little')
    nbits = 8 * len(ab)
    pos = 0
    last = 0
    while pos < nbits:
        if (ki >> pos) & 1:
            end = pos + 1
            while end < nbits and not (ki >> end) & 1:
                end += 1
            w = end - pos + 1
            if w not in (16, 32, 64) or end >= nbits:
                return False
            seg = (1 << (pos - last)) - 1
            if ((ai >> last) & seg) != ((bi >> last) & seg):
                return False
            fa, fb = (ai >> pos) & ((1 << w) - 1), (bi >> pos) & ((1 << w) - 1)
            if fa != fb:
                emask, sign = {16: (0x7C00, 0x8000), 32: (0x7F800000, 1 << 31), 64: (0x7FF0000000000000, 1 << 63)}[w]
                if not ((fa & (sign - 1)) > emask and (fb & (sign - 1)) > emask):
                    return False
            pos = end + 1
            last = pos
        else:
            pos += 1
    return (ai >> last) == (bi >> last)


CLASS_EQUIV = {'format': {'bad_length', 'bad_tag', 'bad_header', 'format'}}


def same_err(a: typing.List[str], b: typing.List[str]) -> bool:
    if a[:1] == b[:1]:
        return True
    for x, y in ((a, b), (b, a)):
        if x and x[0] in CLASS_EQUIV and y and y[0] in CLASS_EQUIV[x[0]]:
            return True
    return False


def incomparable(r: str) -> bool:
    """the RUNNER could not hand the request to the generated code: the value cannot be built in that target (`err rejected`), or the
    Python driver refused the token stream (`bad-request`: its guard `count > number of tokens` misfires on arrays of composites
    without tokens); exceptions raised by generated code are reported as `raised:` and stay comparable (= failures)"""
    return r.startswith('err rejected') or r.startswith('err invalid_arg bad-request')


class Ctx:
    """per-namespace context: model, masks, tie flags"""

    def __init__(self, prep: campaign.Prepared, tie_active: bool, obs_sample: int = 0):
        self.prep = prep
        self.obs_sample = obs_sample
        self.db = prep.db
        self.m = prep.model
        self.tie_active = tie_active
        self._mask: typing.Dict[str, str] = {}

    def mask(self, c: 'campaign.Case') -> str:
        key = c.req
        if key not in self._mask:
            r = self.m.run([self.m.tok_req('msk', c.tid, c.value)])[0].split()
            self._mask[key] = r[1] if r[:1] == ['ok'] and len(r) > 1 else ''
        return self._mask[key]


def agree_ser(ctx: Ctx, c, ra: str, rb: str, strict: bool = False) -> bool:
    """strict (both sides C / C++ code or their models, which are exact integer transcriptions): identical answers, error class
    included; otherwise (a Python side): NaN float fields may hold any NaN of that width (NaNs travel through a Python double)"""
    if ra == rb:
        return True
    if strict:
        return False
    ka, aa = modelmod.parse_resp(ra)
    kb, ab = modelmod.parse_resp(rb)
    if ka == 'crash' or kb == 'crash':
        return False
    if ka != kb:
        return False
    if ka == 'err':
        return same_err(aa, ab)
    if len(aa) != 2 or len(ab) != 2 or aa[0] != ab[0]:
        return False
    return nan_only_equal(aa[1], ab[1], ctx.mask(c))


def agree_des(ctx: Ctx, tid: str, ra: str, rb: str, strict: bool = False) -> bool:
    if ra == rb:
        return True
    if strict:
        return False
    ka, aa = modelmod.parse_resp(ra)
    kb, ab = modelmod.parse_resp(rb)
    if ka == 'crash' or kb == 'crash' or ka != kb:
        return False
    if ka == 'err':
        return same_err(aa, ab)
    if not aa or not ab:
        return False
    if aa[0] != ab[0] and '-' not in (aa[0], ab[0]):
        return False
    x, y = modelmod._canon_tokens(ctx.db, tid, aa[1:]), modelmod._canon_tokens(ctx.db, tid, ab[1:])
    return x is not None and x == y


def applicable(tgt: proto.Target, c) -> bool:
    return campaign.applicable(tgt, c)


# ------------------------------------------------------------------------------------------------
# one namespace: build everything, run everything, collect disagreements
# ------------------------------------------------------------------------------------------------

class Failure(dict):
    pass


def probe_tie(prep: campaign.Prepared) -> typing.Tuple[bool, dict]:
    """does F-F16-TIE reproduce on the real generated code?  C (first C build) vs Python on the witness, once with the tie in the
    scalar fields (rounded by struct.pack('<e')) and once in the array elements (rounded when the generated setter stores them
    into the NumPy float16 array); reproduces = the two targets differ and each answers what its model predicts"""
    cs = [t for _, t in prep.targets if t.name == 'c']
    ps = [t for _, t in prep.targets if t.name == 'py']
    if not cs or not ps or TIE_TID not in prep.db.types:
        return False, {'probe': 'not possible (needs a C and a Python build)'}
    reqs = [prep.model.ser_req(TIE_TID, WITNESS_VALUE), prep.model.ser_req(TIE_TID, WITNESS_VALUE_ARRAY)]
    rc = cs[0].run(reqs, timeout=60.0)
    rp = ps[0].run(reqs, timeout=60.0)
    mc = prep.model.run(reqs)
    mp = prep.model.run(['p' + r for r in reqs])
    rep = [rc[i] != rp[i] and rc[i] == mc[i] and rp[i] == mp[i] for i in range(2)]
    info = {'request': reqs[0], 'c': rc[0], 'py': rp[0], 'model_c': mc[0], 'model_py': mp[0], 'scalar_reproduces': rep[0],
            'array_request': reqs[1], 'array_c': rc[1], 'array_py': rp[1], 'array_reproduces': rep[1]}
    return any(rep), info


def run_all(targets, reqs_by_target: typing.Dict[str, typing.List[str]], timeout: float) -> typing.Dict[str, typing.List[str]]:
    def one(item):
        lab, tgt = item
        reqs = reqs_by_target[lab]
        if not reqs:
            return lab, []
        try:
            return lab, tgt.run(reqs, timeout=timeout)
        except Exception as ex:  # noqa: BLE001
            return lab, ['crash runner raised %r' % (ex,)] * len(reqs)
    with concurrent.futures.ThreadPoolExecutor(max_workers=6) as ex:
        return dict(ex.map(one, targets))


def make_cases(rng, prep: campaign.Prepared, sizes: dict) -> typing.List['campaign.Case']:
    tids = prep.db.ids()
    cases = campaign.corpus_cases(prep, 'ser')
    for tid, v, tags in OWN_SER:
        if tid in prep.db.types:
            c = prep.db.comp(tid)
            cases.append(campaign.Case('ser', tid, value=v, cap=(c['meta']['max_bits'] + 7) // 8, fill='f', tags=tags + ['cap_max'], origin='own'))
    cases += campaign.gen_ser_cases(rng, prep, tids, sizes['per_type'])
    cases += campaign.corpus_cases(prep, 'des')
    cases += campaign.gen_des_cases(rng, prep, tids, sizes['per_type'], sizes['n_values'])
    for c in cases:
        c.req = campaign.make_request(prep.model, c)
    return cases


def maxcap(db, tid: str) -> int:
    return (db.comp(tid)['meta']['max_bits'] + 7) // 8


def evaluate(ctx: Ctx, cases, stats: dict, flags: typing.Optional[set] = None) -> typing.Tuple[typing.List[Failure], dict]:
    """run pass 1-3 on every target of ctx.prep and compare; returns failures (at most one per kind/pair) and counters;
    `flags` (optional) receives (kind, index of the case) of EVERY failing comparison"""
    prep, db, m = ctx.prep, ctx.db, ctx.m
    targets = prep.targets
    labs = [lab for lab, _ in targets]
    tg = dict(targets)
    n = len(cases)
    cnt = {'evaluations': 0, 'pair_comparisons': 0, 'pairs_incomparable': 0, 'model_comparisons': 0, 'chain_ser_des_ser': 0,
           'chain_des_ser_des': 0, 'tie_instances': 0, 'rejected_by_target': 0, 'equal_after_canonicalisation': 0}
    fails: typing.List[Failure] = []
    seen_kinds = set()

    pos_of = {id(c): i for i, c in enumerate(cases)}

    def fail(kind: str, key, **kw) -> None:
        if flags is not None:
            flags.add((kind, pos_of[id(kw['case'])]))
        if (kind, key) in seen_kinds:
            for f in fails:
                if f['kind'] == kind and f['_key'] == key:
                    f['n_failing'] = f.get('n_failing', 1) + 1
            return
        seen_kinds.add((kind, key))
        f = Failure(kind=kind, _key=key, **kw)
        fails.append(f)

    # ---- pass 1: every request on every target
    reqs = [c.req for c in cases]
    out1 = run_all(targets, {lab: reqs for lab in labs}, 900.0)
    cnt['evaluations'] += n * len(labs)
    # model
    m_c = m.run(reqs)
    ser_idx = [i for i, c in enumerate(cases) if c.op == 'ser']
    m_py = dict(zip(ser_idx, m.run(['p' + cases[i].req for i in ser_idx])))
    tie_free = dict(zip(ser_idx, [r == 'ok 1' for r in m.run([m.tok_req('tief', cases[i].tid, cases[i].value) for i in ser_idx])]))
    des_idx = [i for i, c in enumerate(cases) if c.op == 'des']
    nan_canonical = dict(zip(des_idx, [r != 'ok 0' for r in m.run(['nanc %s %s' % (cases[i].tid, cases[i].data.hex() or '-') for i in des_idx])]))
    for i, r in zip(ser_idx, m.run([m.tok_req('msk', cases[i].tid, cases[i].value) for i in ser_idx])):
        rr = r.split()
        ctx._mask.setdefault(cases[i].req, rr[1] if rr[:1] == ['ok'] and len(rr) > 1 else '')
    for i, c in enumerate(cases):
        c.expected = m_c[i]
        for tgk in c.tags:
            stats['strata'][tgk] = stats['strata'].get(tgk, 0) + 1
        if c.op == 'ser' and not tie_free[i]:
            stats['strata']['value_holds_f16_tie'] = stats['strata'].get('value_holds_f16_tie', 0) + 1
        k = ' '.join(m_c[i].split()[:2]) if m_c[i].startswith('err') else m_c[i].split()[0]
        stats['responses'][k] = stats['responses'].get(k, 0) + 1

    def usable(lab: str, i: int) -> bool:
        r = out1[lab][i]
        if incomparable(r):
            return False
        return applicable(tg[lab], cases[i])

    # ---- pairwise
    compared_types: set = set()
    for ai in range(len(labs)):
        for bi in range(ai + 1, len(labs)):
            la, lb = labs[ai], labs[bi]
            ta, tb = tg[la], tg[lb]
            mixed = family(ta) != family(tb)
            for i, c in enumerate(cases):
                ra, rb = out1[la][i], out1[lb][i]
                if not usable(la, i) or not usable(lb, i):
                    cnt['pairs_incomparable'] += 1
                    continue
                compared_types.add(c.tid)
                cnt['pair_comparisons'] += 1
                if ra == rb:
                    continue
                ok = agree_ser(ctx, c, ra, rb, not mixed) if c.op == 'ser' else agree_des(ctx, c.tid, ra, rb, not mixed)
                if ok:
                    cnt['equal_after_canonicalisation'] += 1
                    continue
                if c.op == 'ser' and mixed and ctx.tie_active and not tie_free[i]:
                    rc, rp = (ra, rb) if family(ta) == 'cfam' else (rb, ra)
                    if agree_ser(ctx, c, rc, m_c[i], True) and agree_ser(ctx, c, rp, m_py[i]):
                        cnt['tie_instances'] += 1
                        continue
                fail('pair', (la, lb), a=la, b=lb, case=c, got_a=ra, got_b=rb, what='two generated codecs answer the same request differently')

    # ---- each target vs its model observable
    for lab in labs:
        t = tg[lab]
        for i, c in enumerate(cases):
            r = out1[lab][i]
            if incomparable(r):
                cnt['rejected_by_target'] += 1
                continue
            if not applicable(t, c):
                continue
            cnt['model_comparisons'] += 1
            if c.op == 'ser':
                exp = m_py[i] if t.name == 'py' else m_c[i]
                ok = r == exp or agree_ser(ctx, c, r, exp, t.name != 'py')
                if not ok and not tie_free[i]:
                    # a tie input: the DSDL specification admits either neighbour and C03 demands agreement BETWEEN the targets,
                    # which is what the pairwise comparison above enforces (a C-family/Python difference must match both rounding
                    # models exactly and needs the listed finding); against the model either rounding rule is accepted so that a
                    # repaired rounding rule on either side raises no alarm
                    ok = agree_ser(ctx, c, r, m_c[i], t.name != 'py') or agree_ser(ctx, c, r, m_py[i], t.name != 'py')
            else:
                exp = m_c[i]
                ok = r == exp or agree_des(ctx, c.tid, r, exp, t.name != 'py')
            if not ok:
                fail('model', lab, a=lab, b='model', case=c, got_a=r, got_b=exp,
                     what='generated codec disagrees with its target observable (Spec/TargetsC03.v, extracted)')

    # ---- each target vs the CODE-SHAPED observable of Codec/ObsC03.v (walker over the shipped primitive models, extracted) on a sample
    limit = ctx.obs_sample
    if limit:
        stride = max(1, n // limit)
        sample = list(range(0, n, stride))[:limit]
        keys = sorted({k for lab in labs for k in obs_keys(tg[lab])})
        obs_out = {k: dict(zip(sample, m.run([obs_request(k, cases[i]) for i in sample], timeout=1500.0))) for k in keys}
        for lab in labs:
            t = tg[lab]
            for k in obs_keys(t):
                for i in sample:
                    c, r = cases[i], out1[lab][i]
                    if incomparable(r) or not applicable(t, c):
                        continue
                    exp = obs_out[k][i]
                    cnt['obs_model_comparisons'] = cnt.get('obs_model_comparisons', 0) + 1
                    st = t.name != 'py'
                    if c.op == 'ser':
                        ok = r == exp or agree_ser(ctx, c, r, exp, st)
                        if not ok and not tie_free[i]:
                            ok = agree_ser(ctx, c, r, m_c[i], st) or agree_ser(ctx, c, r, m_py[i], st)
                    else:
                        ok = r == exp or agree_des(ctx, c.tid, r, exp, st)
                    if not ok:
                        fail('model', lab, a=lab, b='model', case=c, got_a=r, got_b=exp, step='ObsC03.obs_%s %s' % (c.op, k),
                             what='generated codec disagrees with the code-shaped observable (Codec/ObsC03.v over the shipped primitive '
                                  'models, extracted)')

    # ---- pass 2 / 3: own chains
    reqs2: typing.Dict[str, typing.List[str]] = {}
    idx2: typing.Dict[str, typing.List[int]] = {}
    for lab in labs:
        rq, ix = [], []
        for i, c in enumerate(cases):
            r = out1[lab][i].split()
            if r[:1] != ['ok'] or not applicable(tg[lab], c):
                continue
            if c.op == 'ser':
                rq.append('des %s fresh %s' % (c.tid, r[2] if len(r) > 2 else '-'))
            else:
                rq.append(' '.join(['ser', c.tid, str(maxcap(db, c.tid)), 'z'] + r[2:]))
            ix.append(i)
        reqs2[lab], idx2[lab] = rq, ix
    out2 = run_all(targets, reqs2, 900.0)
    cnt['evaluations'] += sum(len(v) for v in reqs2.values())
    # model answers for the pass-2 des requests (decoding the target's OWN bytes) and the cast of the original value
    cast_cache: typing.Dict[int, str] = dict(zip(ser_idx, m.run([m.tok_req('cast', cases[i].tid, cases[i].value) for i in ser_idx])))
    reqs3: typing.Dict[str, typing.List[str]] = {}
    idx3: typing.Dict[str, typing.List[int]] = {}
    for lab in labs:
        t = tg[lab]
        rq, ix = [], []
        mdes = m.run([q for q, i in zip(reqs2[lab], idx2[lab]) if cases[i].op == 'ser'])
        mi = 0
        for q, i, r2 in zip(reqs2[lab], idx2[lab], out2[lab]):
            c = cases[i]
            p = r2.split()
            r1 = out1[lab][i].split()
            if c.op == 'ser':
                md = mdes[mi]
                mi += 1
                if p[:1] != ['ok']:
                    fail('chain', lab, a=lab, b=lab, case=c, got_a=out1[lab][i], got_b=r2, step='des(ser v)',
                         what='a generated deserializer rejects what the same generated serializer emitted')
                    continue
                if p[1] != '-' and p[1] != r1[1]:
                    fail('chain', lab, a=lab, b=lab, case=c, got_a=out1[lab][i], got_b=r2, step='consumed(des(ser v)) = size',
                         what='deserializer does not consume exactly what the serializer emitted')
                    continue
                cnt['model_comparisons'] += 1
                if not agree_des(ctx, c.tid, r2, md, t.name != 'py'):
                    fail('model', lab, a=lab, b='model', case=c, got_a=r2, got_b=md, step='des of own bytes ' + q,
                         what='generated deserializer disagrees with the specification on bytes its own serializer emitted')
                    continue
                # round-trip value: cast(v); not on tie inputs, where the value depends on the rounding rule (there the decoded
                # value was just compared with the specification's decoding of the target's own bytes)
                if tie_free[i] and cast_cache[i].startswith('ok'):
                    cv = modelmod._canon_tokens(db, c.tid, cast_cache[i].split()[1:])
                    gv = modelmod._canon_tokens(db, c.tid, p[2:])
                    if cv is not None and cv != gv:
                        fail('model', lab, a=lab, b='model', case=c, got_a=r2, got_b=cast_cache[i], step='des(ser v) = cast v',
                             what='round trip does not return the value after its cast-mode adjustment')
                        continue
                rq.append(' '.join(['ser', c.tid, str(maxcap(db, c.tid)), 'z'] + p[2:]))
                ix.append(i)
            else:
                if p[:1] != ['ok']:
                    if incomparable(r2):
                        cnt['rejected_by_target'] += 1
                        continue
                    fail('chain', lab, a=lab, b=lab, case=c, got_a=out1[lab][i], got_b=r2, step='ser(des bytes)',
                         what='a generated serializer rejects a value the same generated deserializer produced')
                    continue
                rq.append('des %s fresh %s' % (c.tid, p[2] if len(p) > 2 else '-'))
                ix.append(i)
        reqs3[lab], idx3[lab] = rq, ix
    out3 = run_all(targets, reqs3, 900.0)
    cnt['evaluations'] += sum(len(v) for v in reqs3.values())
    o2 = {lab: dict(zip(idx2[lab], out2[lab])) for lab in labs}
    for lab in labs:
        for q, i, r3 in zip(reqs3[lab], idx3[lab], out3[lab]):
            c = cases[i]
            if c.op == 'ser':
                cnt['chain_ser_des_ser'] += 1
                r1 = out1[lab][i]
                a, b = r1.split(), r3.split()
                ok = r1 == r3 or (tg[lab].name == 'py' and a[:2] == b[:2] and len(a) == 3 and len(b) == 3
                                  and nan_only_equal(a[2], b[2], ctx.mask(c)))
                if not ok:
                    fail('chain', lab, a=lab, b=lab, case=c, got_a=r1, got_b=r3, step='ser(des(ser v)) = ser v via ' + q,
                         what='re-serializing the deserialized value does not reproduce the bytes')
            else:
                cnt['chain_des_ser_des'] += 1
                r1 = out1[lab][i]
                a, b = r1.split(), r3.split()
                ok = b[:1] == ['ok'] and a[2:] == b[2:]
                if not ok and b[:1] == ['ok'] and (tg[lab].name == 'py' or not nan_canonical.get(i, True)):
                    # value-level identity is proved only up to float16 NaN canonicalisation (c03_des_ser_des_partial / _refuted)
                    ok = modelmod._canon_tokens(db, c.tid, a[2:]) == modelmod._canon_tokens(db, c.tid, b[2:])
                if not ok:
                    fail('chain', lab, a=lab, b=lab, case=c, got_a=r1, got_b=r3, step='des(ser(des bytes)) = des bytes via ' + o2[lab][i][:200],
                         what='decoding the re-encoded decoded value is not stable')
    # audit2 C03 #5: the requests a runner could not hand to the generated code are counted and bounded per (target, type), and no
    # type may drop out of the oracle-free comparison altogether
    per_type_total: typing.Dict[str, int] = {}
    for c in cases:
        per_type_total[c.tid] = per_type_total.get(c.tid, 0) + 1
    summ = stats.setdefault('incomparable_summary', {})
    for lab in labs:
        cntt: typing.Dict[str, int] = {}
        for i, c in enumerate(cases):
            if incomparable(out1[lab][i]):
                cntt[c.tid] = cntt.get(c.tid, 0) + 1
        if cntt:
            worst = max(cntt, key=lambda t_: cntt[t_] / per_type_total[t_])
            e = summ.setdefault(tg[lab].name, {'requests_not_comparable': 0, 'worst_type': '', 'worst_fraction': 0.0})
            e['requests_not_comparable'] += sum(cntt.values())
            fr = round(cntt[worst] / per_type_total[worst], 3)
            if fr >= e['worst_fraction']:
                e['worst_type'], e['worst_fraction'] = worst, fr
    if len(labs) > 1 and len(cases) > 50:
        never = sorted({c.tid for c in cases} - compared_types)
        if never:
            stats.setdefault('types_never_compared_pairwise', [])
            stats['types_never_compared_pairwise'] = sorted(set(stats['types_never_compared_pairwise']) | set(never))
    return fails, cnt


# ------------------------------------------------------------------------------------------------
# shrinking
# ------------------------------------------------------------------------------------------------

def _sub_prep(prep: campaign.Prepared, labs: typing.List[str]) -> campaign.Prepared:
    p = campaign.Prepared()
    p.spec, p.ns_dirs, p.db, p.model, p.workdir = prep.spec, prep.ns_dirs, prep.db, prep.model, prep.workdir
    p.targets = [(lab, t) for lab, t in prep.targets if lab in labs]
    return p


def case_fails(ctx: Ctx, f: Failure, cands) -> typing.List[bool]:
    """does each candidate case still show a failure of the same kind on the same target(s)?"""
    labs = [x for x in (f['a'], f['b']) if x != 'model']
    sub = Ctx(_sub_prep(ctx.prep, labs), ctx.tie_active, ctx.obs_sample)
    for c in cands:
        c.req = campaign.make_request(ctx.m, c)
    flags: set = set()
    try:
        evaluate(sub, cands, {'strata': {}, 'responses': {}}, flags)
    except Exception:  # noqa: BLE001
        return [False] * len(cands)
    return [(f['kind'], i) in flags for i in range(len(cands))]


def shrink(ctx: Ctx, f: Failure, budget: int = 40, max_cands: int = 300) -> 'campaign.Case':
    cur = f['case']
    db = ctx.db
    for _ in range(budget):
        if cur.op == 'ser':
            cands = [campaign.Case('ser', cur.tid, value=v, cap=cur.cap, fill=cur.fill, tags=cur.tags, origin=cur.origin)
                     for v in valgen.shrink_comp(db, db.comp(cur.tid), cur.value)]
            if cur.fill != 'z':
                cands.append(campaign.Case('ser', cur.tid, value=cur.value, cap=cur.cap, fill='z', tags=cur.tags, origin=cur.origin))
        else:
            cands = [campaign.Case('des', cur.tid, data=b, prior=cur.prior, tags=cur.tags, origin=cur.origin) for b in valgen.shrink_bytes(cur.data)]
            if cur.prior != 'fresh':
                cands.append(campaign.Case('des', cur.tid, data=cur.data, prior='fresh', tags=cur.tags, origin=cur.origin))
        cands = cands[:max_cands]
        if not cands:
            break
        res = case_fails(ctx, f, cands)
        nxt = next((c for c, bad in zip(cands, res) if bad), None)
        if nxt is None:
            break
        cur = nxt
    cur.req = campaign.make_request(ctx.m, cur)
    return cur


def needed_files(prep: campaign.Prepared, tid: str) -> typing.Dict[str, str]:
    need = set()

    def visit(t):
        if t in need:
            return
        need.add(t)
        for fl in prep.db.comp(t)['fields']:
            for r in modelmod.refs_of(fl['type']):
                visit(r)
    visit(tid)
    srcs = {prep.db.comp(t)['source'] for t in need}
    files = {k: v for k, v in prep.spec['files'].items() if any(s.endswith(k) for s in srcs)}
    return files or dict(prep.spec['files'])


def options_of(prep: campaign.Prepared, lab: str) -> typing.Optional[typing.Tuple[str, dict]]:
    for l2, t in prep.targets:
        if l2 == lab:
            return ('target_' + t.name, dict(t.options))
    return None


def answers_for(prep: campaign.Prepared, labs: typing.List[str], c) -> typing.Dict[str, str]:
    out = {}
    for lab, t in prep.targets:
        if lab in labs:
            try:
                out[lab] = t.run([c.req], timeout=60.0)[0]
            except Exception as ex:  # noqa: BLE001
                out[lab] = 'crash runner raised %r' % (ex,)
    mr = prep.model.run([c.req] + (['p' + c.req] if c.op == 'ser' else []))
    out['model'] = mr[0]
    if c.op == 'ser':
        out['model_py'] = mr[1]
    return out


def shrink_type(ctx: Ctx, f: Failure, cur, exe: str, budget: int = 10):
    """drop fields of the failing top-level structure (ser requests only) while the two targets still disagree; every candidate
    is a real regeneration + rebuild of the targets involved on the reduced namespace"""
    files = needed_files(ctx.prep, cur.tid)
    comp = ctx.db.comp(cur.tid)
    labs = [x for x in (f['a'], f['b']) if x != 'model']
    answers = answers_for(ctx.prep, labs, cur)
    if cur.op != 'ser' or comp['kind'] != 'struct' or len(comp['fields']) < 2:
        return files, cur, answers
    src = next((k for k in files if comp['source'].endswith(k)), None)
    if src is None or '---' in files[src]:
        return files, cur, answers
    matrix = [options_of(ctx.prep, lab) for lab in labs]
    value = list(cur.value)
    lines = files[src].splitlines()

    def field_lines(ls):
        return [j for j, l in enumerate(ls) if l.strip() and not l.lstrip().startswith(('@', '#')) and '=' not in l]
    tries = 0
    j = 0
    while tries < budget and j < len(field_lines(lines)) and len(field_lines(lines)) > 1:
        fl = field_lines(lines)
        cand_lines = lines[:fl[j]] + lines[fl[j] + 1:]
        cand_value = value[:j] + value[j + 1:]
        cand_files = dict(files)
        cand_files[src] = '\n'.join(cand_lines) + '\n'
        tries += 1
        work = core.scratch('c03shr-')
        try:
            p2 = campaign.prepare(dsdlgen.single(cand_files), work, exe)
            campaign.build_targets(p2, matrix, core.REPO, max_workers=2)
            if len(p2.targets) != len(matrix) or cur.tid not in p2.db.types:
                j += 1
                continue
            c2 = campaign.Case('ser', cur.tid, value=cand_value, cap=maxcap(p2.db, cur.tid), fill=cur.fill, tags=cur.tags, origin=cur.origin)
            c2.req = campaign.make_request(p2.model, c2)
            f2 = Failure(f)
            f2['a'], f2['b'] = (p2.targets[0][0], p2.targets[1][0]) if len(p2.targets) == 2 else (p2.targets[0][0], f['b'] if f['b'] == 'model' else p2.targets[0][0])
            ctx2 = Ctx(p2, ctx.tie_active, ctx.obs_sample)
            if case_fails(ctx2, f2, [c2])[0]:
                files, lines, value, cur = cand_files, cand_lines, cand_value, c2
                answers = answers_for(p2, [l for l, _ in p2.targets], c2)
            else:
                j += 1
        except Exception:  # noqa: BLE001
            j += 1
        finally:
            for _, t in (p2.targets if 'p2' in locals() else []):
                if hasattr(t, 'close'):
                    t.close()
            shutil.rmtree(work, ignore_errors=True)
    return files, cur, answers


# ------------------------------------------------------------------------------------------------
# replay
# ------------------------------------------------------------------------------------------------

def case_from_json(cj: dict) -> 'campaign.Case':
    if cj['op'] == 'ser':
        return campaign.Case('ser', cj['tid'], value=cj['value'], cap=cj['cap_bytes'], fill=cj['fill'], tags=cj.get('tags', []))
    return campaign.Case('des', cj['tid'], data=bytes.fromhex(cj['hex'] if cj['hex'] != '-' else ''), prior=cj.get('prior', 'fresh'),
                         tags=cj.get('tags', []))


def run_replay(chk: core.Check, path: str, exe: str) -> int:
    doc = json.load(open(path, encoding='utf-8'))
    if doc.get('case', {}).get('op') == 'hist':
        return campaign.run_replay(chk, 'des', path)       # histories are replayed by the shared engine
    if 'case' not in doc or 'files' not in doc or 'pair' not in doc:
        print('replay: no failing input recorded (%s)' % doc.get('what', 'broken obligation'))
        res = core.coq_check(chk.prop, GENERATORS)
        print('proof obligations: %s %s' % ('ok' if res.ok else 'BROKEN', res.error_text[-500:]))
        if not res.ok:
            chk.violation({'broken': ['proof obligation'], 'coq_error': res.error_text[-2000:]}, found_input=False)
        return chk.finish()
    work = core.scratch('c03replay-')
    prep = campaign.prepare(dsdlgen.single(doc['files']), work, exe)
    matrix = [(p['module'], p['options']) for p in doc['pair'] if p.get('module')]
    campaign.build_targets(prep, matrix, core.REPO, max_workers=2)
    if len(prep.targets) != len(matrix):
        print('replay: a target could not be built: %s' % (prep.build_failures or prep.unavailable))
        chk.violation({'what': 'replay target failed to build', 'log': prep.build_failures}, found_input=False)
        return chk.finish()
    c = case_from_json(doc['case'])
    c.req = campaign.make_request(prep.model, c)
    tie_active, info = (doc.get('tie_active', False), {})
    ctx = Ctx(prep, tie_active, 1000)
    stats = {'strata': {}, 'responses': {}}
    fl, cnt = evaluate(ctx, [c], stats)
    print('replay request : %s' % c.req)
    for lab, t in prep.targets:
        print('%-60s: %s' % (lab[:60], t.run([c.req])[0]))
    print('model (C/C++)  : %s' % prep.model.run([c.req])[0])
    if c.op == 'ser':
        print('model (Python) : %s' % prep.model.run(['p' + c.req])[0])
    fl = [f for f in fl if f['kind'] == doc.get('failure_kind', f['kind'])] or fl
    print('verdict        : %s' % ('DISAGREE (%s: %s)' % (fl[0]['kind'], fl[0].get('step', fl[0]['what'])) if fl else 'agree (no longer reproduces)'))
    chk.coverage.update({'evaluations': cnt['evaluations'], 'distinct_nontrivial': 1, 'samples': [c.to_json()],
                         'traces_validated_against_impl': cnt['evaluations'], 'distribution': {'replay': path}, 'obligations': 1, 'discharged': 1})
    if fl:
        rep = {k: doc[k] for k in ('files', 'pair', 'tie_active') if k in doc}
        rep.update({'case': c.to_json(), 'answers_on_shrunk_case': {'a': fl[0]['got_a'], 'b': fl[0]['got_b']}, 'failure_kind': fl[0]['kind'],
                    'what': 'replayed failing input still fails: ' + fl[0]['what']})
        chk.violation(rep, found_input=True)
    for _, t in prep.targets:
        if hasattr(t, 'close'):
            t.close()
    return chk.finish()


# ------------------------------------------------------------------------------------------------
# omit_float_serialization_support: exercised on a float-free namespace, and the model's build gate on a type with a float field
# ------------------------------------------------------------------------------------------------

FLOAT_FREE_OWN = {'nsa/c03/IntMix.1.0.dsdl': ('uint24 a\ntruncated uint12 b\nsaturated uint12 c\nbool g\nint24 i\ntruncated uint24[2] arr\n'
                                               'saturated uint7 j\nvoid2\nuint16[<=3] w\nbool[5] bs\nint64 d\n@sealed\n')}


def float_free_files(files: typing.Dict[str, str]) -> typing.Dict[str, str]:
    keep = {k: v for k, v in files.items() if 'float' not in v}
    changed = True
    while changed:
        changed = False
        names = {k.split('/')[-1].split('.')[-4] if k.split('/')[-1][0].isdigit() else k.split('/')[-1].split('.')[0] for k in files if k not in keep}
        for k, v in list(keep.items()):
            if any(('.%s.' % nme) in v for nme in names):
                del keep[k]
                changed = True
    return keep


def omit_float_round(chk: core.Check, exe: str, stats: dict, total: dict, sizes: dict) -> typing.Optional[dict]:
    """returns a violation report or None"""
    info = stats.setdefault('omit_float', {})
    work = core.scratch('c03omit-')
    files = float_free_files(dict(campaign.load_corpus()['files']))
    files.update(FLOAT_FREE_OWN)
    prep = campaign.prepare(dsdlgen.single(files), work, exe)
    matrix = [('target_c', {'target_endianness': 'any'}),
              ('target_c', {'target_endianness': 'little', 'omit_float_serialization_support': True}),
              ('target_cpp', {'target_endianness': 'any', 'std': 'c++17', 'omit_float_serialization_support': True,
                              'enable_serialization_asserts': True})]
    campaign.build_targets(prep, matrix, core.REPO, max_workers=3)
    rep = None
    try:
        if prep.build_failures:
            lab, logtxt = prep.build_failures[0]
            return {'what': 'a float-free namespace does not build with omit_float_serialization_support (the model says it does: '
                            'c03_float_free_types_always_build)', 'target': lab, 'log': logtxt, 'files': files}
        ctx = Ctx(prep, False, 100000)
        cases = make_cases(chk.rng, prep, dict(sizes, per_type=max(12, sizes['per_type'] // 3), n_values=6))
        st = {'strata': {}, 'responses': {}}
        fails, cnt = evaluate(ctx, cases, st)
        for k, v in cnt.items():
            total[k] = total.get(k, 0) + v
        info.update({'types': len(prep.db.ids()), 'cases': len(cases), 'builds': [lab for lab, _ in prep.targets],
                     'pair_comparisons': cnt['pair_comparisons'], 'obs_model_comparisons': cnt.get('obs_model_comparisons', 0)})
        if fails:
            f = fails[0]
            rep = {'failure_kind': f['kind'], 'what': f['what'] + ' (omit_float_serialization_support round)', 'step': f.get('step', ''),
                   'pair': [{'label': lab, 'module': (options_of(prep, lab) or (None, None))[0], 'options': (options_of(prep, lab) or (None, None))[1]}
                            for lab in dict.fromkeys([f['a'], f['b']])],
                   'case': f['case'].to_json(), 'original_got_a': f['got_a'], 'original_got_b': f['got_b'], 'files': files, 'tie_active': False}
            return rep
        # the gate: a type with a float field has NO compilable code under the option (model: obs_* = Err EShape)
        work2 = core.scratch('c03gate-')
        p2 = campaign.prepare(dsdlgen.single({'nsa/c03/Tie.1.0.dsdl': OWN_FILES['nsa/c03/Tie.1.0.dsdl']}), work2, exe)
        campaign.build_targets(p2, [('target_c', {'omit_float_serialization_support': True})], core.REPO, max_workers=1)
        gate_model = p2.model.run(['oser c a 1 0 %s' % p2.model.ser_req(TIE_TID, WITNESS_VALUE).split(' ', 1)[1]])[0]
        info['gate'] = {'model': gate_model, 'c_build_with_float_type': 'fails' if p2.build_failures else 'succeeds'}
        for _, t in p2.targets:
            if hasattr(t, 'close'):
                t.close()
        shutil.rmtree(work2, ignore_errors=True)
        if not p2.build_failures or gate_model != 'err invalid_arg':
            return {'what': 'build gate of omit_float_serialization_support: the model says a type with float fields has no program '
                            '(Err EShape), the real build %s, model answer %r' % (info['gate']['c_build_with_float_type'], gate_model),
                    'files': {'nsa/c03/Tie.1.0.dsdl': OWN_FILES['nsa/c03/Tie.1.0.dsdl']}}
        return None
    finally:
        for _, t in prep.targets:
            if hasattr(t, 'close'):
                try:
                    t.close()
                except Exception:  # noqa: BLE001
                    pass
        shutil.rmtree(work, ignore_errors=True)


# ------------------------------------------------------------------------------------------------
# the campaign
# ------------------------------------------------------------------------------------------------

def adopt_own_findings(chk: core.Check) -> None:
    p = os.path.join(core.VERIF, 'known_findings.d', 'C03.json')
    if os.path.exists(p):
        have = {e['id'] for e in chk.known}
        for e in json.load(open(p, encoding='utf-8'))['findings']:
            if e['id'] not in have and chk.prop in e['properties']:
                chk.known.append(e)


def run(chk: core.Check, trusted: typing.List[str], replay: typing.Optional[str]) -> int:
    t_start = time.time()
    adopt_own_findings(chk)
    ok_model, exe, log = core.build_extracted('c03', 'ExtractC03.v', 'c03_driver.ml')
    if replay:
        if not ok_model:
            print('replay: the model does not build: ' + log[-400:])
            chk.violation({'broken': ['model does not extract'], 'log': log[-2000:]}, found_input=False)
            return chk.finish()
        return run_replay(chk, replay, exe)

    res = core.coq_check('C03', GENERATORS)
    chk.proof_coverage(res, trusted)
    t_coq = round(time.time() - t_start, 1)
    broken: typing.List[str] = []
    if not res.ok:
        broken.append('proof obligation: %s %s' % (res.failed_file or 'translator', res.failed_theorem or ''))
    if not ok_model:
        broken.append('model does not build/extract: ' + log[-400:])

    sizes = SIZES[chk.tier]
    stats: typing.Dict[str, typing.Any] = {'types': 0, 'cases': 0, 'builds': [], 'unavailable_targets': [], 'strata': {}, 'responses': {},
                                           'type_strata': {}, 'rounds': 0, 'tie_probe': {}}
    total = {'obs_model_comparisons': 0, 'evaluations': 0, 'pair_comparisons': 0, 'pairs_incomparable': 0, 'model_comparisons': 0, 'chain_ser_des_ser': 0,
             'chain_des_ser_des': 0, 'tie_instances': 0, 'rejected_by_target': 0, 'equal_after_canonicalisation': 0}
    distinct = set()
    samples: typing.List[dict] = []
    reported = False
    tie_reproduced_any = False

    for rnd in range(sizes['rounds']):
        if not ok_model:
            break
        work = core.scratch('c03codec-')
        spec = dsdlgen.generate(chk.rng, n_types=sizes['n_types'])
        spec['files'].update(campaign.load_corpus()['files'])
        spec['files'].update(OWN_FILES)
        prep = campaign.prepare(spec, work, exe)
        db = prep.db
        stats['types'] += len(db.ids())
        stats['rounds'] += 1
        for tid in db.ids():
            for fl in db.comp(tid)['fields']:
                campaign._type_strata(db, fl['type'], stats['type_strata'])
        nmeta, bad = campaign.meta_crosscheck(prep)
        if bad:
            chk.violation({'what': 'Spec/Meta.v disagrees with the bit-length numbers pydsdl reports', 'detail': bad[0], 'files': spec['files'],
                           'broken': broken}, found_input=False)
            reported = True
            break
        matrix = option_matrix(chk.tier, chk.rng)
        t_b = time.time()
        campaign.build_targets(prep, matrix, core.REPO, max_workers=6)
        stats['wall_builds_s'] = round(stats.get('wall_builds_s', 0) + time.time() - t_b, 1)
        stats['unavailable_targets'] = sorted(set(stats['unavailable_targets']) | set(prep.unavailable))
        stats['builds'] = sorted(set(stats['builds']) | {lab for lab, _ in prep.targets})
        if prep.build_failures:
            lab, logtxt = prep.build_failures[0]
            chk.violation({'what': 'a target driver failed to generate/compile', 'target': lab, 'log': logtxt, 'files': spec['files'],
                           'broken': broken}, found_input=False)
            reported = True
            break

        # known finding probe (both states are handled: reproduces -> quirk model for C-family/Python pairs on tie inputs)
        reproduces, info = probe_tie(prep)
        stats['tie_probe'] = info
        tie_active = reproduces and chk.is_known(TIE)
        if reproduces and chk.is_known(TIE):
            tie_reproduced_any = True
        ctx = Ctx(prep, tie_active, sizes.get('obs_sample', 0))

        cases = make_cases(chk.rng, prep, sizes)
        stats['cases'] += len(cases)
        t_e = time.time()
        fails, cnt = evaluate(ctx, cases, stats)
        stats['wall_evaluate_s'] = round(stats.get('wall_evaluate_s', 0) + time.time() - t_e, 1)
        for k, v in cnt.items():
            total[k] = total.get(k, 0) + v
        for c in cases:
            if not c.expected.startswith('ok') or len(c.tags) > 1:
                distinct.add((c.tid, c.req))
        for c in cases[:600:29]:
            if len(samples) < 40:
                samples.append({'request': c.req[:300], 'model': c.expected[:200], 'tags': c.tags})

        # round trips ACROSS calls in one process (Python): earlier fragments / decoded objects kept alive, arrays written in
        # place between calls, earlier objects re-serialized after later calls; every step against the single-call answer
        if not fails:
            hist = campaign.run_histories(chk.rng, prep, stats, per_type=1 if chk.tier == 'quick' else 4)
            if hist:
                rep = dict(hist[0])
                rep.update({'failure_kind': 'history', 'broken': broken,
                            'what': 'results of successive (de)serialization calls in one process influence each other (aliasing): '
                                    'decode(encode(v)) / re-encode of an earlier object no longer agree after later calls'})
                chk.violation(rep, found_input=True)
                reported = True
        if fails:
            # prefer a genuine pair disagreement, then an own-chain failure, then a model disagreement
            order = {'pair': 0, 'chain': 1, 'model': 2}
            f = sorted(fails, key=lambda x: order[x['kind']])[0]
            small = shrink(ctx, f)
            files, small, answers = shrink_type(ctx, f, small, exe)
            pair = []
            for lab in (f['a'], f['b']):
                o = options_of(prep, lab)
                pair.append({'label': lab, 'module': o[0] if o else None, 'options': o[1] if o else None})
            if f['a'] == f['b']:
                pair = pair[:1]
            rep = {'failure_kind': f['kind'], 'what': f['what'], 'step': f.get('step', ''), 'pair': pair, 'case': small.to_json(),
                   'answers_on_shrunk_case': answers, 'original_case': f['case'].to_json(), 'original_got_a': f['got_a'],
                   'original_got_b': f['got_b'], 'n_failing': f.get('n_failing', 1),
                   'files': files, 'tie_active': tie_active, 'broken': broken,
                   'all_failures': [{'kind': x['kind'], 'a': x['a'], 'b': x['b'], 'n': x.get('n_failing', 1), 'step': x.get('step', ''),
                                     'request': x['case'].req[:200]} for x in fails[:20]]}
            chk.violation(rep, found_input=True)
            reported = True
        for _, t in prep.targets:
            if hasattr(t, 'close'):
                try:
                    t.close()
                except Exception:  # noqa: BLE001
                    pass
        shutil.rmtree(work, ignore_errors=True)
        if reported:
            break

    if ok_model and not reported:
        t_o = time.time()
        try:
            rep = omit_float_round(chk, exe, stats, total, sizes)
        except Exception as ex:  # noqa: BLE001
            rep = {'what': 'omit_float round raised %r' % (ex,)}
        stats['wall_omit_float_s'] = round(time.time() - t_o, 1)
        if rep is not None:
            rep['broken'] = broken
            chk.violation(rep, found_input='case' in rep)
            reported = True
    if tie_reproduced_any:
        chk.report_known(TIE, 'witness %s: C %s, Python %s' % (stats['tie_probe'].get('request', '')[:80], stats['tie_probe'].get('c'),
                                                               stats['tie_probe'].get('py')))
    stats.update(total)
    stats['wall_campaign_s'] = round(time.time() - t_start, 1)
    stats['wall_coq_s'] = t_coq
    chk.coverage.update({
        'evaluations': total['evaluations'],
        'distinct_nontrivial': len(distinct),
        'rule': 'one evaluation = one ser/des request answered by a real generated codec (pass 1: the shared requests; pass 2/3: the '
                'target\'s own ser->des->ser and des->ser->des chains); every answer takes part in pairwise comparisons with all other '
                '(target, option set) builds and in one comparison with the extracted target observable; non-trivial = distinct (type, '
                'request) pairs whose model answer is an error or which carry a non-default stratum tag',
        'samples': samples,
        'traces_validated_against_impl': total['pair_comparisons'] + total['model_comparisons'] + total['chain_ser_des_ser'] + total['chain_des_ser_des'],
        'distribution': stats,
    })
    chk.notes.append('targets exercised: %s; unavailable runner modules: %s' % (stats['builds'], stats['unavailable_targets']))
    if not reported and broken:
        chk.violation({'broken': broken, 'coq_error': res.error_text[-2000:], 'translators': res.translator_msgs,
                       'what': 'proof obligation or model build no longer checks; the falsifier made %d pairwise and %d model comparisons on '
                               'the generated code and found no failing input' % (total['pair_comparisons'], total['model_comparisons'])},
                      found_input=False)
    return chk.finish()
