"""C10 harness: ONE interpreter = one history of generator constructions and generate_all() calls on the real
nunavut of the tree under PYTHONPATH.

stdin : {"work": <scratch dir>, "dsdl_root": <dir holding the root namespace dir>, "root": <root namespace name>, "steps": [step, ...]}
step  : {"op": "new", "gen": <id>, "lang": "c"|"cpp"|"py"|"html", "lang_opts": {..}|null,
         "templates": {<file name>: <text>}|null        user template directory (DSDLCodeGenerator(templates_dir=..)),
         "pps": [["limit", n] | ["trim"], ...]|null     explicit post_processors= argument (None = language defaults),
         "subset": [<type id>, ...]|null}               generate only these types (must be dependency closed)
        {"op": "run", "gen": <id>, "perm": <int seed>|"rev"|{"first": <type id>}|null, "chunks": bool}
        {"op": "clear_caches"}                          functools caches of nunavut + loader memo of every live generator
stdout: {"out": [result per step]};  result of a run: {"order": [type id in processing order], "files": {type id: text},
         "chunks": {type id: [template chunk, ...]} (if asked), "tmpl": {type id: template name}, "cls": {type id: class}};
        result of a new: {"tset": [[stem, path] of the generator's template listing], "pps": [...]};  top level "forest": {class: [bases]}
type id = full_name.major.minor.

Processing order is permuted harness-side (Namespace.get_all_datatypes/get_all_types are wrapped; /repo is untouched);
template chunk streams are observed by wrapping the generator handed to CodeGenerator._generate_code."""
import functools
import gc
import json
import os
import pathlib
import random
import sys
import traceback

import pydsdl

import nunavut
from nunavut import build_namespace_tree, DSDLCodeGenerator, Namespace
from nunavut.jinja import CodeGenerator
from nunavut.lang import LanguageContextBuilder
from nunavut._postprocessors import LimitEmptyLines, TrimTrailingWhitespace


def tid(t):
    return '%s.%d.%d' % (t.full_name, t.version.major, t.version.minor)


STATE = {'perm': None, 'chunklog': None, 'resets': 0}

_orig_all_datatypes = Namespace.get_all_datatypes
_orig_all_types = Namespace.get_all_types
_orig_generate_code = CodeGenerator._generate_code


def _permuted(orig):
    def f(self):
        items = list(orig(self))
        p = STATE['perm']
        if p == 'rev':
            items.reverse()
        elif isinstance(p, dict):
            items.sort(key=lambda it: 0 if (isinstance(it[0], pydsdl.CompositeType) and tid(it[0]) == p['first']) else 1)
        elif p is not None:
            random.Random(p).shuffle(items)
        STATE.setdefault('order', []).extend(items)
        yield from items
    return f


Namespace.get_all_datatypes = _permuted(_orig_all_datatypes)
Namespace.get_all_types = _permuted(_orig_all_types)


def _generate_code(self, output_path, template, template_gen, allow_overwrite):
    rec = []

    def tee():
        for part in template_gen:
            rec.append(part)
            yield part
    r = _orig_generate_code(self, output_path, template, tee(), allow_overwrite)
    if STATE['chunklog'] is not None:
        STATE['chunklog'][str(output_path)] = rec
    STATE.setdefault('tmpl', {})[str(output_path)] = template.name
    return r


CodeGenerator._generate_code = _generate_code


def mk_pp(p):
    if p[0] == 'trim':
        return TrimTrailingWhitespace()
    if p[0] == 'limit':
        return LimitEmptyLines(p[1])
    raise ValueError(p)


def clear_caches(gens):
    n = 0
    for o in gc.get_objects():
        try:
            if isinstance(o, functools._lru_cache_wrapper) and (getattr(o, '__module__', '') or '').startswith('nunavut'):
                o.cache_clear()
                n += 1
        except Exception:  # noqa
            pass
    for g in gens.values():
        g['gen'].dsdl_loader._type_to_template_lookup_cache.clear()
    return n


def main():
    doc = json.load(sys.stdin)
    work = doc['work']
    # the DSDL sources are written by the caller: every interpreter of one comparison reads the same files (the absolute
    # source path is embedded in some generated files, which is C07's subject, not C10's)
    root_dir = os.path.join(doc['dsdl_root'], doc['root'])
    parsed = None
    gens = {}
    outs = []
    for i, st in enumerate(doc['steps']):
        try:
            if st['op'] == 'new':
                if parsed is None:
                    parsed = pydsdl.read_namespace(root_dir, [])
                b = LanguageContextBuilder(include_experimental_languages=True).set_target_language(st['lang'])
                if st.get('lang_opts'):
                    b.set_target_language_configuration_override('options', st['lang_opts'])
                lctx = b.create()
                types = list(parsed)
                if st.get('subset') is not None:
                    want = set(st['subset'])
                    types = [t for t in types if tid(t) in want]
                outdir = os.path.join(work, 'out', '%s_%d' % (st['gen'], i))
                ns = build_namespace_tree(types, root_dir, outdir, lctx)
                kw = {}
                if st.get('templates') is not None:
                    tdir = os.path.join(work, 'tpl', '%s_%d' % (st['gen'], i))
                    os.makedirs(tdir)
                    for name, text in st['templates'].items():
                        with open(os.path.join(tdir, name), 'w', encoding='utf-8', newline='') as f:
                            f.write(text)
                    kw['templates_dir'] = pathlib.Path(tdir)
                if st.get('pps') is not None:
                    kw['post_processors'] = [mk_pp(p) for p in st['pps']]
                g = DSDLCodeGenerator(ns, **kw)
                gens[st['gen']] = {'gen': g, 'ns': ns, 'types': types}
                ld = g.dsdl_loader
                inner = ld._fsloader if ld._fsloader is not None else ld._package_loader
                listing = [[pathlib.Path(x).stem, x] for x in inner.list_templates() if pathlib.Path(x).suffix == '.j2']
                outs.append({'ok': True, 'n_types': len(types), 'tset': listing,
                             'pps': [(['limit', p._max_empty_lines] if isinstance(p, LimitEmptyLines) else
                                      ['trim'] if isinstance(p, TrimTrailingWhitespace) else ['other', type(p).__name__])
                                     for p in (g._post_processors or [])]})
            elif st['op'] == 'run':
                g = gens[st['gen']]
                STATE['perm'] = st.get('perm')
                STATE['order'] = []
                STATE['chunklog'] = {} if st.get('chunks') else None
                STATE['tmpl'] = {}
                g['gen'].generate_all()
                order, files, chunks, tmpls, classes = [], {}, {}, {}, {}
                for t, path in STATE['order']:
                    if not isinstance(t, pydsdl.CompositeType):
                        continue
                    k = tid(t)
                    order.append(k)
                    tmpls[k] = STATE['tmpl'].get(str(path))
                    classes[k] = type(t).__name__
                    with open(str(path), 'r', encoding='utf-8', newline='') as f:
                        files[k] = f.read()
                    if STATE['chunklog'] is not None:
                        chunks[k] = STATE['chunklog'].get(str(path))
                r = {'order': order, 'files': files, 'tmpl': tmpls, 'cls': classes}
                if st.get('chunks'):
                    r['chunks'] = chunks
                outs.append(r)
                STATE['perm'] = None
            elif st['op'] == 'clear_caches':
                outs.append({'cleared': clear_caches(gens)})
            else:
                raise ValueError(st['op'])
        except Exception as ex:  # noqa
            outs.append({'err': repr(ex), 'tb': traceback.format_exc()[-1500:]})
    # the pydsdl class forest this interpreter sees: name -> names of __bases__ without object
    # (pydsdl.Any and everything below it, plus the ancestors of pydsdl.Any)
    forest, todo = {}, [(pydsdl.Any, True)]
    while todo:
        c, down = todo.pop()
        if c.__name__ in forest:
            continue
        forest[c.__name__] = [b.__name__ for b in c.__bases__ if b is not object]
        todo.extend((b, False) for b in c.__bases__ if b is not object)
        if down:
            todo.extend((d, True) for d in c.__subclasses__())
    json.dump({'out': outs, 'forest': forest}, sys.stdout)


if __name__ == '__main__':
    main()
