// C14 harness: line-command driver around the RENDERED C++ support header
// (nunavut/support/serialization.hpp, found through -I).  Same protocol as ocaml/c14_driver.ml (variant `cpp`).
// Every buffer argument is copied into a fresh heap block with GUARD bytes of a position-dependent pattern on both
// sides; "GUARD" is printed instead of the answer if a guard byte changed.  With -DEXACT_ALLOC the block is exactly
// as large as the buffer (AddressSanitizer then sees one-past-the-end accesses).
#include <cassert>
#include <cinttypes>
#include <cstdio>
#include <cstdlib>
#include <cstring>
#include <string>
#include <vector>
#include "nunavut/support/serialization.hpp"
#ifdef C14_EXPECT_SIZE_T   // 32-bit compile-only build of tools/checks/c14.py
static_assert(sizeof(std::size_t) == C14_EXPECT_SIZE_T, "unexpected size_t width");
#endif

using nunavut::support::bitspan;
using nunavut::support::const_bitspan;
using nunavut::support::bytespan;

#ifdef EXACT_ALLOC
static const std::size_t GUARD = 0;
#else
static const std::size_t GUARD = 16;
#endif

static uint8_t guard_byte(std::size_t i) { return static_cast<uint8_t>(0xA5U ^ static_cast<uint8_t>(i * 29U)); }

static int hexval(int c)
{
    if (c >= '0' && c <= '9') return c - '0';
    if (c >= 'a' && c <= 'f') return c - 'a' + 10;
    if (c >= 'A' && c <= 'F') return c - 'A' + 10;
    return -1;
}

struct Buf
{
    uint8_t* base;
    uint8_t* p;
    std::size_t n;
    explicit Buf(const char* hex)
    {
        n = (hex[0] == '-') ? 0 : std::strlen(hex) / 2;
        base = static_cast<uint8_t*>(std::malloc(n + 2 * GUARD + ((n + 2 * GUARD) == 0 ? 1 : 0)));
        if (base == nullptr) { std::fprintf(stderr, "oom\n"); std::exit(3); }
        for (std::size_t i = 0; i < GUARD; i++) { base[i] = guard_byte(i); base[GUARD + n + i] = guard_byte(i + 7); }
        p = base + GUARD;
        for (std::size_t i = 0; i < n; i++) p[i] = static_cast<uint8_t>(hexval(hex[2 * i]) * 16 + hexval(hex[2 * i + 1]));
    }
    Buf(const Buf&) = delete;
    Buf& operator=(const Buf&) = delete;
    ~Buf() { std::free(base); }
    bool guards_ok() const
    {
        for (std::size_t i = 0; i < GUARD; i++)
            if (base[i] != guard_byte(i) || base[GUARD + n + i] != guard_byte(i + 7)) return false;
        return true;
    }
    void show() const
    {
        if (n == 0) { std::fputs("-", stdout); return; }
        for (std::size_t i = 0; i < n; i++) std::printf("%02x", p[i]);
    }
};

static void finish(const std::string& prefix, const Buf& b, const Buf* other = nullptr)
{
    if (!b.guards_ok() || (other != nullptr && !other->guards_ok())) { std::puts("GUARD"); return; }
    std::fputs(prefix.c_str(), stdout);
    b.show();
    std::putchar('\n');
}

static std::size_t num(const char* s) { return static_cast<std::size_t>(std::strtoull(s, nullptr, 10)); }

template <typename R>
static std::string rc(const R& r) { return r ? "0 " : ("-" + std::to_string(static_cast<int>(r.error())) + " "); }

template <typename S>
static void show_span(const S& s, const uint8_t* origin)
{
    const uint8_t* data = s.aligned_ptr() - s.offset_bytes();
    std::printf("%td %zu %zu\n", data - origin, s.size(), s.offset());
}

int main()
{
    static char line[1 << 16];
    static uint8_t arena[64];
    while (std::fgets(line, sizeof line, stdin) != nullptr)
    {
        std::vector<char*> tok;
        for (char* s = std::strtok(line, " \r\n"); s != nullptr; s = std::strtok(nullptr, " \r\n")) tok.push_back(s);
        if (tok.empty()) { std::puts("ERR empty"); continue; }
        const std::string c = tok[0];
        const std::size_t nt = tok.size();
        if (c == "sat" && nt == 4)
        {
            std::printf("%zu\n", const_bitspan(arena, num(tok[1]), num(tok[2])).saturateBufferFragmentBitLength(num(tok[3])));
        }
        else if (c == "cp" && nt == 6)
        {
            Buf d(tok[1]), s(tok[4]);
            const_bitspan(s.p, s.n, num(tok[5])).copyTo(bitspan(d.p, d.n, num(tok[2])), num(tok[3]));
            finish("", d, &s);
        }
        else if (c == "xcp" && nt == 8)
        {
            Buf d(tok[1]), s(tok[5]);
            const_bitspan(s.p, num(tok[6]), num(tok[7])).copyTo(bitspan(d.p, num(tok[2]), num(tok[3])), num(tok[4]));
            finish("", d, &s);
        }
        else if (c == "gb" && nt == 6)
        {
            Buf o(tok[1]), b(tok[2]);
            const_bitspan(b.p, num(tok[3]), num(tok[4])).getBits(bytespan(o.p, o.n), num(tok[5]));
            finish("", o, &b);
        }
        else if (c == "sb" && nt == 5)
        {
            Buf b(tok[1]);
            const auto r = bitspan(b.p, num(tok[2]), num(tok[3])).setBit(tok[4][0] != '0');
            finish(rc(r), b);
        }
        else if (c == "su" && nt == 6)
        {
            Buf b(tok[1]);
            const auto r = bitspan(b.p, num(tok[2]), num(tok[3])).setUxx(std::strtoull(tok[4], nullptr, 10), static_cast<uint8_t>(num(tok[5])));
            finish(rc(r), b);
        }
        else if (c == "si" && nt == 6)
        {
            Buf b(tok[1]);
            const auto r = bitspan(b.p, num(tok[2]), num(tok[3])).setIxx(std::strtoll(tok[4], nullptr, 10), static_cast<uint8_t>(num(tok[5])));
            finish(rc(r), b);
        }
        else if (c == "gu" && nt == 6)
        {
            Buf b(tok[2]);
            const const_bitspan s(b.p, num(tok[3]), num(tok[4]));
            const uint8_t len = static_cast<uint8_t>(num(tok[5]));
            uint64_t v = 0;
            switch (std::atoi(tok[1]))
            {
            case 8: v = s.getU8(len); break;
            case 16: v = s.getU16(len); break;
            case 32: v = s.getU32(len); break;
            default: v = s.getU64(len); break;
            }
            if (!b.guards_ok()) std::puts("GUARD"); else std::printf("%" PRIu64 "\n", v);
        }
        else if (c == "gi" && nt == 6)
        {
            Buf b(tok[2]);
            const const_bitspan s(b.p, num(tok[3]), num(tok[4]));
            const uint8_t len = static_cast<uint8_t>(num(tok[5]));
            int64_t v = 0;
            switch (std::atoi(tok[1]))
            {
            case 8: v = s.getI8(len); break;
            case 16: v = s.getI16(len); break;
            case 32: v = s.getI32(len); break;
            default: v = s.getI64(len); break;
            }
            if (!b.guards_ok()) std::puts("GUARD"); else std::printf("%" PRId64 "\n", v);
        }
        else if (c == "gbit" && nt == 4)
        {
            Buf b(tok[1]);
            const bool v = const_bitspan(b.p, num(tok[2]), num(tok[3])).getBit();
            if (!b.guards_ok()) std::puts("GUARD"); else std::puts(v ? "1" : "0");
        }
#ifndef C14_OMIT_FLOAT   // rendering with --omit-float-serialization-support has none of these
        else if ((c == "sf16" || c == "sf32" || c == "sf64") && nt == 5)
        {
            Buf b(tok[1]);
            bitspan s(b.p, num(tok[2]), num(tok[3]));
            if (c == "sf64") { union { uint64_t u; double d; } x; x.u = std::strtoull(tok[4], nullptr, 10); finish(rc(s.setF64(x.d)), b); }
            else { union { uint32_t u; float f; } x; x.u = static_cast<uint32_t>(std::strtoul(tok[4], nullptr, 10));
                   finish(rc(c == "sf32" ? s.setF32(x.f) : s.setF16(x.f)), b); }
        }
        else if ((c == "gf16" || c == "gf32" || c == "gf64") && nt == 4)
        {
            Buf b(tok[1]);
            const_bitspan s(b.p, num(tok[2]), num(tok[3]));
            uint64_t v;
            if (c == "gf64") { union { uint64_t u; double d; } x; x.d = s.getF64(); v = x.u; }
            else { union { uint32_t u; float f; } x; x.f = (c == "gf32") ? s.getF32() : s.getF16(); v = x.u; }
            if (!b.guards_ok()) std::puts("GUARD"); else std::printf("%" PRIu64 "\n", v);
        }
        else if (c == "f16p" && nt == 2)
        {
            union { uint32_t u; float f; } x; x.u = static_cast<uint32_t>(std::strtoul(tok[1], nullptr, 10));
            std::printf("%u\n", static_cast<unsigned>(nunavut::support::float16Pack(x.f)));
        }
        else if (c == "f16u" && nt == 2)
        {
            union { uint32_t u; float f; } x; x.f = nunavut::support::float16Unpack(static_cast<uint16_t>(std::strtoul(tok[1], nullptr, 10)));
            std::printf("%u\n", static_cast<unsigned>(x.u));
        }
        else if (c == "f16pr" && nt == 4)
        {
            uint32_t a = static_cast<uint32_t>(std::strtoul(tok[1], nullptr, 10));
            const uint64_t n = std::strtoull(tok[2], nullptr, 10);
            const uint32_t st = static_cast<uint32_t>(std::strtoul(tok[3], nullptr, 10));
            uint64_t h = 1469598103934665603ULL;
            for (uint64_t i = 0; i < n; i++, a += st)
            {
                union { uint32_t u; float f; } x; x.u = a;
                const uint16_t r = nunavut::support::float16Pack(x.f);
                h = (h ^ (r & 0xFFU)) * 1099511628211ULL; h = (h ^ (r >> 8U)) * 1099511628211ULL;
            }
            std::printf("%" PRIu64 "\n", h);
        }
#endif
        else if (c == "xz" && nt == 5)
        {
            Buf b(tok[1]);
            const auto r = bitspan(b.p, num(tok[2]), num(tok[3])).setZeros(num(tok[4]));
            finish(rc(r), b);
        }
        else if (c == "xpad" && nt == 5)
        {
            Buf b(tok[1]);
            bitspan s(b.p, num(tok[2]), num(tok[3]));
            const auto r = s.padAndMoveToAlignment(num(tok[4]));
            finish(rc(r) + std::to_string(s.offset()) + " ", b);
        }
        else if (c == "xsub" && nt == 5)
        {
            std::vector<uint8_t> mem(num(tok[1]) + 1);
            show_span(const_bitspan(mem.data(), num(tok[2]), num(tok[3])).subspan(num(tok[4])), mem.data());
        }
        else if (c == "xsubb" && nt == 5)
        {
            std::vector<uint8_t> mem(num(tok[1]) + 1);
            show_span(const_bitspan(mem.data(), num(tok[2]), num(tok[3])).subspan_bytes(num(tok[4])), mem.data());
        }
        else if (c == "xsub2" && nt == 6)
        {
            std::vector<uint8_t> mem(num(tok[1]) + 1);
            const auto r = bitspan(mem.data(), num(tok[2]), num(tok[3])).subspan(num(tok[4]), num(tok[5]));
            if (!r) std::printf("-%d\n", static_cast<int>(r.error())); else show_span(r.value(), mem.data());
        }
        else if (c == "xza" && nt == 4)
        {
            Buf b(tok[1]);
            const auto r = bitspan(b.p, num(tok[2]), num(tok[3])).setZeros();
            finish(rc(r), b);
        }
        else if (c == "xcpa" && nt == 7)
        {
            Buf d(tok[1]), s(tok[4]);
            const_bitspan(s.p, num(tok[5]), num(tok[6])).copyTo(bitspan(d.p, num(tok[2]), num(tok[3])));
            finish("", d, &s);
        }
        else if (c == "xat" && nt == 4)
        {
            const const_bitspan s = const_bitspan(arena, num(tok[1]), num(tok[2])).at_offset(num(tok[3]));
            std::printf("%zu %zu\n", s.size(), s.offset());
        }
        else if (c == "xmis" && nt == 3)
        {
            const const_bitspan s(arena, 0, num(tok[1]));
            std::printf("%zu %d %d\n", s.offset_misalignment(num(tok[2])), s.offset_alings_to(num(tok[2])) ? 1 : 0, s.offset_alings_to_byte() ? 1 : 0);
        }
        else if (c == "xso" && nt == 4)
        {
            const_bitspan s(arena, num(tok[1]), num(tok[2]));
            s.set_offset(num(tok[3]));
            std::printf("%zu %zu\n", s.size(), s.offset());
        }
        else if (c == "xob" && nt == 3)
        {
            std::printf("%zu\n", const_bitspan(arena, num(tok[1]), num(tok[2])).offset_bytes());
        }
        else if (c == "xbits" && nt == 3)
        {
            std::printf("%zu\n", const_bitspan(arena, num(tok[1]), num(tok[2])).size());
        }
        else if (c == "xceil" && nt == 3)
        {
            std::printf("%zu\n", const_bitspan(arena, num(tok[1]), num(tok[2])).offset_bytes_ceil());
        }
        else if (c == "xalign" && nt == 3)
        {
            const_bitspan s(arena, 0, num(tok[1]));
            switch (std::atoi(tok[2]))
            {
            case 8: s.align_offset_to<8>(); break;
            case 16: s.align_offset_to<16>(); break;
            case 32: s.align_offset_to<32>(); break;
            default: s.align_offset_to<64>(); break;
            }
            std::printf("%zu\n", s.offset());
        }
        else
        {
            std::puts("ERR unknown command");
        }
    }
    return 0;
}
