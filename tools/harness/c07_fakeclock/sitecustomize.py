"""C07 harness-side fake clock: put this directory on PYTHONPATH of an nnvg subprocess.
C07_FAKE_OFFSET=<seconds>  shifts every clock read; C07_FAKE_FROZEN=<epoch seconds> freezes the clock.
Patches time.time/time_ns and replaces datetime.datetime / datetime.date by subclasses whose now/utcnow/today use it."""
import datetime as _dt
import os as _os
import time as _time

_off = float(_os.environ.get('C07_FAKE_OFFSET', '0') or 0)
_frozen = _os.environ.get('C07_FAKE_FROZEN')
_real_time = _time.time


def _now() -> float:
    if _frozen:
        return float(_frozen)
    return _real_time() + _off


if _off or _frozen:
    _time.time = _now
    _time.time_ns = lambda: int(_now() * 1e9)
    _RealDT = _dt.datetime
    _RealDate = _dt.date

    class datetime(_RealDT):  # noqa: N801
        @classmethod
        def utcnow(cls):
            return _RealDT.fromtimestamp(_now(), _dt.timezone.utc).replace(tzinfo=None)

        @classmethod
        def now(cls, tz=None):
            return _RealDT.fromtimestamp(_now(), tz)

        @classmethod
        def today(cls):
            return _RealDT.fromtimestamp(_now())

    class date(_RealDate):  # noqa: N801
        @classmethod
        def today(cls):
            return _RealDT.fromtimestamp(_now()).date()

    _dt.datetime = datetime
    _dt.date = date
