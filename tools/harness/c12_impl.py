"""C12 harness: runs the real nnvg command line of the working tree (PYTHONPATH=<repo>/src) in-process, once, with
optional harness-side instrumentation.  One JSON document on stdin, one on stdout (last line, prefixed by C12OUT).

  {"argv": [...nnvg arguments...],
   "describe": true|false,        report target lists (in generation order, with kind) and the flags the model needs
   "extra_support": "<file>",     additionally offer this plain (non-.j2) file as a TYPE_SUPPORT resource so that
                                  SupportGenerator._copy_header is exercised (no built-in language ships one in this tree)
   "nonroot": {"root": "<dir>", "not_owned": ["<abs path>", ...]}
                                  emulate an unprivileged owner below <dir>: open-for-write of an existing file needs
                                  its u+w bit (o+w for files listed as not owned), creating an entry needs u+w on the
                                  directory, chmod of a not-owned file fails with EPERM (the sandbox runs as root, which
                                  ignores permission bits; the kernel's check is replaced by this shim)
   "trace": true                  record the chmod/open-for-write/mkdir/copy calls below the output directory
  }
"""
import builtins
import json
import os
import pathlib
import shutil
import stat
import sys
import traceback


def install_extra_support(extra: str) -> None:
    from nunavut._utilities import ResourceType
    from nunavut.lang._language import Language
    orig = Language.get_support_files

    def patched(self, resource_type=ResourceType.ANY):
        for r in orig(self, resource_type):
            yield r
        if resource_type in (ResourceType.ANY, ResourceType.TYPE_SUPPORT):
            yield pathlib.Path(extra)

    Language.get_support_files = patched


TRACE = []


def install_fs_shim(root: str, not_owned, nonroot: bool, crash=None) -> None:
    """crash = {"path": <rel>, "phase": "before_open" | "after_open" | "before_final_chmod"}: the process is killed
    (os._exit, no cleanup, no flush) at that point of the write of that file"""
    root = os.path.realpath(root)
    seen_open = set()

    def die():
        sys.stdout.write('\nC12OUT' + json.dumps({'crashed': True, 'trace': TRACE}) + '\n')
        sys.stdout.flush()
        os._exit(137)
    not_owned = {os.path.realpath(p) for p in not_owned}
    real_open, real_mkdir, real_chmod = builtins.open, os.mkdir, os.chmod

    def inside(p) -> bool:
        try:
            q = os.path.realpath(os.fspath(p))
        except TypeError:
            return False
        return q == root or q.startswith(root + os.sep)

    def dir_allows_new_entry(d: str) -> bool:
        try:
            st = os.stat(d)
        except OSError:
            return True  # let the real call produce the real error
        return bool(st.st_mode & 0o200)

    def check_write(p: str) -> None:
        q = os.path.realpath(p)
        if os.path.lexists(q):
            st = os.stat(q)
            if stat.S_ISDIR(st.st_mode):
                return
            ok = bool(st.st_mode & (0o002 if q in not_owned else 0o200))
            if not ok:
                raise PermissionError(13, 'Permission denied (emulated unprivileged owner)', p)
        elif not dir_allows_new_entry(os.path.dirname(q)):
            raise PermissionError(13, 'Permission denied (emulated unprivileged owner, directory not writable)', p)

    def my_open(file, mode='r', *a, **kw):
        if not isinstance(file, int) and inside(file) and any(ch in mode for ch in 'wax+'):
            rel = os.path.relpath(os.path.realpath(os.fspath(file)), root)
            TRACE.append(['open_w', rel])
            if crash and crash['path'] == rel and crash['phase'] == 'before_open':
                die()
            if nonroot:
                check_write(os.fspath(file))
            f = real_open(file, mode, *a, **kw)
            seen_open.add(rel)
            if crash and crash['path'] == rel and crash['phase'] == 'after_open':
                die()      # the file has been created/truncated, nothing written yet
            return f
        return real_open(file, mode, *a, **kw)

    def my_mkdir(path, *a, **kw):
        if inside(path):
            TRACE.append(['mkdir', os.path.relpath(os.path.realpath(os.fspath(path)), root)])
            q = os.path.realpath(os.fspath(path))
            if nonroot and not os.path.lexists(q) and not dir_allows_new_entry(os.path.dirname(q)):
                raise PermissionError(13, 'Permission denied (emulated unprivileged owner)', os.fspath(path))
        return real_mkdir(path, *a, **kw)

    def my_chmod(path, mode, *a, **kw):
        if not isinstance(path, int) and inside(path):
            rel = os.path.relpath(os.path.realpath(os.fspath(path)), root)
            TRACE.append(['chmod', rel, mode & 0o7777])
            if crash and crash['path'] == rel and crash['phase'] == 'before_final_chmod' and rel in seen_open:
                die()
            if nonroot and os.path.realpath(os.fspath(path)) in not_owned:
                raise PermissionError(1, 'Operation not permitted (emulated unprivileged owner)', os.fspath(path))
        return real_chmod(path, mode, *a, **kw)

    builtins.open = my_open
    os.mkdir = my_mkdir
    os.chmod = my_chmod
    import io
    io.open = my_open
    real_copy = shutil.copy

    def my_copy(src, dst, *a, **kw):
        if inside(dst):
            TRACE.append(['shutil.copy', os.path.relpath(os.path.realpath(os.fspath(dst)), root)])
        return real_copy(src, dst, *a, **kw)

    shutil.copy = my_copy


def describe(argv) -> dict:
    """target lists exactly as the generators enumerate them (dry run), plus the decisions of the runner"""
    from nunavut._utilities import TEMPLATE_SUFFIX
    from nunavut._postprocessors import FilePostProcessor, LinePostProcessor, SetFileMode
    from nunavut.cli import _make_parser
    from nunavut.cli.runners import ArgparseRunner
    args = _make_parser().parse_args(argv)
    extra = args.lookup_dir if args.lookup_dir is not None else []
    runner = ArgparseRunner(args.root_namespace, args, extra)
    out = pathlib.Path(args.outdir)
    sup_gen = runner._support_generator
    gen = runner._generator
    omit = args.omit_serialization_support
    sup_targets = [str(pathlib.Path(p).relative_to(out)) for p in sup_gen.generate_all(is_dryrun=True, omit_serialization_support=omit)]
    sup_kinds = [r.suffix == TEMPLATE_SUFFIX for r in sup_gen.get_templates(omit)]
    res_modes = [stat.S_IMODE(os.stat(str(r)).st_mode) for r in sup_gen.get_templates(omit)]
    typ_targets = [str(pathlib.Path(p).relative_to(out)) for p in gen.generate_all(is_dryrun=True, omit_serialization_support=omit)]
    from nunavut._utilities import ResourceType
    lang = sup_gen.language_context.get_target_language()

    def by_type(rt):
        tp = pathlib.Path(sup_gen.namespace.get_support_output_folder()) / sup_gen._sub_folders
        return [[str(((tp / r.name).with_suffix(lang.extension)).relative_to(out)), r.suffix == TEMPLATE_SUFFIX]
                for r in sup_gen._get_templates_by_support_type(rt)]
    return {
        'sersup': by_type(ResourceType.SERIALIZATION_SUPPORT),
        'typesup': by_type(ResourceType.TYPE_SUPPORT),
        'gensup': args.generate_support,
        'omit': bool(args.omit_serialization_support),
        'gen_support': bool(runner._should_generate_support()),
        'gen_types': args.generate_support != 'only',
        'support': [[p, k] for p, k in zip(sup_targets, sup_kinds)],
        'res_modes': res_modes,
        'types': typ_targets,
        'file_mode': args.file_mode,
        'no_overwrite': bool(args.no_overwrite),
        'dry_run': bool(args.dry_run),
        # the effective post-processor lists (command line + language configuration), as both generators partition them
        'line_pps': [any(isinstance(pp, LinePostProcessor) for pp in (g._post_processors or [])) for g in (sup_gen, gen)],
        'file_pps': [[(pp._file_mode if isinstance(pp, SetFileMode) else type(pp).__name__)
                      for pp in (g._post_processors or []) if isinstance(pp, FilePostProcessor)] for g in (sup_gen, gen)],
    }


def main() -> int:
    doc = json.load(sys.stdin)
    argv = doc['argv']
    res = {}
    if doc.get('extra_support'):
        install_extra_support(doc['extra_support'])
    try:
        if doc.get('describe'):
            res['describe'] = describe(argv)
        if doc.get('nonroot') or doc.get('trace') or doc.get('crash'):
            nr = doc.get('nonroot') or {}
            install_fs_shim(nr.get('root') or doc['trace_root'], nr.get('not_owned', []), bool(doc.get('nonroot')), doc.get('crash'))
        if doc.get('run', True):
            sys.argv = ['nnvg'] + argv
            from nunavut.cli import main as nnvg_main
            try:
                rc = nnvg_main()
                res['rc'] = int(rc or 0)
            except SystemExit as ex:
                res['rc'] = int(ex.code or 0) if not isinstance(ex.code, str) else 1
            except BaseException as ex:  # what `python -m nunavut` turns into a traceback and exit status 1
                res['rc'] = 1
                res['exc'] = type(ex).__name__
                res['msg'] = str(ex)[:300]
    except BaseException as ex:
        res['harness_error'] = ''.join(traceback.format_exception(type(ex), ex, ex.__traceback__))[-1500:]
    res['trace'] = TRACE
    sys.stdout.write('\nC12OUT' + json.dumps(res) + '\n')
    return 0


if __name__ == '__main__':
    sys.exit(main())
