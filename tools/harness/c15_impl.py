"""Runs the real line-buffer writer of /repo on JSON cases from stdin (one JSON document:
{"cases": [{"chunks": [...], "pps": [["trim"]|["limit", n], ...]}]}) and prints {"out": [...]}.
Executed with PYTHONPATH=/repo/src so that the working tree is what is exercised."""
import io
import json
import sys

from nunavut.jinja import CodeGenerator
from nunavut._postprocessors import LimitEmptyLines, TrimTrailingWhitespace


def mk(p):
    if p[0] == 'trim':
        return TrimTrailingWhitespace()
    if p[0] == 'limit':
        return LimitEmptyLines(p[1])
    raise ValueError(p)


def main():
    doc = json.load(sys.stdin)
    outs = []
    for c in doc['cases']:
        f = io.StringIO()
        if 'files' in c:   # several files through the real CodeGenerator._generate_code of ONE generator object
            import os
            import pathlib
            import shutil
            import tempfile
            import types
            from nunavut.jinja import DSDLCodeGenerator
            d = tempfile.mkdtemp(prefix='c15files-')
            try:
                gen = object.__new__(DSDLCodeGenerator)
                gen._env = types.SimpleNamespace(now_utc=None)
                gen._post_processors = [mk(p) for p in c['pps']]
                res = []
                for i, chunks in enumerate(c['files']):
                    path = pathlib.Path(d) / ('f%d.txt' % i)
                    gen._generate_code(path, None, iter(chunks), True)
                    with open(path, 'r', encoding='utf-8', newline='') as g:
                        res.append(g.read())
                outs.append({'ok': res})
            except Exception as ex:  # noqa
                outs.append({'err': repr(ex)})
            finally:
                shutil.rmtree(d, ignore_errors=True)
            continue
        if 'e2e' in c:   # nnvg end to end: real language configuration -> CodeGenerator.__init__ -> _handle_post_processors -> file
            import os
            import shutil
            import subprocess
            import tempfile
            d = tempfile.mkdtemp(prefix='c15e2e-')
            try:
                e = c['e2e']
                os.makedirs(os.path.join(d, 'ns'))
                os.makedirs(os.path.join(d, 't'))
                with open(os.path.join(d, 'ns', 'A.1.0.dsdl'), 'w') as g:
                    g.write('uint8 x\n@sealed\n')
                for tname in ('StructureType.j2', 'Namespace.j2'):
                    with open(os.path.join(d, 't', tname), 'w', encoding='utf-8', newline='') as g:
                        g.write(e['template_text'])
                cmd = [sys.executable, '-m', 'nunavut', '--target-language', e['lang'], '--templates', os.path.join(d, 't'),
                       '-O', os.path.join(d, 'out'), os.path.join(d, 'ns')] + e.get('args', [])
                q = subprocess.run(cmd, stdout=subprocess.PIPE, stderr=subprocess.STDOUT, text=True, timeout=120)
                from nunavut.lang import LanguageContextBuilder
                lang = LanguageContextBuilder(include_experimental_languages=True).set_target_language(e['lang']).create().get_target_language()
                try:
                    limit = int(lang.get_config_value('limit_empty_lines'))
                except KeyError:
                    limit = None
                trim = lang.get_config_value_as_bool('trim_trailing_whitespace')
                ext = lang.get_config_value('extension')
                path = os.path.join(d, 'out', 'ns', 'A_1_0' + ext)
                if q.returncode != 0 or not os.path.exists(path):
                    outs.append({'err': 'nnvg rc=%d: %s' % (q.returncode, q.stdout[-300:])})
                else:
                    with open(path, 'r', encoding='utf-8', newline='') as g:
                        outs.append({'ok': g.read(), 'limit': limit, 'trim': trim})
            except Exception as ex:  # noqa
                outs.append({'err': repr(ex)})
            finally:
                shutil.rmtree(d, ignore_errors=True)
            continue
        if 'handle' in c:   # the real CodeGenerator._handle_post_processors with a stub language object
            import nunavut._postprocessors as P

            class Other(P.FilePostProcessor):   # any post-processor that is neither built-in line processor
                def __call__(self, generated):
                    return generated

            class Lang:
                def __init__(self, limit, trim):
                    self.limit, self.trim = limit, trim

                def get_config_value(self, key, default_value=None):
                    if key == 'limit_empty_lines':
                        if self.limit is None:
                            raise KeyError(key)
                        return str(self.limit)
                    raise KeyError(key)

                def get_config_value_as_bool(self, key, default_value=False):
                    return self.trim if key == 'trim_trailing_whitespace' else default_value

            def mkk(k):
                return Other() if k == 'other' else mk(k)

            def kind(pp):
                if isinstance(pp, TrimTrailingWhitespace):
                    return ['trim']
                if isinstance(pp, LimitEmptyLines):
                    return ['limit', pp._max_empty_lines]
                return 'other'
            try:
                h = c['handle']
                given = None if h['given'] is None else [mkk(k) for k in h['given']]
                res = CodeGenerator._handle_post_processors(Lang(h['cfg_limit'], h['cfg_trim']), given)
                entry = {'kinds': None if res is None else [kind(pp) for pp in res],
                         'given_after': None if given is None else [kind(pp) for pp in given],
                         'same_object': res is given}
                if 'chunks' in c:   # ... and the text written through the line processors of that list (as _generate_code selects them)
                    line_pps = [pp for pp in (res or []) if isinstance(pp, P.LinePostProcessor)]
                    if line_pps:
                        CodeGenerator._generate_with_line_buffer(f, iter(c['chunks']), line_pps)
                    else:
                        for part in c['chunks']:
                            f.write(part)
                    entry['ok'] = f.getvalue()
                outs.append(entry)
            except Exception as ex:  # noqa
                outs.append({'err': repr(ex)})
            continue
        if 'copy_text' in c:   # SupportGenerator._copy_header_using_line_pps on a real file (self is unused by the method)
            import os
            import tempfile
            from nunavut.jinja import SupportGenerator
            d = tempfile.mkdtemp(prefix='c15copy-')
            try:
                src, dst = os.path.join(d, 'res.h'), os.path.join(d, 'out.h')
                with open(src, 'w', encoding='utf-8', newline='') as g:
                    g.write(c['copy_text'])
                SupportGenerator._copy_header_using_line_pps(None, src, dst, [mk(p) for p in c['pps']])
                with open(dst, 'r', encoding='utf-8', newline='') as g:
                    outs.append({'ok': g.read()})
            except Exception as ex:  # noqa
                outs.append({'err': repr(ex)})
            finally:
                import shutil
                shutil.rmtree(d, ignore_errors=True)
            continue
        try:
            CodeGenerator._generate_with_line_buffer(f, iter(c['chunks']), [mk(p) for p in c['pps']])
            outs.append({'ok': f.getvalue()})
        except Exception as ex:  # noqa
            outs.append({'err': repr(ex)})
    json.dump({'out': outs}, sys.stdout)


if __name__ == '__main__':
    main()
