"""Runs the real line-buffer writer of /repo on JSON cases from stdin (one JSON document:
{"cases": [{"chunks": [...], "pps": [["trim"]|["limit", n], ...]}]}) and prints {"out": [...]}.
Executed with PYTHONPATH=/repo/src so that the working tree is what is exercised."""
import io
import json
import sys

from nunavut.jinja import CodeGenerator
from nunavut._postprocessors import LimitEmptyLines, TrimTrailingWhitespace


def mk(p):
    if p[0] == 'trim':
        return TrimTrailingWhitespace()
    if p[0] == 'limit':
        return LimitEmptyLines(p[1])
    raise ValueError(p)


def main():
    doc = json.load(sys.stdin)
    outs = []
    for c in doc['cases']:
        f = io.StringIO()
        if 'files' in c:   # several files through the real CodeGenerator._generate_code of ONE generator object
            import os
            import pathlib
            import shutil
            import tempfile
            import types
            from nunavut.jinja import DSDLCodeGenerator
            d = tempfile.mkdtemp(prefix='c15files-')
            try:
                gen = object.__new__(DSDLCodeGenerator)
                gen._env = types.SimpleNamespace(now_utc=None)
                gen._post_processors = [mk(p) for p in c['pps']]
                res = []
                for i, chunks in enumerate(c['files']):
                    path = pathlib.Path(d) / ('f%d.txt' % i)
                    gen._generate_code(path, None, iter(chunks), True)
                    with open(path, 'r', encoding='utf-8', newline='') as g:
                        res.append(g.read())
                outs.append({'ok': res})
            except Exception as ex:  # noqa
                outs.append({'err': repr(ex)})
            finally:
                shutil.rmtree(d, ignore_errors=True)
            continue
        if 'copy_text' in c:   # SupportGenerator._copy_header_using_line_pps on a real file (self is unused by the method)
            import os
            import tempfile
            from nunavut.jinja import SupportGenerator
            d = tempfile.mkdtemp(prefix='c15copy-')
            try:
                src, dst = os.path.join(d, 'res.h'), os.path.join(d, 'out.h')
                with open(src, 'w', encoding='utf-8', newline='') as g:
                    g.write(c['copy_text'])
                SupportGenerator._copy_header_using_line_pps(None, src, dst, [mk(p) for p in c['pps']])
                with open(dst, 'r', encoding='utf-8', newline='') as g:
                    outs.append({'ok': g.read()})
            except Exception as ex:  # noqa
                outs.append({'err': repr(ex)})
            finally:
                import shutil
                shutil.rmtree(d, ignore_errors=True)
            continue
        try:
            CodeGenerator._generate_with_line_buffer(f, iter(c['chunks']), [mk(p) for p in c['pps']])
            outs.append({'ok': f.getvalue()})
        except Exception as ex:  # noqa
            outs.append({'err': repr(ex)})
    json.dump({'out': outs}, sys.stdout)


if __name__ == '__main__':
    main()
