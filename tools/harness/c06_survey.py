"""C06 development aid (not part of the check): runs the generate + compile part of tools/checks/c06.py for many seeds WITHOUT the Coq build
and prints the unexplained failures grouped by configuration and first diagnostic.   usage: c06_survey.py <first_seed> <n_seeds> [n_random]"""
import collections
import json
import os
import re
import sys
from concurrent.futures import ThreadPoolExecutor

sys.path.insert(0, os.path.dirname(os.path.dirname(os.path.dirname(os.path.abspath(__file__)))))
from tools.lib import core  # noqa: E402
from tools.checks import c06  # noqa: E402
from tools.harness import c06_dsdlgen as dg  # noqa: E402


def main() -> None:
    first, n = int(sys.argv[1]), int(sys.argv[2])
    n_random = int(sys.argv[3]) if len(sys.argv) > 3 else 4
    builder = c06.Builder()
    chk0 = core.Check('C06', 'quick', 0)
    c06.load_own_known(chk0)
    live, detail = c06.probe_findings(chk0, builder)
    print('live:', sorted(live), flush=True)
    groups = collections.defaultdict(list)
    shown = set()
    for seed in range(first, first + n):
        chk = core.Check('C06', 'quick', seed)
        gen = dg.Gen(chk.rng, core.REPO)
        cases = [gen.case(chk.rng.choice([5, 8, 8, 10])) for _ in range(n_random)]
        configs = [c for c in c06.all_configs() if not (c['lang'] == 'py' and c['pod'] and 'F-C06-PY-POD' in live)]
        wd = core.scratch('c06-sv-')
        outs = c06.run_impl(cases, configs, wd, jobs=6)
        jobs = []
        for ci, r in enumerate(outs):
            if not r.get('valid'):
                continue
            for cfg in configs:
                run = r['runs'].get(c06.cfg_key(cfg))
                if run and not run['ok']:
                    groups[('GEN', c06.cfg_key(cfg), run['log'].strip().splitlines()[-1][:120])].append((seed, ci, cases[ci]))
                for m in (c06.closure_oracle(r, cfg) if run else []):
                    groups[('ORACLE', c06.cfg_key(cfg), re.sub(r'\S+/', '', m)[:100])].append((seed, ci, cases[ci]))
            jobs += c06.make_jobs(ci, r, configs)
            exe = os.path.join(core.BUILD, 'ocaml', 'c06', 'driver.exe')
            if os.path.exists(exe):
                reqs, idx = [], []
                for cfg in configs:
                    run = r['runs'].get(c06.cfg_key(cfg))
                    if run and run['ok']:
                        reqs.append(c06.model_lines(r, cfg, False))
                        idx.append(cfg)
                types = {c06.tkey(t): t for t in r['types']}
                for cfg, m in zip(idx, c06.run_model(exe, reqs)):
                    for dd in c06.compare_model(m, r['runs'][c06.cfg_key(cfg)], cfg, types)[:2]:
                        groups[('MODEL', c06.cfg_key(cfg), re.sub(r'\S+/', '', dd)[:140])].append((seed, ci, cases[ci]))
        st = {}
        with ThreadPoolExecutor(8) as ex:
            for v in ex.map(lambda j: c06.judge(j, builder, live, st), jobs):
                if v:
                    fe = re.sub(r'^\S+?:\d+:\d+: ', '', v['first_error'])
                    fe = re.sub(r"[‘’']", "'", fe)
                    groups[(v['config'] + '+' + v['variant'], fe[:110])].append((seed, v['case_index'], v['header'], v['type']))
        print('seed', seed, 'jobs', len(jobs), 'unexplained so far', sum(len(v) for v in groups.values()), flush=True)
        for k in groups:
            if k not in shown:
                shown.add(k)
                print('   NEW', k, [x[:4] if len(x) == 4 else x[:2] for x in groups[k][:2]], flush=True)
        import shutil
        shutil.rmtree(wd, ignore_errors=True)
    for k, v in sorted(groups.items(), key=lambda kv: -len(kv[1])):
        print(len(v), k, [x[:4] if len(x) == 4 else x[:2] for x in v[:3]])
    json.dump({str(k): [list(x[:4]) if len(x) == 4 else [x[0], x[1]] for x in v] for k, v in groups.items()}, open('/tmp/c06-survey.json', 'w'), default=str)


if __name__ == '__main__':
    main()
