"""Shared machinery of the checks: Coq build with translator regeneration, extraction
build, evidence, replay files, known findings, verdict protocol."""
from __future__ import annotations

import atexit
import contextlib
import fcntl
import hashlib
import json
import os
import random
import re
import shutil
import subprocess
import sys
import tempfile
import time
import typing

VERIF = os.path.dirname(os.path.dirname(os.path.dirname(os.path.abspath(__file__))))
REPO = os.environ.get('VERIF_REPO', '/repo')
COQ = os.path.join(VERIF, 'coq')
BUILD = os.path.join(VERIF, 'build')
PY = '/venv/bin/python'
NPROC = os.cpu_count() or 8

TRUSTED_BASE_COMMON = [
    'Coq 8.16.1 kernel (coqc, full .vo builds, vm_compute; native_compute not used)',
    'no Axiom/Parameter/Admitted in the development (grep in setup); Print Assumptions output recorded per theorem',
]


def repo_env(extra: typing.Optional[dict] = None) -> dict:
    env = dict(os.environ)
    env['PYTHONPATH'] = os.path.join(REPO, 'src')
    env.setdefault('PYTHONHASHSEED', '0')
    env['LC_ALL'] = 'C.UTF-8'
    env['PYTHONDONTWRITEBYTECODE'] = '1'
    env['NUNAVUT_VERIF'] = '1'
    if extra:
        env.update(extra)
    return env


@contextlib.contextmanager
def build_lock(name: str = 'coq'):
    os.makedirs(BUILD, exist_ok=True)
    with open(os.path.join(BUILD, '.lock-' + name), 'w') as f:
        fcntl.flock(f, fcntl.LOCK_EX)
        try:
            yield
        finally:
            fcntl.flock(f, fcntl.LOCK_UN)


_scratch_dirs: typing.List[str] = []


def scratch(prefix: str = 'nnvverif-') -> str:
    d = tempfile.mkdtemp(prefix=prefix)
    _scratch_dirs.append(d)
    return d


@atexit.register
def _cleanup() -> None:
    for d in _scratch_dirs:
        shutil.rmtree(d, ignore_errors=True)


def run(cmd, timeout=600, cwd=None, env=None, input=None) -> subprocess.CompletedProcess:
    try:
        return subprocess.run(cmd, cwd=cwd, env=env, input=input, stdout=subprocess.PIPE, stderr=subprocess.STDOUT,
                              timeout=timeout, text=True, errors='replace')
    except subprocess.TimeoutExpired as ex:
        out = ex.stdout or ''
        if isinstance(out, bytes):
            out = out.decode('utf-8', 'replace')
        return subprocess.CompletedProcess(cmd, 124, out + '\n[timeout after %ss]' % timeout)


# ---------------------------------------------------------------------------------------------
# Coq
# ---------------------------------------------------------------------------------------------

class CoqResult:
    def __init__(self):
        self.ok = True
        self.translator_msgs: typing.List[str] = []
        self.translators_ok = True
        self.make_log = ''
        self.failed_file: typing.Optional[str] = None
        self.theorems: typing.List[str] = []
        self.assumptions: typing.Dict[str, str] = {}
        self.failed_theorem: typing.Optional[str] = None
        self.error_text = ''
        self.checker_cmd = ''


COQPROJECT_HEAD = ('-Q theories Verif\n'
                   '-arg -w -arg -notation-overridden,-deprecated-hint-without-locality,-deprecated-instance-without-locality\n')


def _ensure_makefile() -> None:
    """_CoqProject lists every .v under coq/theories (sorted); it and the Makefile are rewritten only when the set changes."""
    files = []
    for root, _, names in os.walk(os.path.join(COQ, 'theories')):
        for n in names:
            if n.endswith('.v') and not n.startswith('.'):
                files.append(os.path.relpath(os.path.join(root, n), COQ))
    text = COQPROJECT_HEAD + '\n'.join(sorted(files)) + '\n'
    proj = os.path.join(COQ, '_CoqProject')
    mk = os.path.join(COQ, 'Makefile')
    old = open(proj).read() if os.path.exists(proj) else ''
    if old != text or not os.path.exists(mk):
        with open(proj, 'w') as f:
            f.write(text)
        run(['coq_makefile', '-f', '_CoqProject', '-o', 'Makefile'], cwd=COQ, timeout=60)


def regenerate(generators: typing.Sequence[str]) -> typing.Tuple[bool, typing.List[str]]:
    """Run the translators (in-process) against /repo's working tree."""
    sys.path.insert(0, VERIF)
    from tools.translators import gen
    ok = True
    msgs = []
    for g in generators:
        try:
            o, m = gen.GENERATORS[g]()
        except Exception as ex:  # a crash of the translator is a fail-closed outcome too
            o, m = False, 'translator %s crashed: %r' % (g, ex)
        ok &= o
        msgs.append('%s: %s' % (g, m))
    return ok, msgs


def coq_check(prop_file: str, generators: typing.Sequence[str], timeout: int = 900) -> CoqResult:
    """Regenerate Generated/*.v, build the dependency cone of Properties/<prop_file>.v with make (full .vo),
    then re-run coqc on the property file itself to capture Print Assumptions."""
    res = CoqResult()
    rel = 'theories/Properties/%s.v' % prop_file
    res.checker_cmd = ('python -m tools.translators.gen %s && make -C coq theories/Properties/%s.vo && '
                       'coqc -Q theories Verif %s' % (' '.join(generators), prop_file, rel))
    with build_lock('coq'):
        res.translators_ok, res.translator_msgs = regenerate(generators)
        _ensure_makefile()
        # dependencies of the property file (everything it needs, not the file itself)
        vo = rel[:-2] + '.vo'
        p = run(['make', '-j%d' % NPROC, vo], cwd=COQ, timeout=timeout)
        res.make_log = p.stdout
        thm_src = open(os.path.join(COQ, rel), encoding='utf-8').read()
        res.theorems = re.findall(r'^(?:Theorem|Example)\s+(\w+)', thm_src, flags=re.M)
        if p.returncode != 0:
            res.ok = False
            m = re.search(r'File "\./?([^"]+)", line (\d+)', p.stdout)
            if m:
                res.failed_file = m.group(1)
                if m.group(1).endswith(rel):
                    res.failed_theorem = _theorem_at(thm_src, int(m.group(2)))
            err = p.stdout[-3000:]
            res.error_text = err
            return res
        # capture assumptions (always, even when make found the .vo up to date).  When make has just compiled the property
        # file (it is the last target: it depends on everything else) its output is the tail of make's output: do not
        # compile it a second time.
        marker = 'COQC ' + rel
        n_pa = len(re.findall(r'^Print Assumptions\s+(\w+)\.', thm_src, flags=re.M))
        tail = p.stdout[p.stdout.rfind(marker) + len(marker):] if marker in p.stdout else ''
        if tail and len(re.findall(r'(?m)^(?:Closed under the global context|Axioms:)', tail)) == n_pa:
            res.assumptions = _parse_assumptions(thm_src, tail)
            if not res.translators_ok:
                res.ok = False
                res.error_text = '; '.join(res.translator_msgs)
            return res
        q = run(['coqc', '-Q', 'theories', 'Verif', '-w', '-notation-overridden', rel], cwd=COQ, timeout=timeout)
        if q.returncode != 0:
            res.ok = False
            res.failed_file = rel
            m = re.search(r'line (\d+)', q.stdout)
            if m:
                res.failed_theorem = _theorem_at(thm_src, int(m.group(1)))
            res.error_text = q.stdout[-3000:]
            return res
        res.assumptions = _parse_assumptions(thm_src, q.stdout)
    if not res.translators_ok:
        res.ok = False
        res.error_text = '; '.join(res.translator_msgs)
    return res


def _theorem_at(src: str, line: int) -> typing.Optional[str]:
    name = None
    for i, l in enumerate(src.splitlines(), 1):
        m = re.match(r'(?:Theorem|Example|Lemma)\s+(\w+)', l)
        if m:
            name = m.group(1)
        if i >= line:
            break
    return name


def _parse_assumptions(src: str, out: str) -> typing.Dict[str, str]:
    names = re.findall(r'^Print Assumptions\s+(\w+)\.', src, flags=re.M)
    blocks = re.split(r'(?m)^(?=Closed under the global context|Axioms:)', out)
    blocks = [b.strip() for b in blocks if b.strip().startswith(('Closed', 'Axioms'))]
    res = {}
    for n, b in zip(names, blocks):
        res[n] = 'closed' if b.startswith('Closed') else ' '.join(b.split())
    return res


def build_extracted(name: str, extract_v: str, driver_ml: str, timeout: int = 600) -> typing.Tuple[bool, str, str]:
    """Extract (ExtrOcamlBasic only) and compile an OCaml driver.  Returns (ok, exe path, log)."""
    d = os.path.join(BUILD, 'ocaml', name)
    os.makedirs(d, exist_ok=True)
    exe = os.path.join(d, 'driver.exe')
    with build_lock('ocaml-' + name):
        src_v = os.path.join(d, extract_v)
        shutil.copy(os.path.join(COQ, 'extraction', extract_v), src_v)
        for f in os.listdir(d):
            if f.endswith(('.ml', '.mli', '.cmx', '.cmi', '.o')):
                os.unlink(os.path.join(d, f))
        p = run(['coqc', '-Q', os.path.join(COQ, 'theories'), 'Verif', '-w', '-extraction', src_v], cwd=d, timeout=timeout)
        if p.returncode != 0:
            return False, exe, p.stdout[-3000:]
        shutil.copy(os.path.join(VERIF, 'ocaml', driver_ml), os.path.join(d, 'driver.ml'))
        mls = sorted(f for f in os.listdir(d) if f.endswith('.ml') and f != 'driver.ml')
        mlis = [f[:-3] + '.mli' for f in mls if os.path.exists(os.path.join(d, f[:-3] + '.mli'))]
        # link into a private file and rename it into place: another check that shares this driver (C01-C05 share
        # `codec`) may be EXECUTING driver.exe right now without holding the build lock; a rename is atomic, so it sees
        # either the old or the new complete executable, never a half-written one
        tmp_exe = exe + '.tmp%d' % os.getpid()
        cmd = ['ocamlfind', 'ocamlopt', '-inline', '100', '-w', '-a', '-o', tmp_exe]
        for mli, ml in zip(mlis, mls):
            cmd += [mli, ml]
        cmd += ['driver.ml']
        q = run(cmd, cwd=d, timeout=timeout)
        if q.returncode != 0:
            if os.path.exists(tmp_exe):
                os.unlink(tmp_exe)
            return False, exe, q.stdout[-3000:]
        os.replace(tmp_exe, exe)
    return True, exe, ''


# ---------------------------------------------------------------------------------------------
# Known findings
# ---------------------------------------------------------------------------------------------

def load_known(prop: str) -> typing.List[dict]:
    with open(os.path.join(VERIF, 'known_findings.json'), encoding='utf-8') as f:
        doc = json.load(f)
    return [e for e in doc['findings'] if prop in e['properties']]


# ---------------------------------------------------------------------------------------------
# Check context: evidence, violations
# ---------------------------------------------------------------------------------------------

class Check:
    def __init__(self, prop: str, tier: str, seed: int, level: str = 'proof'):
        self.prop = prop
        self.tier = tier
        self.seed = seed
        self.level = level
        self.rng = random.Random(seed)
        self.t0 = time.time()
        self.violations: typing.List[str] = []
        self.known_printed: typing.List[str] = []
        self.coverage: typing.Dict[str, typing.Any] = {}
        self.assumptions: typing.List[str] = []
        self.known = load_known(prop)
        self.notes: typing.List[str] = []

    # -- findings ---------------------------------------------------------------------------
    def known_entry(self, fid: str) -> typing.Optional[dict]:
        for e in self.known:
            if e['id'] == fid:
                return e
        return None

    def is_known(self, fid: str) -> bool:
        e = self.known_entry(fid)
        return e is not None and e.get('status') == 'known'

    def report_known(self, fid: str, detail: str = '') -> None:
        e = self.known_entry(fid)
        assert e is not None and e['status'] == 'known'
        if fid in self.known_printed:
            return
        self.known_printed.append(fid)
        print('KNOWN-FINDING: property=%s %s %s%s' % (self.prop, fid, e['what'], (' [' + detail + ']') if detail else ''))
        sys.stdout.flush()

    # -- violations -------------------------------------------------------------------------
    def violation(self, replay: dict, found_input: bool) -> None:
        os.makedirs(os.path.join(BUILD, 'replays'), exist_ok=True)
        replay = dict(replay)
        replay.setdefault('property', self.prop)
        replay.setdefault('seed', self.seed)
        replay.setdefault('tier', self.tier)
        replay['kind'] = 'failing-input' if found_input else 'broken-obligation'
        blob = json.dumps(replay, indent=1, sort_keys=True, default=str)
        h = hashlib.sha1(blob.encode()).hexdigest()[:10]
        path = os.path.join(BUILD, 'replays', '%s-%s.json' % (self.prop, h))
        with open(path, 'w', encoding='utf-8') as f:
            f.write(blob)
        line = 'VIOLATION property=%s replay=%s' % (self.prop, path)
        if not found_input:
            line += ' no-failing-input-found'
        self.violations.append(line)
        print(line)
        sys.stdout.flush()

    # -- evidence ---------------------------------------------------------------------------
    def finish(self) -> int:
        cov = dict(self.coverage)
        if not self.assumptions:
            # what the check trusts: the trusted base of its proof stage plus every axiom a property theorem depends on
            self.assumptions = list(cov.get('trusted_base', []))
            for thm, a in sorted((cov.get('print_assumptions') or {}).items()):
                if a != 'closed':
                    self.assumptions.append('theorem %s depends on (Print Assumptions): %s' % (thm, a))
        ev = {
            'property_id': self.prop,
            'tier': self.tier,
            'seed': self.seed,
            'level': self.level,
            'coverage': cov,
            'assumptions': self.assumptions,
            'wall_s': round(time.time() - self.t0, 2),
            'violations': len(self.violations),
            'known_findings_reproduced': self.known_printed,
            'notes': self.notes,
        }
        os.makedirs(os.path.join(VERIF, 'evidence'), exist_ok=True)
        path = os.path.join(VERIF, 'evidence', '%s.json' % self.prop)
        tmp = path + '.tmp%d' % os.getpid()
        with open(tmp, 'w', encoding='utf-8') as f:
            json.dump(ev, f, indent=1, sort_keys=True, default=str)
            f.write('\n')
        os.replace(tmp, path)
        return 1 if self.violations else 0

    def proof_coverage(self, res: CoqResult, extra_trusted: typing.Sequence[str]) -> None:
        n = len(res.theorems)
        discharged = n if res.ok else 0
        self.coverage.update({
            'obligations': max(n, 1),
            'discharged': discharged,
            'checker_cmd': res.checker_cmd,
            'trusted_base': TRUSTED_BASE_COMMON + list(extra_trusted),
            'theorems': res.theorems,
            'print_assumptions': res.assumptions,
            'translators': res.translator_msgs,
        })
        if not res.ok:
            self.coverage['broken'] = {'file': res.failed_file, 'theorem': res.failed_theorem, 'error': res.error_text[-1500:]}
