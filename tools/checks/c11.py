"""C11: types map one-to-one onto files in the output tree; the namespace model is a tree."""
from __future__ import annotations

import collections
import concurrent.futures
import json
import os
import re
import shutil
import typing

from tools.lib import core

PROP = 'C11'

MANIFEST = dict(
    technique='Coq proof (loop invariants by induction over the type list and over the namespace index in arbitrary iteration order; '
              'BFS invariant with a ghost visited list) about a hand model of build_namespace_tree / Namespace enumeration / BFS path '
              'lookup / make_path; source tie by shape pins on every modelled function and an AST scan of the two path sites, '
              'regenerated from /repo on every run; extracted-model vs. implementation correspondence on random DSDL trees, plus real '
              'generation runs (API and nnvg) into a sandbox whose parent directory is snapshotted',
    text='Theorems in coq/theories/Properties/C11.v, for EVERY list of types with pairwise different (namespace, short name, version) '
         'under one root, every stropping function (also one that folds different namespace names onto one identifier), every '
         'iteration order of the two kinds of hash sets, every extension / stem / output directory, with NO excluded input: '
         'C11_index_prefix_closed (ancestor index = set of non-empty namespace prefixes; soundness of the `break`); C11_ns_each_once '
         '(every non-empty prefix, empty intermediate namespaces included, is a Namespace object exactly once); C11_types_stored_once; '
         'C11_links_sound, C11_links_consistent (child/parent links = prefix structure); C11_tree (returned root is the one-component '
         'namespace, reached by get_root_namespace from every node, only node without parent, parents one component shorter: acyclic); '
         'C11_types_each_once (get_all_types / get_all_datatypes / get_all_namespaces enumerate every type and namespace exactly once); '
         'C11_lookup_total (find_output_path_for_type finds every type from every node); C11_path_shape, C11_ns_path_shape; '
         'C11_path_injective + C11_base_name_injective (distinct types never share a file when stropping is injective on the names '
         'involved); C11_path_inside_outdir, C11_ns_path_inside_outdir (all components below the output directory are safe names, '
         'lexical resolution only descends); C11_include_path_eq_output_path; C11_type_file_in_namespace_folder (the type file lies in '
         'Namespace.output_folder of its namespace) and C11_type_file_folder_stropping_disabled (enable_stropping = false: iff stropping '
         'leaves the namespace components alone, witness); C11_children_enumerated_in_name_order, '
         'C11_children_order_independent_of_set_order. FILE SYSTEM: c11_targets = the output paths generate_all writes (derived from '
         'get_all_types / get_all_datatypes; exported to C12): C11_written_paths_are_type_and_namespace_files, '
         'C11_written_paths_inside_outdir (every written path = outdir ++ safe components), '
         'C11_written_paths_inside_outdir_every_stem and c11_targets_distinct[_either/_types_only]: for EVERY namespace-file stem '
         'string (the model takes the stem through pathlib: separators, "..", absolute, empty) on every run of build_namespace_tree '
         'that does not raise (build_checked, instantiated with the regenerated facts pin_c11path_stem_validated / '
         'pin_c11tree_stem_check, both obligations now: C11_stem_validated_live, C11_stem_collision_check_live; the pre-fix shapes are '
         'no longer accepted; F-NS-STEM-COLLIDE, F-NS-STEM-PATH fixed, their refutations in History/C11_history.v). SUPPORT FILES: '
         'C11_support_paths_inside_outdir[_either]: for EVERY support_namespace string, on every run in which '
         'Language.support_namespace does not raise, every support file is outdir ++ safe components (support_targets instantiated '
         'with the regenerated pin_c11support_ns_validated; while the validation is not in /repo the premise sn_valid remains and '
         'C11_support_paths_inside_outdir_refuted gives the witness "/esc": known finding F-SUPPORT-NS-PATH, reproduced on nnvg, fix '
         'design_notes/C11_support_namespace_fix.patch; C11_support_ns_validated_live becomes an obligation when the fix is recorded '
         'as landed). PYTHON REFERENCES: C11_py_reference_id_types_are_any (scan), C11_py_any_path_agree (the real Python stropper '
         'gives the same token for id types "any" and "path" on every DSDL name), C11_py_reference_is_directory_chain. REAL STROPPERS (C09 StropInst, identifier type path, '
         'all three languages, all DSDL names): C11_real_names_ident_like, C11_real_written_paths_inside_outdir (no stropping '
         'hypothesis left), C11_real_paths_equal_iff_fold (injectivity modulo the folding relation, exactly), '
         'C11_real_fold_is_equality_on_clean, C11_real_path_injective_on_clean, C11_real_fold_witness (ns.class.T / ns._class.T -> one '
         'file: the documented stropping exception). Source tie: C11_tree_shape_pinned, C11_path_shape_pinned (normalised AST of '
         'build_namespace_tree, _NamespaceFactory, Namespace.__init__/__eq__/__hash__/_add_data_type/_add_nested_namespace/get_all_*/'
         '_recursive_*/find_output_path_for_type/_bfs_search_for_output_path, IncludeGenerator.make_path/_make_ns_list, '
         'Language.filter_short_reference_name, filter_type_to_include_path) and C11_path_sites_same_id_type (both path sites call '
         'make_path once and strop nothing themselves; every stropping call of the path mechanism passes identifier type "path"), C11_path_sites_same_extension_key_and_flags '
         '(output chain, namespace file and include chains of lang/c, lang/cpp read the extension from the same configuration key and '
         'forward it unchanged; no explicit stropping argument) on which C11_include_path_eq_output_path depends, '
         'C11_generate_all_shape_pinned. '
         'Theorems about code no longer in /repo are in coq/theories/History/C11_history.v. Correspondence (also with duck-typed type '
         'sets pydsdl refuses: a type named like a sub-namespace): the '
         'extracted model and the real build_namespace_tree / DSDLCodeGenerator / nnvg run on the same random DSDL trees (c, cpp, py; '
         'names sampled from every reserved list and pattern of every identifier type of the language configuration; folded sibling '
         'namespaces; extension / stem / stropping overrides; five spellings of the output directory) and are compared on node set, '
         'links, enumerations, lookup from every node, path map; the independent property oracle additionally checks files on disk, '
         'type file inside its namespace folder, include paths (c, cpp) / filter_imports, filter_full_reference_name and import lines (py) of a '
         'type referenced from another root namespace; the COMPLETE set of files created below the case directory (parent of the sandbox '
         'that is the parent of the output directory) is compared, for runs with support files against type/namespace files + the files of '
         'a support-only reference run. html/js are not exercised.',
    note='Trusted: Coq kernel; the hand model Gen/Namespace.v for the pinned shape of the code (shape pins compare normalised ASTs: any '
         'edit other than comments/docstrings/annotations/local renames fails closed and is then judged by the falsifier); '
         'namespaces as component lists instead of dot-joined strings; pathlib (the model receives PurePath(outdir).parts and '
         'reproduces with_suffix; joining relative parts is concatenation); pydsdl guarantees (one root, no duplicate definitions); '
         'stropping is an arbitrary function in the proofs (identifier-likeness and injectivity are hypotheses, C09 covers them) and a '
         'table taken from the real filter_id(x, "path") in the correspondence run; POSIX lexical resolution without symlinks for '
         '"inside the output directory"; extraction (ExtrOcamlBasic) + OCaml driver; C09 model of TokenEncoder.strop (Gen/Strop*.v) for '
         'the real-stropper theorems: they use only C09 soundness and identity-on-clean-names lemmas, NOT totality, so none of them '
         'carries cpp_whole_token_premise (C09 named premise for the totality of C++ tokens containing "__": if strop raised nothing '
         'would be generated; real_strop then keeps the DSDL name, itself a valid identifier); c, cpp and py are all unconditional; '
         'with_suffix is total in the model (extensions pathlib rejects make the code raise before writing: valid_ext premise). Not '
         'covered: the empty type list (root namespace ""), html/js, content of files.',
    design='§5 C11')

SAFE_COMPONENTS = ['a', 'b', 'c', 'd', 'e9', 'Abc', 'long_component_name', 'x1', 'q_', 'zz', 'm', 'n', 'p',
                   # reserved somewhere (C / C++ / Python keywords, reserved patterns)
                   'class', 'double', 'for', 'while', 'namespace', 'if', 'register', 'delete', 'try', 'None', 'lambda', 'def',
                   'import', '_Reserved', '__x', 'char', 'long', 'new', 'pass', 'NULL', 'errno', 'typedef', 'is', 'in']
SHORT_NAMES = ['T', 'Abc', 'Heartbeat', 'for', 'class', 'double', 'X_1', 'X_1_2', 'X', '_Q', 'while', 'new', 'None', 'lambda',
               'Node', 'e', 'Long_Name_9', '__y', 'register']
ROOTS = ['ns', 'reg', 'class', 'vendor_x', 'Zeta', 'delete']
LANGS = ['c', 'cpp', 'py']
EXTS = [None, None, '.hh', '.hpp', '.inc', '.tar.gz', '.x']
STEMS = [None, None, 'zz', '_ns', 'index']
OUTDIRS = ['rel', 'trail', 'dot', 'abs', 'abstrail']


# ---- names drawn from the language configuration of the tree under test -----------------------------------------------------
def _sample_regex(pat: str, limit: int = 12) -> typing.List[str]:
    """a few strings matching `pat` (the subset used by properties.yaml: anchors, literals, classes, groups, alternation,
    ? * + {n}); every candidate is re-checked with re.search by the caller, so imprecision here only loses candidates"""
    try:
        import re._parser as sre   # Python >= 3.11
    except ImportError:            # pragma: no cover
        import sre_parse as sre

    def pick_in(items) -> typing.List[str]:
        out = []
        neg = any(op is sre.NEGATE for op, _ in items)
        if neg:
            return ['a', 'Q']
        for op, av in items:
            if op is sre.LITERAL:
                out.append(chr(av))
            elif op is sre.RANGE:
                lo, hi = av
                out.extend({chr(lo), chr(hi), chr((lo + hi) // 2)})
            elif op is sre.CATEGORY:
                out.extend(['a', '7', '_'])
        return [c for c in out if c.isalnum() or c == '_'][:4] or ['a']

    def gen(seq) -> typing.List[str]:
        res = ['']
        for op, av in seq:
            if op is sre.LITERAL:
                alts = [chr(av)]
            elif op is sre.IN:
                alts = pick_in(av)
            elif op is sre.ANY:
                alts = ['a']
            elif op is sre.AT:
                alts = ['']
            elif op is sre.SUBPATTERN:
                alts = gen(av[3])
            elif op is sre.BRANCH:
                alts = [x for b in av[1] for x in gen(b)]
            elif op in (sre.MAX_REPEAT, sre.MIN_REPEAT):
                lo, hi, sub = av
                one = gen(sub)
                alts = []
                for n in sorted({lo, min(max(lo, 1), hi), min(lo + 2, hi)}):
                    alts.extend([''] if n == 0 else [x * n for x in one[:3]] + ([one[0] + one[-1]] if n == 2 and len(one) > 1 else []))
            else:
                alts = ['']
            res = [r + a for r in res for a in alts][:64]
        return res
    try:
        return list(dict.fromkeys(gen(sre.parse(pat))))[:limit * 4]
    except Exception:   # noqa: an unsupported construct only loses candidates
        return []


def name_pools() -> typing.Dict[str, typing.Dict[str, typing.List[str]]]:
    """per language: names that are reserved identifiers or match a reserved pattern of ANY identifier type (so that a site
    stropping with the wrong identifier type shows), valid as DSDL name components (pydsdl.check_name)"""
    import yaml
    from pydsdl._serializable._name import check_name
    with open(os.path.join(core.REPO, 'src', 'nunavut', 'lang', 'properties.yaml'), encoding='utf-8') as f:
        doc = yaml.safe_load(f)

    def valid(n: str) -> bool:
        try:
            check_name(n)
            return len(n) <= 40
        except Exception:  # noqa
            return False
    pools = {}
    for lang in LANGS:
        sec = doc.get('nunavut.lang.' + lang, {}) or {}
        by_kind: typing.Dict[str, typing.List[str]] = {}
        words = [w for w in (sec.get('reserved_identifiers') or []) if isinstance(w, str) and valid(w)]
        by_kind['reserved_identifiers'] = words
        if lang == 'py':   # the Python reserved words come from the interpreter (lang/py/__init__.py), not from the YAML
            import builtins
            import keyword
            by_kind['reserved_identifiers'] = [w for w in list(keyword.kwlist) + dir(builtins) if valid(w)]
        for kind, pats in (sec.get('reserved_token_patterns_by_type') or {}).items():
            for pat in pats or []:
                got = []
                for base in _sample_regex(pat):
                    for cand in (base, base + 'x', base + 'X', base + '_t', base + 'opic', base + '9', 'a' + base):
                        if cand and valid(cand) and re.search(pat, cand) and cand not in got:
                            got.append(cand)
                by_kind['pattern:%s:%s' % (kind, pat)] = got
        for kind, pats in (sec.get('token_encoding_rules_by_identifier_type') or {}).items():
            got = []
            for pat in pats or []:
                for cand in ('__x', 'x__', 'a__b', '_9', 'x_'):
                    if valid(cand) and re.search(pat, cand) and cand not in got:
                        got.append(cand)
            by_kind['encoding:' + kind] = got
        pools[lang] = by_kind
    return pools


_POOLS: typing.Optional[dict] = None


def pool_names(lang: str, rng) -> typing.List[str]:
    """a fresh mixture for one case: a few names of every kind (every reserved list / pattern of every identifier type)"""
    global _POOLS
    if _POOLS is None:
        try:
            _POOLS = name_pools()
        except Exception as ex:  # noqa: without the configuration fall back to the fixed lists (recorded in the evidence)
            _POOLS = {'error': repr(ex)}
    out = []
    for kind, names in (_POOLS.get(lang) or {}).items():
        if names:
            out.extend(rng.sample(names, min(len(names), 4 if kind == 'reserved_identifiers' else 1)))
    return out


# ---- case generation ----------------------------------------------------------------------------------------------
def gen_types(rng, n_types: int, max_depth: int, lang: str = 'c', mock: bool = False) -> list:
    extra = pool_names(lang, rng)
    comps = SAFE_COMPONENTS + extra * 2      # configuration-derived names are drawn about as often as the fixed ones
    shorts = SHORT_NAMES + extra
    root = rng.choice(ROOTS + extra[:2])
    # a random namespace tree: set of component lists, with gaps (types only at some levels)
    nss: typing.List[typing.List[str]] = [[root]]
    for _ in range(rng.randrange(1, 7)):
        base = list(rng.choice(nss))
        for _ in range(rng.randrange(1, max_depth)):
            if len(base) > max_depth:
                break
            base = base + [rng.choice(comps)]
        nss.append(base)
        if len(base) > 1 and rng.random() < 0.3:
            # a sibling spelled like the stropped form of the last component (stropping prefix '_' for c/cpp, suffix '_' for py):
            # when that component is reserved the two namespaces fold onto one identifier (the F-NS-FOLD situation)
            twin = base[-1] + '_' if lang == 'py' else '_' + base[-1]
            if not (twin.startswith('_') and twin.endswith('_')):
                nss.append(base[:-1] + [twin])
                if rng.random() < 0.5:
                    nss.append(base[:-1] + [twin, rng.choice(comps)])
    types = []
    used = set()
    tries = 0
    while len(types) < n_types and tries < 200:
        tries += 1
        ns = rng.choice(nss if rng.random() < 0.8 else nss[1:] or nss)
        short = rng.choice(shorts)
        major, minor = rng.choice([(0, 1), (1, 0), (1, 1), (1, 2), (2, 0), (10, 11), (255, 255), (1, 10)])
        if rng.random() < 0.3 and types:  # another version of an existing type
            ns, short = list(types[-1][0]), types[-1][1]
        types.append([list(ns), short, major, minor])
    if mock:
        # type sets pydsdl refuses but build_namespace_tree accepts: a type named like a sub-namespace of its namespace, and the
        # reverse; only exact duplicates are removed
        for ns in list(nss):
            if len(ns) > 1 and rng.random() < 0.6:
                types.append([list(ns[:-1]), ns[-1], 1, 0])
        out, seen = [], set()
        for t in types:
            k = (tuple(t[0]), t[1], t[2], t[3])
            if k not in seen and not any(x.lower() == y.lower() and x != y for x in t[0] for tt in out for y in tt[0]):
                seen.add(k)
                out.append(t)
        return out
    return sanitize(types)


def sanitize(types: list) -> list:
    """drop what pydsdl rejects for reasons unrelated to the property: duplicate definitions, and names of types / namespaces
    that collide case-insensitively (a type with a type, a type with a namespace, two spellings of one namespace)"""
    out, seen = [], set()
    claimed: typing.Dict[tuple, tuple] = {}     # lower-cased full name -> (spelling, kind)
    for ns, short, major, minor in types:
        k = (tuple(ns), short, major, minor)
        if k in seen:
            continue
        want = [(tuple(ns[:i]), 'ns') for i in range(1, len(ns) + 1)] + [(tuple(ns) + (short,), 'type')]
        if all(claimed.get(tuple(x.lower() for x in name), (name, kind)) == (name, kind) for name, kind in want):
            for name, kind in want:
                claimed[tuple(x.lower() for x in name)] = (name, kind)
            seen.add(k)
            out.append([list(ns), short, major, minor])
    return out


CORPUS = [
    # deep chain with every intermediate namespace empty
    dict(types=[[['ns', 'a', 'b', 'c', 'd', 'e9'], 'T', 1, 0]], lang='c'),
    # several versions, type in the root, sibling subtrees sharing ancestors (the `break`)
    dict(types=[[['ns', 'a', 'b', 'c'], 'T', 1, 0], [['ns', 'a', 'b', 'c'], 'T', 1, 1], [['ns', 'a', 'b', 'c'], 'T', 2, 0],
                [['ns'], 'Top', 1, 0], [['ns', 'a', 'x1', 'c'], 'U', 0, 1], [['ns', 'a'], 'V', 1, 0]], lang='c'),
    # names needing stropping in every position
    dict(types=[[['class', 'double', '_Reserved'], 'for', 1, 0], [['class', 'namespace'], 'class', 255, 255],
                [['class', '__x', 'if'], 'while', 1, 10]], lang='cpp'),
    dict(types=[[['delete', 'None', 'lambda'], 'def', 1, 0], [['delete', 'import'], 'pass', 1, 2], [['delete'], 'None', 0, 1]], lang='py'),
    # ancestor created as an empty namespace first, populated by a later type; and the reverse
    dict(types=[[['reg', 'a', 'b'], 'T', 1, 0], [['reg', 'a'], 'U', 1, 0], [['reg'], 'W', 1, 0], [['reg', 'a', 'b', 'c'], 'X', 1, 0]], lang='c'),
    # short names whose rendering contains digits/underscores like a version suffix
    dict(types=[[['ns'], 'X_1', 2, 3], [['ns'], 'X', 1, 2], [['ns'], 'X_1_2', 3, 4], [['ns', 'X_1x'], 'X', 1, 2]], lang='c'),
    # documented exception: two type names folded onto one identifier share a file (not a finding)
    dict(types=[[['ns', 'a'], '__y', 1, 0], [['ns', 'a'], '_y', 1, 0], [['ns'], 'T', 1, 0]], lang='c'),
    # namespace components / type names reserved only for OTHER identifier kinds of the C target (function, typedef, macro, enum
    # patterns): stropping with id type "path" leaves them alone, id type "any" would not
    dict(types=[[['vendor', 'topic'], 'T', 1, 0], [['vendor', 'token', 'memory_x'], 'stream', 1, 0],
                [['vendor', 'EAGAIN', 'atomic_x'], 'INT8_MAX', 1, 0], [['vendor', 'uint8_t'], 'cnd_t', 1, 0]], lang='c'),
    # F-NS-FOLD (fixed by f08a0a1): sibling namespaces folded onto one identifier must both be kept
    dict(types=[[['ns', 'class'], 'Q', 1, 0], [['ns', '_class'], 'R', 1, 0]], lang='c'),
    dict(types=[[['ns', 'm', '__x', 'deep'], 'Q', 1, 0], [['ns', 'm', '_x'], 'R', 1, 0], [['ns', 'm'], 'S', 1, 0]], lang='c'),
]


def gen_cases(rng, count: int, n_cli: int) -> list:
    cases = []
    for i, c in enumerate(CORPUS):
        for j, (outdir, gen) in enumerate([('rel', 'api'), ('abstrail', 'api' if i % 2 else 'cli')]):
            d = dict(c, id='k%d_%d' % (i, j), outdir=outdir, generate=gen, shuffle=i + j, ext=None, stem=None, es=None)
            d['user'] = d['types'][0]
            cases.append(d)
    n = 0
    while len(cases) < count:
        n += 1
        lang = rng.choice(LANGS)
        mock = n % 6 == 0
        types = gen_types(rng, rng.choice([1, 2, 3, 4, 6, 9, 14]), rng.choice([2, 3, 4, 6, 8]), lang, mock)
        if not types:
            continue
        gen = 'api'
        if n_cli > 0 and n % 7 == 0:
            gen = rng.choice(['cli', 'cli-support'])
            n_cli -= 1
        c = dict(id='r%d' % n, types=types, lang=lang, ext=rng.choice(EXTS), stem=rng.choice(STEMS),
                 es=(False if rng.random() < 0.08 else None), outdir=rng.choice(OUTDIRS), shuffle=rng.randrange(1000), generate=gen,
                 user=rng.choice(types) if rng.random() < 0.5 else None)
        if rng.random() < 0.06:     # a namespace-file stem that is some type's Short_M_m (trigger of F-NS-STEM-COLLIDE)
            t0 = rng.choice(types)
            c['stem'] = '%s_%d_%d' % (t0[1], t0[2], t0[3])
        if rng.random() < 0.09:     # stems that are not plain file names (trigger of F-NS-STEM-PATH) and a dotted plain one
            c['stem'] = rng.choice(['sub/x', '../esc', '../../../esc', '@ABS@/x', '@ABS@/deep/y', '.', '..', 'x/', 'a.b', 'v1.2.x']
                                   + ([''] if gen in ('api', 'no') else []))
        if gen == 'cli-support' and rng.random() < 0.7:
            # support_namespace overrides: identifiers, the empty one, and values that are not identifiers (trigger of F-SUPPORT-NS-PATH;
            # absolute ones live under the case directory; NO '..': the value is split at '.', relative escapes degenerate into '/')
            c['sn'] = rng.choice(['my.support', 'a_b', '', 'x1.y2.z3', 'sub/x', '@ABS@/s', '@ABS@/deep/t', 'a-b', '9x', 'dir/'])
        if mock:     # duck-typed types straight into build_namespace_tree (no templates can be rendered for them)
            c.update(mock=True, generate='no', user=None)
            gen = 'no'
        if gen != 'api':
            c['es'] = None   # no command-line switch for it
        elif c['es'] is False:
            c['generate'] = 'no'   # templates are not required to render with stropping disabled; the tree and path map are compared
        cases.append(c)
    return cases


# ---- the property as an executable oracle (independent of nunavut and of the Coq model) -----------------------------
def with_suffix(name: str, ext: str) -> str:
    """PurePath(name).with_suffix(ext) for a plain file name (a last dotted suffix of the name is replaced)"""
    import pathlib
    return pathlib.PurePosixPath(name).with_suffix(ext).name


def sn_valid(sn: str) -> bool:
    """support_namespace: "" or dot separated identifiers (what design_notes/C11_support_namespace_fix.patch accepts)"""
    return sn == '' or all(re.fullmatch(r'[A-Za-z_][A-Za-z0-9_]*', c) for c in sn.split('.'))


def stem_valid(stem: str) -> bool:
    """a plain file name: what the property can sensibly demand of a namespace-file stem (and what
    design_notes/C11_stem_validate_fix.patch accepts)"""
    return stem not in ('', '.', '..') and '/' not in stem and os.sep not in stem


def oracle(order: list, strop: dict, es: bool, ext: str, stem: str, outdir: list) -> dict:
    """what C11 demands for the given types: node set = all non-empty namespace prefixes, links by prefix, every type once,
    path = outdir / strop(ns)... / strop(Short_M_m)+ext"""
    ps = (lambda x: strop.get(x, x)) if es else (lambda x: x)
    nodes = {}
    for ns, short, major, minor in order:
        for i in range(1, len(ns) + 1):
            nodes.setdefault(tuple(ns[:i]), [])
        nodes[tuple(ns)].append((tuple(ns), short, major, minor))
    paths = {}
    for ns, short, major, minor in order:
        paths[(tuple(ns), short, major, minor)] = tuple(outdir + [ps(c) for c in ns] + [with_suffix(ps('%s_%d_%d' % (short, major, minor)), ext)])
    return {
        'root': tuple(order[0][0][:1]),
        'nodes': {k: {'parent': k[:-1] if len(k) > 1 else None,
                      'children': sorted(c for c in nodes if len(c) == len(k) + 1 and c[:-1] == k),
                      'types': v,
                      'path': tuple(outdir + [strop.get(c, c) for c in k] + [with_suffix(stem, ext)])} for k, v in nodes.items()},
        'paths': paths,
    }


def tk(t) -> tuple:
    return (tuple(t[0]), t[1], t[2], t[3])


def fold_kinds(order: list, strop: dict, es: bool) -> typing.Tuple[bool, bool]:
    """(two namespaces folded onto one stropped spelling [trigger of F-NS-FOLD], two types folded onto one file [documented exception])"""
    nodes = {tuple(t[0][:i]) for t in order for i in range(1, len(t[0]) + 1)}
    # same predicate as NamespaceSpec.ns_fold: two different namespaces with the same stropped spelling
    sib = collections.Counter(tuple(strop.get(c, c) for c in k) for k in nodes)
    ns_fold = any(v > 1 for v in sib.values())
    ps = (lambda x: strop.get(x, x)) if es else (lambda x: x)
    files = collections.Counter((tuple(ps(c) for c in t[0]), ps('%s_%d_%d' % (t[1], t[2], t[3]))) for t in order)
    return ns_fold, any(v > 1 for v in files.values())


def rel_to_sandbox(parts, sandbox: str) -> str:
    """a path made of pathlib parts, lexically normalised and relative to the sandbox directory (cwd of the run, parent of the output
    directory): the convention of the harness's file lists (files outside the sandbox start with ../)"""
    parts = list(parts)
    p = os.path.join(*parts) if parts and parts[0] == '/' else os.path.join(sandbox, *parts)
    return os.path.relpath(os.path.normpath(p), sandbox)


def canon_impl(r: dict) -> dict:
    nodes = {}
    for n in r['nodes']:
        nodes[tuple(n['key'])] = {'parent': tuple(n['parent']) if n['parent'] is not None else None,
                                  'children': sorted(tuple(c) for c in n['children']),
                                  'types': [(tk(t), tuple(p)) for t, p in n['types']],
                                  'path': tuple(n['path'])}
    return {
        'root': tuple(r['root']),
        'nodes': nodes,
        'kids': {tuple(n['key']): [tuple(c) for c in n['children']] for n in r['nodes']},     # order of get_nested_namespaces()
        'all_seq': [(x[0], tuple(x[1]) if x[0] == 'N' else tk(x[1]), tuple(x[2])) for x in r['all']],
        'dt_seq': [(tk(t), tuple(p)) for t, p in r['datatypes']],
        'ns_seq': [(tuple(k), tuple(p)) for k, p in r['namespaces']],
        'all': collections.Counter((x[0], tuple(x[1]) if x[0] == 'N' else tk(x[1]), tuple(x[2])) for x in r['all']),
        'datatypes': collections.Counter((tk(t), tuple(p)) for t, p in r['datatypes']),
        'namespaces': collections.Counter((tuple(k), tuple(p)) for k, p in r['namespaces']),
        'find': {(tuple(k), tk(t)): (tuple(p) if p is not None else None) for k, t, p in r['find']},
        'make_path': {tk(t): tuple(p) for t, p in r['make_path']},
    }


def oracle_diff(r: dict, file_fold: bool) -> typing.List[str]:
    """discrepancies between the implementation's observable behaviour and the property"""
    out = []
    if not stem_valid(r['stem']):
        # the property cannot be met with such a stem: the only acceptable outcome is a refusal (handled in judge)
        esc = sorted(f for f in r.get('new_files', []) if not f.startswith('out/'))
        return [STEMPATH_MSG + ' %r was not rejected%s' % (r['stem'], ('; files outside the output directory: %r' % esc) if esc else '')]
    o = oracle(r['order'], r['strop'], r['es'], r['ext'], r['stem'], r['outdir_parts'])
    c = canon_impl(r)
    if r.get('anomalies'):
        out.append('tree anomaly: %s' % r['anomalies'])
    if c['root'] != o['root'] or not r['root_parent_is_none']:
        out.append('root %r, expected %r' % (c['root'], o['root']))
    if set(c['nodes']) != set(o['nodes']):
        out.append('namespace nodes: missing %r, unexpected %r' % (sorted(set(o['nodes']) - set(c['nodes'])), sorted(set(c['nodes']) - set(o['nodes']))))
    for k, n in c['nodes'].items():
        e = o['nodes'].get(k)
        if e is None:
            continue
        if n['parent'] != e['parent'] or n['children'] != e['children']:
            out.append('links of %r: parent %r children %r, expected %r / %r' % (k, n['parent'], n['children'], e['parent'], e['children']))
        if sorted(t for t, _ in n['types']) != sorted(e['types']):
            out.append('types of %r: %r, expected %r' % (k, [t for t, _ in n['types']], e['types']))
        if n['path'] != e['path']:
            out.append('namespace path of %r: %r, expected %r' % (k, n['path'], e['path']))
    for n in r['nodes']:
        if n['children'] != sorted(n['children']):     # get_nested_namespaces(): name order (Python list-of-str comparison)
            out.append('get_nested_namespaces() of %r is not in name order: %r' % (n['key'], n['children']))
    for n in r['nodes']:
        if tuple(n['root_from_here']) != o['root']:
            out.append('get_root_namespace from %r = %r' % (n['key'], n['root_from_here']))
    exp_dt = collections.Counter(o['paths'].items())
    if c['datatypes'] != exp_dt:
        out.append('get_all_datatypes: missing %r, extra %r' % (sorted((exp_dt - c['datatypes']).elements()), sorted((c['datatypes'] - exp_dt).elements())))
    exp_ns = collections.Counter((k, v['path']) for k, v in o['nodes'].items())
    if c['namespaces'] != exp_ns:
        out.append('get_all_namespaces: missing %r, extra %r' % (sorted((exp_ns - c['namespaces']).elements()), sorted((c['namespaces'] - exp_ns).elements())))
    exp_all = collections.Counter([('T', t, p) for t, p in o['paths'].items()] + [('N', k, v['path']) for k, v in o['nodes'].items()])
    if c['all'] != exp_all:
        out.append('get_all_types: missing %r, extra %r' % (sorted((exp_all - c['all']).elements()), sorted((c['all'] - exp_all).elements())))
    for k in o['nodes']:
        for t, p in o['paths'].items():
            if k in c['nodes'] and c['find'].get((k, t)) != p:
                out.append('find_output_path_for_type(%r) from %r = %r, expected %r' % (t, k, c['find'].get((k, t)), p))
                break
    n_out = len(r['outdir_parts'])
    for t, p in o['paths'].items():
        if c['make_path'].get(t) != p[n_out:]:
            out.append('make_path(%r) = %r, expected %r' % (t, c['make_path'].get(t), p[n_out:]))
    # the type file lies in the output folder of its namespace's Namespace object (next to the namespace file)
    if r['es']:
        for k, n in c['nodes'].items():
            for t, tp in n['types']:
                if tuple(tp[:-1]) != tuple(n['path'][:-1]):
                    out.append('type file %r is not in the output folder %r of its namespace %r' % (tp, n['path'][:-1], k))
        mp = c['make_path']
        for t, rel in mp.items():
            node = c['nodes'].get(t[0])
            if node is not None and tuple(r['outdir_parts']) + tuple(rel[:-1]) != tuple(node['path'][:-1]):
                out.append('make_path(%r) = %r leaves the output folder %r of namespace %r' % (t, rel, node['path'][:-1], t[0]))
    # a namespace file must not be a type file (both are written when namespace types are generated)
    if r.get('generate_namespace_types'):
        tfiles = {p: t for t, p in o['paths'].items()}
        for k, v in o['nodes'].items():
            if v['path'] in tfiles:
                out.append(STEM_MSG + ' %r: namespace %r and type %r' % (v['path'], k, tfiles[v['path']]))
    if not file_fold and len(set(o['paths'].values())) != len(o['paths']):
        out.append('oracle: two types share a path without folding')  # cannot happen; guards the oracle itself
    if r.get('after_build_new_files'):
        out.append('build_namespace_tree created files: %r' % r['after_build_new_files'])
    # files on disk
    if 'new_files' in r:
        exp_files = {rel_to_sandbox(p, r['sandbox']) for p in o['paths'].values()}
        if r.get('generate_namespace_types'):
            exp_files |= {rel_to_sandbox(v['path'], r['sandbox']) for v in o['nodes'].values()}
        got = set(r['new_files'])
        outside = sorted(f for f in got if not f.startswith('out/'))
        if outside:
            out.append('files created outside the output directory: %r' % outside)
        if r.get('cli_rc', 0) != 0:
            out.append('nnvg failed: rc=%r %s' % (r.get('cli_rc'), r.get('cli_out', '')[-300:]))
        if r.get('with_support') and not sn_valid(r.get('sn', '')):
            sup = sorted(f for f in got - exp_files)
            out.append(SN_MSG + ' %r was not rejected; support files: %r' % (r['sn'], sup[:4]))
        elif r.get('with_support'):
            # where the property wants the support files: out/<component>/.../<component>/
            want = '/'.join(['out'] + [c for c in r.get('sn', '').split('.') if c]) + '/'
            stray = sorted(f for f in got - exp_files if not (f.startswith(want) and '/' not in f[len(want):]))
            if stray:
                out.append('support files outside %r: %r' % (want, stray[:6]))
        if r.get('with_support'):
            # the complete expected set: type/namespace files + the files of a support-only run with the same options
            if r.get('support_rc', 1) != 0:
                out.append('support-only reference run failed: rc=%r' % r.get('support_rc'))
            exp_files = exp_files | set(r.get('support_files', []))
        if got != exp_files:
            out.append('files on disk: missing %r, unexpected %r' % (sorted(exp_files - got), sorted(got - exp_files)))
        if 'include_filter' in r:
            for t, s in r['include_filter']:
                if s != '/'.join(o['paths'][tk(t)][n_out:]):
                    out.append('type_to_include_path(%r) = %r, expected %r' % (tk(t), s, '/'.join(o['paths'][tk(t)][n_out:])))
    if 'user_includes' in r:
        ref = tk(r['user_ref'])
        p = '/'.join(o['paths'][ref][n_out:])
        if not any(x in ('<%s>' % p, '"%s"' % p) for x in r['user_includes']) and r['lang'] != 'py':
            out.append('include of %r from another root namespace: %r lacks %r' % (ref, r['user_includes'], p))
        if r['lang'] == 'py' and 'user_py_imports' in r:
            # same relative location when merely referenced, Python flavour: the imported package is the directory chain of the
            # type file and the full reference name is its module path + class name (file stem)
            rel = o['paths'][ref][n_out:]
            pkg = '.'.join(rel[:-1])
            stem_ = rel[-1][:-len(r['ext'])] if r['ext'] and rel[-1].endswith(r['ext']) else rel[-1]
            if pkg not in r['user_py_imports']:
                out.append('py filter_imports of a user of %r = %r lacks the package %r of the type file' % (ref, r['user_py_imports'], pkg))
            if r['user_py_full_reference'] != pkg + '.' + stem_:
                out.append('py filter_full_reference_name(%r) = %r, expected %r' % (ref, r['user_py_full_reference'], pkg + '.' + stem_))
            if 'user_file_text_includes' in r and not any(pkg in l for l in r['user_file_text_includes']):
                out.append('generated py user of %r does not import %r: %r' % (ref, pkg, r['user_file_text_includes'][:6]))
        if '/'.join(r['user_dep_make_path']) != p:
            out.append('make_path of referenced %r = %r, expected %r' % (ref, r['user_dep_make_path'], p))
        if 'user_file_text_includes' in r and r['lang'] != 'py':
            if not any(p in l for l in r['user_file_text_includes']):
                out.append('generated user of %r does not include %r: %r' % (ref, p, r['user_file_text_includes']))
    return out


# ---- running the model ---------------------------------------------------------------------------------------------
def enc(s: str) -> str:
    return '.'.join(str(ord(c)) for c in s) if s else 'e'


def dec(s: str) -> str:
    return '' if s == 'e' else ''.join(chr(int(t)) for t in s.split('.'))


def enc_key(k) -> str:
    return ','.join(enc(c) for c in k) if k else '-'


def dec_key(s: str) -> tuple:
    return () if s == '-' else tuple(dec(c) for c in s.split(','))


def enc_ty(t) -> str:
    return '|'.join([enc_key(t[0]), enc(t[1]), str(t[2]), str(t[3])])


def dec_ty(s: str) -> tuple:
    k, sh, ma, mi = s.split('|')
    return (dec_key(k), dec(sh), int(ma), int(mi))


# (perm mode, cperm mode): the linking order varies (identity, reverse, sorted, reverse sorted, as observed on the implementation);
# the children are visited in the model's sort_keys order = Namespace.get_nested_namespaces of the current code (fix 9b93945)
MODES = [(0, 5), (1, 5), (2, 5), (3, 5), (4, 5)]


def model_input(r: dict, mode, prefix_quirk: bool = False) -> str:
    lines = ['CASE %d %s %s %s %d %d %d' % (1 if r['es'] else 0, enc(r['ext']), enc(r['stem']), enc_key(r['outdir_parts']), mode[0], mode[1],
                                          1 if prefix_quirk else 0)]
    for a, b in sorted(r['strop'].items()):
        if a != b:
            lines.append('S %s %s' % (enc(a), enc(b)))
    for t in r['order']:
        lines.append('T ' + enc_ty(t))
    if r.get('sn_overridden'):      # the harness reads Language.support_namespace in every case (as every generator run does)
        lines.append('SN ' + enc(r['sn']))
    for n in r['nodes']:     # namespaces reachable from the root of the implementation's tree: linked before their folded twins
        lines.append('P ' + enc_key(n['key']))
    lines.append('GO')
    return '\n'.join(lines) + '\n'


def parse_model(block: typing.List[str]) -> dict:
    res = {'root': None, 'nodes': {}, 'all': collections.Counter(), 'datatypes': collections.Counter(), 'namespaces': collections.Counter(),
           'find': {}, 'make_path': {}, 'rel': {}, 'err': None, 'all_seq': [], 'dt_seq': [], 'ns_seq': [], 'kids': {}, 'fold': None, 'raised': False, 'sup': None}
    for l in block:
        t = l.split(' ')
        if t[0] == 'RAISE':
            res['raised'] = True
        elif t[0] == 'SUP':
            res['sup'] = dec_key(t[1])
        elif t[0] == 'ROOT':
            res['root'] = dec_key(t[1])
        elif t[0] == 'FOLD':
            res['fold'] = t[1] == '1'
        elif t[0] == 'NODE':
            res['nodes'][dec_key(t[1])] = {'parent': dec_key(t[2]) if t[2] != '-' else None,
                                          'children': sorted(dec_key(c) for c in t[3].split(';')) if t[3] != '-' else [],
                                          'types': [], 'path': dec_key(t[4])}
        elif t[0] == 'KIDS':
            res['kids'][dec_key(t[1])] = [dec_key(c) for c in t[2].split(';')] if t[2] != '-' else []
        elif t[0] == 'NTY':
            res['nodes'][dec_key(t[1])]['types'].append((dec_ty(t[2]), dec_key(t[3])))
        elif t[0] == 'ALL':
            item = (t[1], dec_key(t[2]) if t[1] == 'N' else dec_ty(t[2]), dec_key(t[3]))
            res['all'][item] += 1
            res['all_seq'].append(item)
        elif t[0] == 'DT':
            res['datatypes'][(dec_ty(t[1]), dec_key(t[2]))] += 1
            res['dt_seq'].append((dec_ty(t[1]), dec_key(t[2])))
        elif t[0] == 'NSP':
            res['namespaces'][(dec_key(t[1]), dec_key(t[2]))] += 1
            res['ns_seq'].append((dec_key(t[1]), dec_key(t[2])))
        elif t[0] == 'FIND':
            res['find'][(dec_key(t[1]), dec_ty(t[2]))] = dec_key(t[3]) if t[3] != 'NONE' else None
            if t[3] != 'NONE':
                res['rel'][dec_ty(t[2])] = dec_key(t[4])
        elif t[0] == 'INC':
            res['make_path'][dec_ty(t[1])] = dec_key(t[2])
        elif t[0] == 'ERR':
            res['err'] = l
    return res


def run_model(exe: str, results: typing.List[dict], prefix_quirk: bool = False) -> typing.List[typing.Optional[typing.List[dict]]]:
    text, idx = [], []
    for i, r in enumerate(results):
        if 'err' in r:
            continue
        for m in MODES:
            text.append(model_input(r, m, prefix_quirk))
            idx.append(i)
    p = core.run([exe], input=''.join(text), timeout=900)
    blocks, cur = [], []
    for l in p.stdout.splitlines():
        if l == 'END':
            blocks.append(cur)
            cur = []
        else:
            cur.append(l)
    out: typing.List[typing.Optional[typing.List[dict]]] = [None] * len(results)
    if len(blocks) != len(idx):
        return out
    for i, b in zip(idx, blocks):
        if out[i] is None:
            out[i] = []
        out[i].append(parse_model(b))
    return out


def reachable_view(m: dict) -> dict:
    """the model's heap restricted to what the implementation's dump can see: nodes reachable from the root through children
    (identical to the whole heap whenever the tree theorems apply; differs only under F-NS-FOLD)"""
    seen, todo = {}, [m['root']]
    while todo:
        k = todo.pop()
        if k in seen or k not in m['nodes']:
            continue
        seen[k] = m['nodes'][k]
        todo.extend(m['nodes'][k]['children'])
    return seen


def model_diff(m: dict, c: dict) -> typing.List[str]:
    out = []
    if m['err']:
        return [m['err']]
    if m['root'] != c['root']:
        out.append('root: model %r impl %r' % (m['root'], c['root']))
    mn = reachable_view(m)
    if mn != c['nodes']:
        ks = sorted(set(mn) ^ set(c['nodes'])) or [k for k in mn if mn[k] != c['nodes'][k]]
        out.append('nodes differ at %r' % (ks[:3],))
    # the implementation's find dump only covers reachable nodes
    mf = {k: v for k, v in m['find'].items() if k[0] in c['nodes']}
    for key in ['all', 'datatypes', 'namespaces', 'make_path']:
        if m[key] != c[key]:
            out.append('%s differ' % key)
    if mf != c['find']:
        out.append('find differ')
    # ORDER (fix 9b93945): get_nested_namespaces() and the three recursive enumerations, element by element
    mk = {k: v for k, v in m['kids'].items() if k in c['kids']}
    if mk != c['kids']:
        bad = [k for k in c['kids'] if mk.get(k) != c['kids'][k]]
        out.append('order of get_nested_namespaces() differs at %r: model %r impl %r' % (bad[0], mk.get(bad[0]), c['kids'][bad[0]]))
    for key in ['all_seq', 'dt_seq', 'ns_seq']:
        if not out and m[key] != c[key]:
            out.append('enumeration order differs (%s)' % key)
    return out


# ---- running the implementation -------------------------------------------------------------------------------------
def run_impl(cases: typing.List[dict], workers: int = 0) -> typing.List[dict]:
    workers = workers or min(core.NPROC, 8, max(1, len(cases) // 4))
    work = core.scratch('nnvverif-c11-')
    chunks = [cases[i::workers] for i in range(workers)]

    def one(i_chunk):
        i, chunk = i_chunk
        if not chunk:
            return []
        w = os.path.join(work, 'w%d' % i)
        os.makedirs(w, exist_ok=True)
        p = core.run([core.PY, os.path.join(core.VERIF, 'tools', 'harness', 'c11_impl.py')],
                     input=json.dumps({'work': w, 'cases': chunk}),
                     # a different hash seed per worker: the iteration order of namespace_index / _nested_namespaces (the
                     # `perm` / `cperm` of the theorems) really varies between cases
                     env=core.repo_env({'PYTHONHASHSEED': str(1 + 7 * i)}), timeout=1500, cwd=w)
        try:
            res = json.loads(p.stdout[p.stdout.rindex('{"out"'):])['out']
        except Exception:
            res = [{'id': c['id'], 'err': 'harness failure: ' + p.stdout[-600:]} for c in chunk]
        shutil.rmtree(w, ignore_errors=True)
        return res

    with concurrent.futures.ThreadPoolExecutor(workers) as ex:
        parts = list(ex.map(one, enumerate(chunks)))
    by_id = {r['id']: r for part in parts for r in part}
    out = []
    for c in cases:
        r = by_id.get(c['id'], {'id': c['id'], 'err': 'no result'})
        r['lang'] = c['lang']
        r['with_support'] = c.get('generate') == 'cli-support'
        if c.get('user') is not None:
            r['user_ref'] = c['user']
        out.append(r)
    shutil.rmtree(work, ignore_errors=True)
    return out


STEM_MSG = 'namespace file and type file are one path'
STEMPATH_MSG = 'namespace-file stem that is not a plain file name'
STEMPATH_ID = 'F-NS-STEM-PATH'
SN_MSG = 'support_namespace that is not a list of identifiers'
SN_ID = 'F-SUPPORT-NS-PATH'
KF_SN_LIVE = False      # set by main() after probing the witness
KF_PATH_LIVE = False    # set by main() after probing the witness
STEM_ID = 'F-NS-STEM-COLLIDE'
KF_STEM_LIVE = False     # set by main() after probing the witness


def stem_trigger(r: dict) -> bool:
    """trigger of F-NS-STEM-COLLIDE: the namespace-file stem equals the (stropped) file stem Short_M_m of some type"""
    ps = (lambda x: r['strop'].get(x, x)) if r['es'] else (lambda x: x)
    return any(ps('%s_%d_%d' % (t[1], t[2], t[3])) == r['stem'] for t in r['order'])


def judge(case: dict, r: dict, kf_live: bool, models: typing.Optional[typing.List[dict]]) -> dict:
    """verdict for one case: {'oracle': [...], 'model': [...], 'kf': bool, 'ns_fold':, 'file_fold':}"""
    v = {'oracle': [], 'model': [], 'kf': False, 'ns_fold': False, 'file_fold': False}
    if 'err' in r:
        v['oracle'] = ['implementation raised: %s' % r['err']]
        return v
    ns_fold, file_fold = fold_kinds(r['order'], r['strop'], r['es'])
    v['ns_fold'], v['file_fold'] = ns_fold, file_fold
    if r.get('raised') is not None:
        # build_namespace_tree refused the configuration (stem check).  Right iff a namespace file really is a type file, and
        # nothing was written; the model (instantiated with the regenerated pin_c11tree_stem_check) must refuse it too.
        if stem_valid(r['stem']) and sn_valid(r.get('sn', '')):
            o = oracle(r['order'], r['strop'], r['es'], r['ext'], r['stem'], r['outdir_parts'])
            tfiles = set(o['paths'].values())
            if not any(n['path'] in tfiles for n in o['nodes'].values()):
                v['oracle'] = ['raised although the stem is a plain file name, the support namespace is valid and no namespace file is a type file: %s' % r['raised'][:200]]
        if r.get('after_build_new_files'):
            v['oracle'].append('files written before the error: %r' % r['after_build_new_files'])
        if models is not None and not all(m['raised'] for m in models):
            v['model'] = ['implementation raised (%s) but the model does not' % r['raised'][:120]]
        v['raised'] = True
        return v
    if models is not None and any(m['raised'] for m in models):
        v['model'] = ['the model raises (stem check) but the implementation does not']
        models = None
    od = oracle_diff(r, file_fold)
    c = canon_impl(r)
    if models is not None:
        diffs = [model_diff(m, c) for m in models]
        if any(m['fold'] is not None and m['fold'] != ns_fold for m in models):
            v['model'] = ['fold predicate: Coq ns_fold = %r, checker = %r' % (models[0]['fold'], ns_fold)]
        elif ns_fold and kf_live:
            # pre-fix behaviour is back (only possible while F-NS-FOLD is listed as known): the surviving namespace depends on
            # the iteration order of namespace_index; the model replaying the observed order (last mode) must reproduce it
            if diffs[-1]:
                v['model'] = ['the quirk-faithful model (observed linking order) does not reproduce the implementation: ' + '; '.join(diffs[-1])]
        else:
            # the theorems say the result does not depend on the iteration orders: every order must agree, fold cases included
            bad = [d for d in diffs if d]
            if bad:
                v['model'] = bad[0]
    if od and KF_SN_LIVE and not sn_valid(r.get('sn', '')) and r.get('with_support') and not v['model']:
        # known finding F-SUPPORT-NS-PATH: trigger = the support namespace is not a list of identifiers; the model (pathlib join, no
        # validation) must give the folder every support file was written to
        sn_msgs = [m for m in od if m.startswith(SN_MSG)]
        ok = bool(sn_msgs)
        if models is not None and ok:
            m = models[-1]
            type_ns = {rel_to_sandbox(x[-1], r['sandbox']) for x in (m['all_seq'] if r.get('generate_namespace_types') else [('T',) + y for y in m['dt_seq']])}
            sup_files = set(r.get('new_files', [])) - type_ns
            want = rel_to_sandbox(m['sup'][:-1], r['sandbox']) if m.get('sup') else None
            ok = want is not None and bool(sup_files) and all(os.path.dirname(f) == want for f in sup_files)
            if not ok:
                od = ['support files %r are not in the folder %r of the quirk-faithful model' % (sorted(sup_files)[:4], want)]
        if ok:
            v['kf_sn'] = True
            od = [m_ for m_ in od if not m_.startswith(SN_MSG) and not m_.startswith('files created outside') and not m_.startswith('files on disk')]
    if od and KF_PATH_LIVE and not stem_valid(r['stem']) and models is None:
        v['kf_path'] = True      # shrinking / replay without the model: the trigger alone
        od = []
    if od and KF_PATH_LIVE and not stem_valid(r['stem']) and models is not None and not v['model']:
        # known finding F-NS-STEM-PATH: trigger = stem is not a plain file name; the model (general ns_path, no validation) reproduces
        # the tree and every path; the files on disk must then be exactly the model's paths
        m = models[-1]
        seq = m['all_seq'] if r.get('generate_namespace_types') else [('T',) + x for x in m['dt_seq']]
        exp = {rel_to_sandbox(x[-1], r['sandbox']) for x in seq}
        if r.get('with_support'):
            exp |= set(r.get('support_files', []))
        if 'new_files' in r and set(r['new_files']) != exp:
            od = ['files on disk differ from the quirk-faithful model: missing %r, unexpected %r'
                  % (sorted(exp - set(r['new_files'])), sorted(set(r['new_files']) - exp))]
        else:
            v['kf_path'] = True
            od = []
    if od and KF_STEM_LIVE and stem_trigger(r) and not v['model']:
        # known finding F-NS-STEM-COLLIDE: only the collision itself is suppressed, and only when the trigger holds and the model
        # (which has the behaviour: c11_targets_distinct_refuted) reproduces the implementation
        v['kf_stem'] = any(m.startswith(STEM_MSG) for m in od)
        od = [m for m in od if not m.startswith(STEM_MSG)]
    if od:
        if ns_fold and kf_live and models is not None and not v['model']:
            v['kf'] = True   # trigger satisfied and the quirk-faithful model reproduces the behaviour
        else:
            v['oracle'] = od
    return v


def shrink(case: dict, failing) -> dict:
    cur = dict(case)
    budget = 40
    for simpl in [dict(generate='api'), dict(user=None), dict(ext=None), dict(stem=None), dict(es=None), dict(outdir='rel'), dict(lang='c'), dict(shuffle=0)]:
        cand = dict(cur, **simpl)
        if cand != cur and budget > 0:
            budget -= 1
            if failing(cand):
                cur = cand
    changed = True
    while changed and budget > 0:
        changed = False
        for i in range(len(cur['types'])):
            if len(cur['types']) <= 1:
                break
            cand = dict(cur, types=cur['types'][:i] + cur['types'][i + 1:])
            if cand.get('user') is not None and cand['user'] not in cand['types']:
                cand['user'] = cand['types'][0]
            budget -= 1
            if budget <= 0:
                break
            if failing(cand):
                cur = cand
                changed = True
                break
    return cur


WITNESS_ID = 'F-NS-FOLD'


def load_fragment(chk: core.Check) -> None:
    """entries of known_findings.d/C11.json that the merged known_findings.json does not carry yet"""
    p = os.path.join(core.VERIF, 'known_findings.d', 'C11.json')
    if os.path.exists(p):
        have = {e['id'] for e in chk.known}
        for e in json.load(open(p))['findings']:
            if e['id'] not in have:
                chk.known.append(e)


def main(chk: core.Check, replay: typing.Optional[str] = None) -> int:
    load_fragment(chk)
    quick = chk.tier == 'quick'
    n_cases, n_cli = (150, 16) if quick else (1500, 120)
    if replay:
        doc = json.load(open(replay))
        cases = [doc['case']] if 'case' in doc else gen_cases(chk.rng, n_cases, n_cli)
    else:
        cases = gen_cases(chk.rng, n_cases, n_cli)

    # the witness of EVERY recorded C11 finding, whatever its status, is a case of every run: for a finding marked `fixed` nothing is
    # suppressed, so a behaviour that comes back (a reverted fix) is a VIOLATION with the witness as failing input
    if not (replay and len(cases) == 1):
        for e in chk.known:
            w = e.get('witness', {})
            if 'types' in w and 'lang' in w:
                cases.append(dict(id='w_' + e['id'].replace('-', '_'), types=w['types'], lang=w['lang'], outdir='rel', shuffle=0, ext=None,
                                  stem=w.get('stem'), es=None, user=None, sn=w.get('sn'),
                                  generate='cli-support' if w.get('sn') is not None else 'api'))
        cases.append(dict(id='k_sn_ok', types=[[['ns', 'a'], 'T', 1, 0], [['ns'], 'U', 1, 0]], lang='c', outdir='abs', shuffle=1, ext=None, stem=None,
                          es=None, user=None, sn='my.support_ns', generate='cli-support'))

    # 1. proof obligations
    res = core.coq_check('C11', ['uni', 'strop', 'pin_c11tree', 'pin_c11path', 'pin_c11gen', 'pin_c11support', 'c11_scan'])
    chk.proof_coverage(res, [
        'hand model Gen/Namespace.v of build_namespace_tree, Namespace enumeration/lookup and make_path; valid for the pinned '
        'shape of the modelled functions (tools/translators/gen_c11.py: shape pins c11tree, c11path + AST scan c11_scan, '
        'regenerated on every run) and validated by the correspondence run below',
        'stropping is abstract in the proofs (hypotheses: injective on the names involved / outputs are identifiers; see C09)',
        'pathlib.PurePath parsing of the output directory; POSIX path resolution (safe components stay inside the directory)',
        'extraction: Require Extraction ExtrOcamlBasic only; OCaml 4.13.1; ocaml/c11_driver.ml',
    ])
    broken: typing.List[str] = []
    if not res.ok:
        broken.append('proof obligation: %s %s' % (res.failed_file or 'translator', res.failed_theorem or ''))

    # 2. implementation vs. property oracle (falsifier) and vs. the extracted model
    impl = run_impl(cases)
    ok_model, exe, log = core.build_extracted('c11', 'ExtractC11.v', 'c11_driver.ml')
    if not ok_model:
        broken.append('model does not build/extract: ' + log[-300:])

    # F-NS-FOLD is fixed in /repo (status "fixed": nothing is printed or suppressed, the conformant model eqkey = same is used).
    # Only if it is ever listed as "known" again the witness is probed and the pre-fix instantiation eqkey = strop is used.
    kf_live = False
    if chk.is_known(WITNESS_ID):
        w = chk.known_entry(WITNESS_ID)['witness']
        wc = dict(id='kfprobe', types=w['types'], lang=w['lang'], outdir='rel', generate='api', shuffle=0, ext=None, stem=None, es=None, user=None)
        r = run_impl([wc], workers=1)[0]
        if 'err' not in r:
            got = {tk(t) for t, _ in r['datatypes']}
            kf_live = len(got) < len(w['types'])
        if kf_live:
            chk.report_known(WITNESS_ID)
    global KF_STEM_LIVE
    KF_STEM_LIVE = False
    if chk.is_known(STEM_ID):
        w = chk.known_entry(STEM_ID)['witness']
        wc = dict(id='kfstem', types=w['types'], lang=w['lang'], outdir='rel', generate='api', shuffle=0, ext=None, stem=w['stem'], es=None, user=None)
        r = run_impl([wc], workers=1)[0]
        if 'err' not in r and r.get('raised') is None and r.get('generate_namespace_types'):
            paths = [tuple(x[2]) for x in r['all']]
            KF_STEM_LIVE = len(set(paths)) < len(paths) and len(r.get('new_files', [])) < len(paths)
        if KF_STEM_LIVE:
            chk.report_known(STEM_ID)
    global KF_PATH_LIVE
    KF_PATH_LIVE = False
    if chk.is_known(STEMPATH_ID):
        w = chk.known_entry(STEMPATH_ID)['witness']
        wc = dict(id='kfpath', types=w['types'], lang=w['lang'], outdir='rel', generate='api', shuffle=0, ext=None, stem=w['stem'], es=None, user=None)
        r = run_impl([wc], workers=1)[0]
        KF_PATH_LIVE = 'err' not in r and r.get('raised') is None and any(not f.startswith('out/') for f in r.get('new_files', []))
        if KF_PATH_LIVE:
            chk.report_known(STEMPATH_ID)
    global KF_SN_LIVE
    KF_SN_LIVE = False
    if chk.is_known(SN_ID):
        w = chk.known_entry(SN_ID)['witness']
        wc = dict(id='kfsn', types=w['types'], lang=w['lang'], outdir='rel', generate='cli-support', shuffle=0, ext=None, stem=None, es=None,
                  user=None, sn=w['sn'])
        r = run_impl([wc], workers=1)[0]
        KF_SN_LIVE = 'err' not in r and r.get('raised') is None and any(not f.startswith('out/') for f in r.get('new_files', []))
        if KF_SN_LIVE:
            chk.report_known(SN_ID)
    models = run_model(exe, impl, prefix_quirk=kf_live) if ok_model else [None] * len(cases)

    stats = collections.Counter()
    distinct = set()
    bad_oracle, bad_model = [], []
    for i, c in enumerate(cases):
        r = impl[i]
        v = judge(c, r, kf_live, models[i])
        stats['lang_' + c['lang']] += 1
        stats['outdir_' + c['outdir']] += 1
        stats['generate_' + c['generate']] += 1
        stats['mock_types_with_type_named_like_subnamespace'] += bool(c.get('mock')) and any(tuple(t[0]) + (t[1],) in {tuple(u[0][:j]) for u in c['types'] for j in range(1, len(u[0]) + 1)} for t in c['types'])
        stats['ns_fold_cases'] += v['ns_fold']
        stats['file_fold_cases'] += v['file_fold']
        stats['known_finding_instances'] += v['kf']
        stats['stem_collision_instances'] += bool(v.get('kf_stem'))
        stats['stem_not_plain_file_name_cases'] += ('err' not in r) and not stem_valid(r.get('stem', 'x'))
        stats['stem_path_instances'] += bool(v.get('kf_path'))
        stats['support_namespace_overridden'] += ('err' not in r) and bool(r.get('sn_overridden'))
        stats['support_namespace_not_identifiers'] += ('err' not in r) and not sn_valid(r.get('sn', ''))
        stats['support_ns_path_instances'] += bool(v.get('kf_sn'))
        if 'err' not in r and r.get('raised') is not None:
            stats['refused_by_stem_check'] += 1
            if models[i] is not None:
                stats['model_vs_impl_compared'] += 1
        elif 'err' not in r:
            nodes = {tuple(t[0][:j]) for t in r['order'] for j in range(1, len(t[0]) + 1)}
            empty = nodes - {tuple(t[0]) for t in r['order']}
            stropped = any(a != b for a, b in r['strop'].items())
            multi = len({(tuple(t[0]), t[1]) for t in r['order']}) < len(r['order'])
            stats['with_empty_intermediate_ns'] += bool(empty)
            stats['with_stropped_names'] += stropped
            stats['with_node_of_several_children_order_compared'] += any(len(n['children']) > 1 for n in r['nodes'])
            stats['with_name_where_id_type_any_differs_from_path'] += any(r.get('strop_any', {}).get(a, b) != b for a, b in r['strop'].items())
            stats['with_several_versions'] += multi
            stats['py_import_path_checked'] += 'user_py_imports' in r
            stats['max_depth'] = max(stats['max_depth'], max(len(k) for k in nodes))
            stats['files_checked_on_disk'] += len(r.get('new_files', []))
            stats['lookups_compared'] += len(r['find'])
            if models[i] is not None:
                stats['model_vs_impl_compared'] += 1
            if len(nodes) > 1 and (empty or stropped or multi):
                distinct.add(json.dumps([r['order'], c['lang'], c['ext'], c['stem'], c['outdir'], c['es']], sort_keys=True))
        if v['oracle']:
            bad_oracle.append((i, v['oracle']))
        if v['model']:
            bad_model.append((i, v['model']))

    chk.coverage.update({
        'evaluations': len(cases), 'distinct_nontrivial': len(distinct),
        'rule': 'seeded random DSDL trees (1..14 types, nesting up to 9, gaps in the namespace chain, several versions, component and '
                'type names from fixed lists plus, per case, names sampled from the language configuration of the tree under test: '
                'reserved identifiers and one match of EVERY reserved pattern of EVERY identifier type (properties.yaml; Python '
                'keywords/builtins), validated with pydsdl.check_name) written as .dsdl files, read with pydsdl, shuffled, built '
                'with the real build_namespace_tree for c/cpp/py x extension/stem/stropping overrides x 5 spellings of the output '
                'directory, generated through the API or nnvg; + fixed corpus. non-trivial = distinct (types, configuration) with more '
                'than one namespace and at least one of: empty intermediate namespace, a name changed by stropping, several versions',
        'samples': [{k: cases[i][k] for k in ('types', 'lang', 'ext', 'stem', 'outdir', 'generate')} for i in range(0, min(len(cases), 60), 9)],
        'traces_validated_against_impl': stats['model_vs_impl_compared'],
        'distribution': dict(stats),
    })

    def impl_violates(c: dict) -> bool:
        r = run_impl([dict(c, id='shrink')], workers=1)[0]
        r['lang'] = c['lang']
        return bool(judge(c, r, kf_live, None)['oracle'])

    if replay and len(cases) == 1:
        print('REPLAY case=%s lang=%s types=%r' % (cases[0]['id'], cases[0]['lang'], cases[0]['types']))
        print('  property oracle vs implementation: %s' % ('; '.join(bad_oracle[0][1][:6]) if bad_oracle else 'agree'))
        print('  model vs implementation: %s' % ('; '.join(map(str, bad_model[0][1][:6])) if bad_model else 'agree'))
    if os.environ.get('C11_DEBUG'):
        for i, why in bad_oracle[:40]:
            print('ORACLE', cases[i]['id'], cases[i]['lang'], impl[i].get('tb', ''), why[:3])
        for i, why in bad_model[:40]:
            print('MODEL', cases[i]['id'], cases[i]['lang'], why[:3])
    if bad_oracle:
        i, why = bad_oracle[0]
        small = shrink(cases[i], impl_violates)
        r = run_impl([dict(small, id='final')], workers=1)[0]
        chk.violation({'case': small, 'original_case': cases[i], 'what': 'implementation violates C11',
                       'discrepancies': judge(small, r, kf_live, None)['oracle'][:6] or why[:6],
                       'broken': broken, 'n_failing': len(bad_oracle)}, found_input=True)
    elif bad_model:
        i, why = bad_model[0]
        chk.violation({'case': cases[i], 'correspondence': 'Gen/Namespace.v vs nunavut._namespace / IncludeGenerator.make_path',
                       'differences': why[:6], 'what': 'model and implementation disagree but no input violating the property was found',
                       'n_disagreements': len(bad_model)}, found_input=False)
    elif broken:
        chk.violation({'broken': broken, 'coq_error': res.error_text[-2000:],
                       'what': 'proof obligation or model build no longer checks; searched %d cases on the implementation' % len(cases)},
                      found_input=False)
    return chk.finish()
