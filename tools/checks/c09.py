"""C09: identifier stropping always yields valid, unreserved, deterministic identifiers."""
from __future__ import annotations

import itertools
import json
import os
import re
import typing

from tools.lib import core
from tools.checks import c09_keywords as KW

PROP = 'C09'

MANIFEST = dict(
    technique='Coq proof (regex-matcher continuation lemmas, a verified two-character look-ahead analysis of the regenerated '
              'pattern ASTs, invariants over the stages of TokenEncoder.strop) about a code-shaped Gallina model instantiated with the '
              'T1-regenerated stropping configuration; extracted-model vs. Language.filter_id correspondence',
    text='Theorems in coq/theories/Properties/C09.v, for each of c, cpp, py and for ALL code-point strings and ALL identifier-type '
         'strings: strop returns Ok t => t is [A-Za-z_][A-Za-z0-9_]*, t is not in the reserved list (for py: keyword.kwlist + '
         'dir(builtins) of the interpreter), t matches no reserved pattern of `all` or of the requested type; a valid identifier '
         'that is not reserved and matches no reserved pattern is returned unchanged (c, py; for cpp additionally when it contains '
         'no double underscore -- the unrestricted cpp statement is refuted by the witness `__x`, which the configured encoding '
         'rule ^_{2,} rewrites by design); type `all` raises ValueError; the lru_cache is transparent; for ANY configuration satisfying the computed '
         'side condition chk_sound the soundness statement holds, and it is refuted for an override that reserves a handler-shaped '
         'name (finding F-STROP-HANDLER-UNVERIFIED, fixed); chk_base is spelled out as a decidable predicate (chk_base_spelled_out); '
         'outside it the current code returns invalid tokens for affixes outside the identifier alphabet (strop_illegal_affix_refuted, '
         'known finding F-STROP-ILLEGAL-AFFIX, affix-override sweep in both tiers); in a tree whose strop re-verifies its result (recognised by T1) the '
         'statement holds for every configuration with the validity conditions only (strop_sound_any_config), and '
         'strop_override_state says which case is live now; Python\'s reserved list covers keyword.kwlist+dir(builtins) of the '
         'interpreter; NOT A KEYWORD OF THE LANGUAGE: against committed independent tables (Gen/StropKeywords.v = '
         'tools/checks/c09_keywords.py: ISO C11, ISO C++20 + alternative tokens, Python 3.12 kwlist) every keyword is reserved by the '
         'regenerated configuration, no output is ever a keyword, every keyword comes back as a different token '
         '(language_keywords_are_reserved, strop_never_keyword, keyword_is_stropped); no C/C++ output starts with `__` or `_[A-Z]` '
         '(strop_never_und_reserved, C11 7.1.3). EXCLUDED, stated: (a) clause 3 ("returned unchanged") is claimed for ASCII '
         'identifiers only (strop_id_*_ascii) -- DSDL names are ASCII and the encoder alphabet is ASCII by design, so `é` -> zX00E9; '
         '(b) for cpp "unreserved" includes C++ [lex.name] (no `__` anywhere), so `__x`/`x__` are rewritten correctly; (c) an inner '
         '`__` survives in cpp output (a__b; strop_cpp_no_dunder_refuted): the configuration has no such pattern, outside the '
         'property\'s "under that language\'s configuration"; (d) Python soft keywords are legal identifiers and are not stropped. '
         'The observable Language.filter_id is modelled (translated bodies; filter_id_is_model, filter_id_total_and_sound). TOTALITY: every non-empty string / every DSDL name gets a token for every type but `all` (strop_total_*, '
         'strop_dsdl_identifier, strop_outcomes); CACHE ISOLATION: the lru_cache key is regenerated (self, token, type; self by '
         'identity) and any interleaving of calls on any family of encoder configurations through the shared cache returns each '
         'encoder\'s own uncached result (lru_shared_transparent, two_encoders_isolated) -- also tested with two Language objects '
         'per process in both orders, call-by-call alternation past the cache size. The theorems are generic in '
         'the configuration record and applied to Generated/Gen_Strop.v through boolean side conditions evaluated by vm_compute, so '
         'an edit to properties.yaml, the reserved lists or the failure handlers re-runs the proofs on the new data. Tie: T1 '
         'regenerates the configuration from the TokenEncoder instances of the working tree, TRANSLATES the body of strop into a '
         'step list (pipeline_is_model, strop_is_regenerated_pipeline) and the C/C++ failure handlers into regex ASTs + template '
         '(handlers_translated_are_model), shape-pins the methods the steps call; overrides are emitted as data and run through the '
         'model in both tiers (strop_sound_overrides); the hand model of strop is run (extracted OCaml) against Language.filter_id exhaustively on short strings over a '
         '12-symbol alphabet x id types x 3 languages, on every reserved word with variants and on random longer strings.',
    note='Trusted: Coq kernel; T1 translator (tools/translators/gen_c09.py, regex_tr.py) and the Unicode tables taken from the '
         'running interpreter; extraction (ExtrOcamlBasic only) + ocaml/c09_driver.ml; the hand model Gen/Strop.v of '
         'TokenEncoder.strop/_encode/_strop_by_*/_do_for_type_and_all is validated by correspondence, not verified against Python. '
         '"Valid identifier" is the ASCII notion (non-ASCII Python identifiers are encoded, by design); identifier types are '
         'lower-cased with the ASCII rule in the model (only ASCII types are exercised). The methods called by the translated '
         'strop pipeline are shape-pinned (normalised AST), not translated.',
    design='§5 C09')

LANGS = ['c', 'cpp', 'py']
ALPHABET = ['a', 'Z', '_', '1', ' ', '\t', '-', 'é', '　', '\U0001F600', 'E', 't']
TYPES = ['any', 'path', 'macro', 'typedef', 'function', 'enum']
EXTRA_TYPES = ['ALL', 'all', 'Macro', 'ANY', 'x']
IDENT = re.compile(r'[A-Za-z_][A-Za-z0-9_]*\Z')
HARNESS = os.path.join(core.VERIF, 'tools', 'harness', 'c09_impl.py')


# ---- encoding of strings for the OCaml driver -------------------------------------------------
def enc(s: str) -> str:
    return '.'.join(str(ord(c)) for c in s) if s else 'e'


def dec(s: str) -> str:
    return '' if s == 'e' else ''.join(chr(int(t)) for t in s.split('.'))


# ---- the property as an executable oracle (independent of the Coq model) -------------------------
class Oracle:
    """built from the configuration dump of the working tree; patterns are evaluated with Python's own `re`"""

    def __init__(self, dump: dict, shipped: bool = False):
        self.shipped = shipped
        self.cfg = {}
        for ln, c in dump['langs'].items():
            self.cfg[ln] = {
                'reserved': set(w for w in c['reserved'] if isinstance(w, str)),
                'patterns': {k: [re.compile(p[0]) for p in v] for k, v in c['patterns'].items()},
            }
        # independent of nunavut.lang.py: keywords and builtins of the interpreter that runs nunavut (computed by the harness)
        self.interpreter_reserved = set(dump.get('py_kw_builtins', []))
        if 'py' in self.cfg:
            self.cfg['py']['reserved'] |= self.interpreter_reserved | set(KW.PY_KEYWORDS)
        # independent of properties.yaml: the ISO keyword tables (tools/checks/c09_keywords.py = Gen/StropKeywords.v)
        for ln in ('c', 'cpp'):
            if ln in self.cfg and shipped:     # an override that replaces reserved_identifiers drops them on purpose
                self.cfg[ln]['reserved'] |= set(KW.C11_KEYWORDS) | set(KW.CPP20_KEYWORDS) | set(KW.CPP20_ALTERNATIVE_TOKENS)

    def pattern_hit(self, ln: str, ty: str, t: str) -> bool:
        pm = self.cfg[ln]['patterns']
        return any(p.match(t) for k in ('all', ty.lower()) for p in pm.get(k, []))

    def clean(self, ln: str, ty: str, t: str) -> bool:
        """t is a valid identifier, not reserved, matches no reserved pattern"""
        return bool(IDENT.match(t)) and t not in self.cfg[ln]['reserved'] and not self.pattern_hit(ln, ty, t)

    def judge(self, ln: str, ty: str, s: str, got: str) -> typing.Optional[str]:
        """None when `got` satisfies the property for input s, else what is wrong"""
        if ty.lower() == 'all':
            return None if got == 'err:ValueError' else 'type all must raise ValueError'
        if got.startswith('err:'):
            if s and self.clean(ln, ty, s) and not (ln == 'cpp' and '__' in s):
                return 'valid unreserved identifier was rejected'
            if self.shipped and IDENT.match(s):
                # "stropping always yields ...": under the shipped configuration every identifier-shaped name (what DSDL can
                # contain), reserved or not, has to come back as a token; an exception here is a regression, not a refusal
                return 'identifier-shaped name was rejected under the shipped configuration'
            return None
        t = got[3:]
        if s == '':
            return None
        if not IDENT.match(t):
            return 'returned token is not a valid identifier'
        if t in self.cfg[ln]['reserved']:
            return 'returned token is reserved'
        if self.pattern_hit(ln, ty, t):
            return 'returned token matches a reserved pattern'
        if self.clean(ln, ty, s) and not (ln == 'cpp' and '__' in s) and t != s:
            return 'valid unreserved identifier was changed'
        return None


# ---- running model and implementation ---------------------------------------------------------
def run_impl(cases, twice=False, hashseed='0', overrides=None) -> typing.Tuple[typing.List[str], typing.List[str]]:
    doc = {'cases': cases, 'twice': twice}
    if overrides:
        doc['overrides'] = overrides
    p = core.run([core.PY, HARNESS, 'run'], input=json.dumps(doc), env=core.repo_env({'PYTHONHASHSEED': hashseed}), timeout=1800)
    try:
        d = json.loads(p.stdout[p.stdout.index('{"out"'):])
        return d['out'], d['second']
    except Exception:
        return ['harness failure: ' + p.stdout[-300:]] * len(cases), []


def run_model(exe: str, cases) -> typing.List[typing.Tuple[str, str, str]]:
    inp = '\n'.join('%s %s %s' % (c[0], enc(c[1]), enc(c[2])) for c in cases) + '\n'
    p = core.run([exe], input=inp, timeout=1800)
    out = []
    for l in p.stdout.splitlines():
        r = l.split(' ')
        if len(r) != 3:
            out.append(('<model error: %s>' % l[:60], '?', '-'))
        elif r[0].startswith('ok:'):
            out.append(('ok:' + dec(r[0][3:]), r[1], r[2]))
        elif r[0] == 'err:R':
            out.append(('err:RuntimeError', r[1], r[2]))
        elif r[0] == 'err:V':
            out.append(('err:ValueError', r[1], r[2]))
        else:
            out.append(('<model error: %s>' % l[:60], '?', '-'))
    while len(out) < len(cases):
        out.append(('<model produced no line>', '?', '-'))
    return out


def dump_config() -> typing.Optional[dict]:
    p = core.run([core.PY, HARNESS, 'dump'], env=core.repo_env(), timeout=300)
    try:
        return json.loads(p.stdout[p.stdout.index('{"python"'):])
    except Exception:
        return None


# ---- case generation ----------------------------------------------------------------------------
def variants(w: str, c: dict) -> typing.List[str]:
    pre, suf = c['prefix'] or '', c['suffix'] or ''
    v = [w, pre + w + suf, pre + pre + w + suf + suf, '_' + w, '__' + w, w + '_', w + '__', w.upper(), w.lower(), w.capitalize(),
         '_' + w.capitalize(), '__' + w.capitalize(), w + ' ', ' ' + w, '1' + w, w + '1', w[:-1], w + 'a', w.swapcase()]
    return v


def gen_cases(chk: core.Check, dump: dict) -> typing.Tuple[list, dict]:
    quick = chk.tier == 'quick'
    cases, strata = [], {}

    def add(stratum, ln, ty, s):
        cases.append([ln, ty, s])
        strata[stratum] = strata.get(stratum, 0) + 1

    max_all = 3 if quick else 4
    for n in range(0, max_all + 1):
        for tup in itertools.product(ALPHABET, repeat=n):
            s = ''.join(tup)
            for ln in LANGS:
                for ty in TYPES:
                    add('exhaustive_len_le_%d_all_types' % max_all, ln, ty, s)
    # one more length for the type that unions every pattern
    for tup in itertools.product(ALPHABET, repeat=max_all + 1):
        s = ''.join(tup)
        for ln in LANGS:
            add('exhaustive_len_%d_type_any' % (max_all + 1), ln, 'any', s)
    for ln in LANGS:
        c = dump['langs'][ln]
        words = set(w for w in c['reserved'] if isinstance(w, str))
        if ln == 'py':
            words |= set(dump.get('py_kw_builtins', [])) | set(KW.PY_KEYWORDS) | set(KW.PY_SOFT_KEYWORDS)
        else:                                              # the ISO tables, whatever properties.yaml says
            words |= set(KW.C11_KEYWORDS) | set(KW.CPP20_KEYWORDS) | set(KW.CPP20_ALTERNATIVE_TOKENS)
        words = sorted(words)
        for w in words:                                    # every reserved word verbatim, for every type
            for ty in TYPES:
                add('reserved_words_verbatim', ln, ty, w)
        for w in words:
            for v in variants(w, c):
                for ty in (TYPES if not quick else ['any', 'macro', 'function']):
                    add('reserved_word_variants', ln, ty, v)
        # strings that provoke each reserved pattern of the language
        for key, pats in c['patterns'].items():
            for pat in pats:
                for seedstr in pattern_examples(pat[0]):
                    for ty in TYPES:
                        for s in (seedstr, '_' + seedstr, seedstr.lower(), seedstr + ' x'):
                            add('pattern_examples', ln, ty, s)
        for ty in EXTRA_TYPES:
            for s in ['a', 'if', '_A', '1', ' ', '__', 'int8_t', 'EFOO']:
                add('odd_types', ln, ty, s)
    n_rand = 3000 if quick else 60000
    pool = ALPHABET + ['_', '_', 'A', 'b', '9', 'i', 'f', 'n', 's', 'r', '\n', '\x1c', '\x85', ' ', '٣', 'ß', 'İ', '\x00', '$']
    for _ in range(n_rand):
        n = chk.rng.choice([5, 6, 8, 12, 20, 40])
        s = ''.join(chk.rng.choice(pool) for _ in range(n))
        add('random_longer', chk.rng.choice(LANGS), chk.rng.choice(TYPES), s)
    return cases, strata


def pattern_examples(pat: str) -> typing.List[str]:
    """a few concrete strings that match (prefixes of) a reserved pattern; hand-rolled, tiny"""
    outs = ['']
    i = 0
    body = pat.lstrip('^')
    # expand top-level alternations inside the first group, character classes to their first member
    m = re.match(r'\(([^()]*)\)(.*)', body)
    alts = m.group(1).split('|') if m else ['']
    rest = m.group(2) if m else body
    res = []
    for a in alts[:6]:
        t = a + rest
        t = re.sub(r'\[([^\]\^])[^\]]*\]', r'\1', t)
        t = re.sub(r'\\d', '7', t)
        t = re.sub(r'[?*+^$()]|\{[^}]*\}', '', t)
        t = t.replace('|', '')
        res.append(t)
    return [r for r in res if r] or ['x']


def shrink(case, failing) -> list:
    ln, ty, s = case
    changed = True
    budget = 150
    while changed and budget > 0:
        changed = False
        for i in range(len(s)):
            budget -= 1
            cand = s[:i] + s[i + 1:]
            if cand and failing([ln, ty, cand]):
                s = cand
                changed = True
                break
    return [ln, ty, s]


from tools.translators import gen as _gen  # noqa: F401  (must be imported first: it discovers gen_c09)
from tools.translators.gen_c09 import OVERRIDE_CONFIGS as OVERRIDES, AFFIX_OVERRIDES  # the same list T1 turns into Gen_Strop.cfgs_ov


def main(chk: core.Check, replay: typing.Optional[str] = None) -> int:
    # 1. proof obligations against the regenerated configuration
    res = core.coq_check('C09', ['uni', 'strop', 'pin_strop_methods'])
    chk.proof_coverage(res, [
        'T1 translator tools/translators/gen_c09.py (+ regex_tr.py): TokenEncoder attributes of the working tree -> Gen_Strop.v; '
        'handler recognition by ast; fails closed outside the regex subset / on an unknown handler',
        'T1 tables of Python \\s \\d \\w and str.isspace code points taken from the running interpreter',
        'hand model Gen/Strop.v of TokenEncoder.strop and the C/C++ failure handler, tied by the correspondence run below',
        'extraction: Require Extraction ExtrOcamlBasic only; OCaml 4.13.1; ocaml/c09_driver.ml',
    ])
    broken: typing.List[str] = []
    if not res.ok:
        broken.append('proof obligation: %s %s' % (res.failed_file or 'translator', res.failed_theorem or ''))

    dump = dump_config()
    if dump is None:
        chk.violation({'what': 'the stropping configuration of the working tree cannot be loaded (harness dump failed)',
                       'broken': broken, 'translators': res.translator_msgs}, found_input=False)
        return chk.finish()
    oracle = Oracle(dump, shipped=True)
    # self-tests of the committed independent tables
    try:
        coq_tab = open(os.path.join(core.COQ, 'theories', 'Gen', 'StropKeywords.v'), encoding='utf-8').read()
    except OSError:
        coq_tab = ''
    if coq_tab != KW.coq_text():
        broken.append('coq/theories/Gen/StropKeywords.v is not the table of tools/checks/c09_keywords.py')
    if sorted(dump.get('kwlist', [])) != sorted(KW.PY_KEYWORDS):
        broken.append('keyword.kwlist of the interpreter that runs nunavut (%s) differs from the committed Python %s table: %s'
                      % (dump.get('python'), KW.PYTHON_VERSION, sorted(set(dump.get('kwlist', [])) ^ set(KW.PY_KEYWORDS))))
    missing = sorted(oracle.interpreter_reserved - set(w for w in dump['langs']['py']['reserved'] if isinstance(w, str)))
    if missing:
        broken.append('Python reserved list lacks keywords/builtins of the interpreter: %s' % ', '.join(missing[:12]))

    if replay:
        doc = json.load(open(replay))
        cases, strata = ([doc['case']], {'replay': 1}) if 'case' in doc else gen_cases(chk, dump)
    else:
        cases, strata = gen_cases(chk, dump)

    # 2. implementation (twice in-process: lru_cache) and model
    impl, second = run_impl(cases, twice=True)
    ok_model, exe, log = core.build_extracted('c09', 'ExtractC09.v', 'c09_driver.ml')
    model = run_model(exe, cases) if ok_model else None
    if not ok_model:
        broken.append('model does not build/extract: ' + log[-300:])

    # determinism across processes: a fresh interpreter with another hash seed must give the same answers
    sub_idx = list(range(0, len(cases), max(1, len(cases) // (4000 if chk.tier == 'quick' else 40000))))
    sub = [cases[i] for i in sub_idx]
    other, _ = run_impl(sub, hashseed=str(1 + chk.seed % 1000))

    stats: typing.Dict[str, typing.Any] = {'strata': strata, 'flags': {}, 'by_lang': {}, 'errors': 0, 'ok': 0,
                                           'identity_cases': 0, 'model_vs_impl_compared': 0, 'oracle_vs_impl_compared': 0,
                                           'second_call_compared': len(second), 'cross_process_compared': len(sub)}
    bad_oracle, bad_model, bad_det = [], [], []
    distinct = set()
    for i, c in enumerate(cases):
        got = impl[i]
        why = oracle.judge(c[0], c[1], c[2], got)
        stats['oracle_vs_impl_compared'] += 1
        stats['by_lang'][c[0]] = stats['by_lang'].get(c[0], 0) + 1
        stats['errors' if got.startswith('err:') else 'ok'] += 1
        if got == 'ok:' + c[2] and c[2]:
            stats['identity_cases'] += 1
        if why:
            bad_oracle.append((i, why))
        if second and second[i] != got:
            bad_det.append((i, 'second call in the same process returned %r' % second[i]))
        if model is not None:
            m, fl, orc = model[i]
            stats['model_vs_impl_compared'] += 1
            stats['flags'][fl] = stats['flags'].get(fl, 0) + 1
            if fl != '-':
                distinct.add((c[0], c[1].lower(), c[2]))
            if m != got:
                bad_model.append((i, m, got))
            elif m.startswith('ok:') and c[2] and c[1].lower() != 'all' and not orc.startswith('v1r0p0'):
                bad_model.append((i, 'model result violates the theorem statement: ' + orc, got))
    for j, i in enumerate(sub_idx):
        if other[j] != impl[i]:
            bad_det.append((i, 'another process (PYTHONHASHSEED differs) returned %r' % other[j]))

    # the observable takes any object: an object with a `name` attribute / a non-str must behave as filter_id(str) of its name
    inst_cases, inst_expect = [], []
    for ln in LANGS:
        for w in ['if', 'foo', 'a b', '_A', 'None', '1x', 'é', 'int8_t']:
            inst_cases.append([ln, 'any', {'named': w}])
            inst_expect.append([ln, 'any', w])
        for n in [0, 42, -7]:
            inst_cases.append([ln, 'any', {'int': n}])
            inst_expect.append([ln, 'any', str(n)])
        inst_cases.append([ln, 'any', {'named': 12}])
        inst_expect.append([ln, 'any', '12'])
    ii, _ = run_impl(inst_cases)
    ie, _ = run_impl(inst_expect)
    im = [m[0] for m in run_model(exe, inst_expect)] if model is not None else ie
    stats['instance_kind_cases'] = len(inst_cases)
    for c, a, b, m in zip(inst_cases, ii, ie, im):
        if a != b or a != m:
            bad_model.append((-1, 'filter_id(%r) = %r but filter_id(str of its name) = %r, model %r' % (c, a, b, m), a))

    # several Language objects with different configurations in ONE process (both creation orders, two usage patterns):
    # each object must answer as a process that only ever created that one object
    iso_bad = isolation_runs(stats)

    # known finding: probe its witness on the implementation (every run, both tiers)
    FID = 'F-STROP-HANDLER-UNVERIFIED'
    frag = os.path.join(core.VERIF, 'known_findings.d', 'C09.json')   # entries not merged into known_findings.json yet
    if os.path.exists(frag):
        chk.known.extend(e for e in json.load(open(frag))['findings'] if PROP in e['properties'] and chk.known_entry(e['id']) is None)
    kf_live = False
    if chk.is_known(FID):
        w = chk.known_entry(FID)['witness']
        r, _ = run_impl([[w['lang'], w['id_type'], w['input']]], overrides=w['overrides'])
        kf_live = r[0] == w['got']
        if kf_live:
            chk.report_known(FID)
    stats['known_finding_live'] = kf_live
    stats['strop_reverifies_final_token'] = any('strop_reverifies : bool := true' in l for l in open(
        os.path.join(core.COQ, 'theories', 'Generated', 'Gen_Strop.v'), encoding='utf-8')) if res.translators_ok else None
    stats['py_reserved_missing_from_interpreter_table'] = missing
    stats['known_finding_instances'] = 0

    def handler_shaped(ln: str, t: str) -> bool:
        return ln in ('c', 'cpp') and t.startswith('_') and (len(t) == 1 or not (t[1] == '_' or 'A' <= t[1] <= 'Z'))

    # known finding F-STROP-ILLEGAL-AFFIX: probe, then sweep overrides whose stropping affix is outside the identifier alphabet
    FID2 = 'F-STROP-ILLEGAL-AFFIX'
    kf2_live = False
    if chk.is_known(FID2):
        w = chk.known_entry(FID2)['witness']
        r, _ = run_impl([[w['lang'], w['id_type'], w['input']]], overrides=w['overrides'])
        kf2_live = r[0] == w['got']
        if kf2_live:
            chk.report_known(FID2)
    stats['illegal_affix_finding_live'] = kf2_live
    stats['illegal_affix_instances'] = 0
    n_aff = 0
    if not replay:
        for ak, ov in enumerate(AFFIX_OVERRIDES):
            od = dump_config_overrides(ov)
            if od is None:
                broken.append('affix override %r: configuration dump failed' % (ov,))
                continue
            oo = Oracle(od)
            acases = [[ln, ty, w] for ln in LANGS for ty in ['any', 'path', 'macro']
                      for w in ['if', 'foo', '_A', 'int8_t', 'a b', '1x', 'None', 'EFOO', 'x']]
            ai, _ = run_impl(acases, overrides=ov)
            am = run_model(exe, [['%s@a%d' % (c[0], ak), c[1], c[2]] for c in acases]) if model is not None else None
            if am is not None:      # the model, run with the override configuration as data, must answer like the implementation
                for c, g, m in zip(acases, ai, am):
                    if m[0] != g:
                        bad_model.append((-1, 'affix override %r: %r model %r' % (ov, c, m[0]), g))
            bad_chars = set(ch for v in ov.values() for ch in v if not (ch.isascii() and (ch.isalnum() or ch == '_')))
            for c, g in zip(acases, ai):
                n_aff += 1
                if not g.startswith('ok:'):
                    continue
                t = g[3:]
                why = None if (IDENT.match(t) and t not in oo.cfg[c[0]]['reserved'] and not oo.pattern_hit(c[0], c[1], t)) else \
                    'returned token %r is not a valid unreserved identifier' % t
                if why and kf2_live and bad_chars and any(ch in t for ch in bad_chars):
                    stats['illegal_affix_instances'] += 1      # trigger of the known finding (Coq: strop_illegal_affix_refuted)
                    continue
                if why:
                    bad_oracle.append((-1, 'affix override %r: %r -> %r: %s' % (ov, c, g, why)))
    stats['illegal_affix_cases'] = n_aff

    # configuration overrides, both tiers: implementation vs. the extracted model run with the override configuration as data
    # (Gen_Strop.cfgs_ov, driver `lang@k`) and vs. the property oracle built from the override dump
    ov_stats = {}
    n_ov = 0
    if not replay:
        maxlen = 2 if chk.tier == 'quick' else 3
        for k, ov in enumerate(OVERRIDES):
            od = dump_config_overrides(ov)
            if od is None:
                broken.append('override %d: configuration dump failed' % k)
                continue
            oo = Oracle(od)
            strs = [''.join(t) for n in range(1, maxlen + 1) for t in itertools.product(ALPHABET + ['x', 'q', '9'], repeat=n)]
            strs += ['foo', '_a', 'if', 'a b', '_A', '__x', 'zX0031', 'int8_t', 'True', 'None', 'x' * 9, 'x1', 'qqA', 'QQ', 'a_', 'if_',
                     '_pre_if_post_', '_u0031', 'aWb']
            ocases = []
            for ln in LANGS:
                words = sorted(set(w for w in od['langs'][ln]['reserved'] if isinstance(w, str)))
                for ty in ['any', 'macro']:
                    ocases += [[ln, ty, w] for w in strs]
                ocases += [[ln, 'any', w] for w in words] + [[ln, 'function', '_' + w] for w in words[:60]]
            oi, _ = run_impl(ocases, overrides=ov)
            om = run_model(exe, [['%s@%d' % (c[0], k + 1), c[1], c[2]] for c in ocases]) if model is not None else None
            nbad = nmis = 0
            for j, (c, g) in enumerate(zip(ocases, oi)):
                n_ov += 1
                why = oo.judge(c[0], c[1], c[2], g)
                if why and kf_live and g.startswith('ok:') and handler_shaped(c[0], g[3:]) and (om is None or om[j][0] == g):
                    stats['known_finding_instances'] += 1     # trigger holds and the quirk-faithful model reproduces it
                    why = None
                if why:
                    nbad += 1
                    bad_oracle.append((-1, 'override %d %r: %r -> %r: %s' % (k, ov, c, g, why)))
                if om is not None:
                    if om[j][1] != '-':
                        distinct.add((c[0] + '@%d' % (k + 1), c[1], c[2]))
                    if om[j][0] != g:
                        nmis += 1
                        bad_model.append((-1, 'override %d %r: %r model %r' % (k, ov, c, om[j][0]), g))
            ov_stats[json.dumps(ov, sort_keys=True)] = {'cases': len(ocases), 'oracle_failures': nbad, 'model_disagreements': nmis}
    stats['override_runs'] = ov_stats
    stats['override_cases_model_vs_impl'] = n_ov if model is not None else 0

    chk.coverage.update({
        'evaluations': len(cases) + n_ov, 'distinct_nontrivial': len(distinct),
        'rule': 'all strings up to length %d over the 12-symbol alphabet %r x 6 id types x {c,cpp,py} (one more length for type any), '
                'every reserved word of each language (for py also keyword.kwlist+dir(builtins) of the interpreter) verbatim x all '
                'types and with 19 prefixed/suffixed/cased variants, strings provoking each reserved '
                'pattern, odd id types (ALL, Macro, unknown), seeded random longer strings; plus, for each of the %d configuration '
                'overrides (same list T1 emits as data), all strings up to length %d over a 15-symbol alphabet x {any,macro} and every '
                'reserved word of the overridden configuration, model run with that configuration; non-trivial = distinct (language, '
                'lower-cased type, string) on which the model took a non-default branch (encoding changed the token, keyword or '
                'pattern stropping fired, a failure handler produced the result, or an error was raised), measured by the '
                'driver\'s branch flags' % (3 if chk.tier == 'quick' else 4, ALPHABET, len(OVERRIDES), 2 if chk.tier == 'quick' else 3),
        'exhaustive': False,
        'samples': [cases[i] for i in range(0, len(cases), max(1, len(cases) // 40))][:40],
        'traces_validated_against_impl': stats['model_vs_impl_compared'] + stats['override_cases_model_vs_impl'],
        'distribution': stats,
    })

    def impl_violates(c) -> bool:
        o, _ = run_impl([c])
        return oracle.judge(c[0], c[1], c[2], o[0]) is not None

    real_bad = [b for b in bad_oracle if b[0] >= 0]
    if iso_bad and not real_bad:
        chk.violation(dict(iso_bad[0], n_failing=len(iso_bad), broken=broken), found_input=True)
    elif real_bad:
        i, why = real_bad[0]
        small = shrink(cases[i], impl_violates)
        chk.violation({'case': small, 'original_case': cases[i], 'what': why, 'implementation': run_impl([small])[0][0],
                       'broken': broken, 'n_failing': len(real_bad)}, found_input=True)
    elif bad_oracle:
        chk.violation({'what': bad_oracle[0][1], 'broken': broken, 'n_failing': len(bad_oracle)}, found_input=True)
    elif bad_det:
        i, why = bad_det[0]
        chk.violation({'case': cases[i], 'what': 'non-deterministic result: ' + why, 'implementation': impl[i]}, found_input=True)
    elif bad_model:
        i, m, got = bad_model[0]
        chk.violation({'case': cases[i] if i >= 0 else m, 'model': m, 'implementation': got,
                       'correspondence': 'Gen/Strop.v strop (StropInst.strop_lang) vs Language.filter_id',
                       'what': 'model and implementation disagree but no input violating the property was found',
                       'n_disagreements': len(bad_model), 'broken': broken}, found_input=False)
    elif broken:
        chk.violation({'broken': broken, 'coq_error': res.error_text[-2000:], 'translators': res.translator_msgs,
                       'what': 'proof obligation or model build no longer checks; searched %d cases on the implementation with the '
                               'property oracle, none violates it' % len(cases)}, found_input=False)
    return chk.finish()


ISO_CONFIGS = [None, {'stropping_prefix': '_pre_', 'stropping_suffix': '_post_'}, {'reserved_identifiers': ['foo', 'qz_7']},
               {'encoding_prefix': '_u'}]
ISO_CASES = [['any', 'if'], ['any', 'foo'], ['any', 'qz_7'], ['any', 'a b'], ['any', '1x'], ['any', 'é'], ['macro', 'EFOO'],
             ['any', '_Ab'], ['any', 'None'], ['typedef', 'int8_t']]


def isolation_runs(stats: dict) -> typing.List[dict]:
    from concurrent.futures import ThreadPoolExecutor
    bad = []
    pairs = [(0, 1), (1, 0), (2, 3), (3, 2), (0, 2), (2, 0), (1, 1)]

    def ref_job(ln, ci):
        return (ln, ci), run_impl([[ln, ty, s] for ty, s in ISO_CASES], overrides=ISO_CONFIGS[ci])[0]

    def multi_job(ln, mode, a, b):
        doc = {'objects': [{'lang': ln, 'overrides': ISO_CONFIGS[a]}, {'lang': ln, 'overrides': ISO_CONFIGS[b]}],
               'cases': ISO_CASES, 'mode': mode}
        p = core.run([core.PY, HARNESS, 'multi'], input=json.dumps(doc), env=core.repo_env(), timeout=600)
        try:
            return ln, mode, a, b, doc, json.loads(p.stdout[p.stdout.index('{"multi"'):])
        except Exception:
            return ln, mode, a, b, doc, 'multi-object harness failed: ' + p.stdout[-300:]

    # call-by-call alternation between two configurations with more distinct keys than the shared lru_cache holds
    big = [['any', w] for w in ['if', 'for', 'None', '_A', '__x', 'a b', '1x', 'int8_t']] + [['any', 'w%d' % i] for i in range(700)] \
        + [['macro', 'E%d' % i] for i in range(60)]

    def big_job(ln):
        a, b = 0, 1
        doc = {'objects': [{'lang': ln, 'overrides': ISO_CONFIGS[a]}, {'lang': ln, 'overrides': ISO_CONFIGS[b]}],
               'cases': big, 'mode': 'alternating'}
        p = core.run([core.PY, HARNESS, 'multi'], input=json.dumps(doc), env=core.repo_env(), timeout=600)
        ra = run_impl([[ln, ty, s] for ty, s in big], overrides=ISO_CONFIGS[a])[0]
        rb = run_impl([[ln, ty, s] for ty, s in big], overrides=ISO_CONFIGS[b])[0]
        try:
            return ln, doc, json.loads(p.stdout[p.stdout.index('{"multi"'):]), (ra, rb)
        except Exception:
            return ln, doc, 'multi-object harness failed: ' + p.stdout[-300:], (ra, rb)

    with ThreadPoolExecutor(max_workers=6) as ex:
        bigs = list(ex.map(big_job, LANGS))
        ref = dict(ex.map(lambda t: ref_job(*t), [(ln, ci) for ln in LANGS for ci in range(len(ISO_CONFIGS))]))
        jobs = list(ex.map(lambda t: multi_job(*t), [(ln, mode, a, b) for ln in LANGS for mode in ('create_all_first', 'interleaved')
                                                     for a, b in pairs]))
    n = 0
    for ln, mode, a, b, doc, d in jobs:
        if isinstance(d, str):
            bad.append({'what': d, 'objects': doc['objects']})
            continue
        for which, res in (('first use', d['multi']), ('used again', d['again'])):
            for oi, ci in enumerate((a, b)):
                for k, (ty, s) in enumerate(ISO_CASES):
                    n += 1
                    if res[oi][k] != ref[(ln, ci)][k]:
                        bad.append({'what': 'the result of filter_id depends on another Language object created in the same '
                                            'process: object #%d (%s) of %r answered %r, a process with only that '
                                            'configuration answers %r' % (oi, which, mode, res[oi][k], ref[(ln, ci)][k]),
                                    'case': [ln, ty, s], 'objects': doc['objects'], 'mode': mode, 'object_index': oi,
                                    'implementation': res[oi][k], 'expected': ref[(ln, ci)][k]})
    nbig = 0
    for ln, doc, d, refs in bigs:
        if isinstance(d, str):
            bad.append({'what': d, 'objects': doc['objects']})
            continue
        for which, res in (('alternating pass', d['multi']), ('second pass (entries evicted)', d['again'])):
            for oi in (0, 1):
                for k, (ty, s) in enumerate(big):
                    nbig += 1
                    if res[oi][k] != refs[oi][k]:
                        bad.append({'what': 'the result of filter_id depends on another Language object of the same process: object '
                                            '#%d (%s, call-by-call alternation, %d distinct keys per object) answered %r, a '
                                            'process with only that configuration answers %r' % (oi, which, len(big), res[oi][k], refs[oi][k]),
                                    'case': [ln, ty, s], 'objects': doc['objects'], 'mode': 'alternating', 'object_index': oi,
                                    'implementation': res[oi][k], 'expected': refs[oi][k]})
    stats['alternating_two_config_comparisons'] = nbig
    stats['multi_object_comparisons'] = n
    stats['multi_object_disagreements'] = len(bad)
    return bad


def dump_config_overrides(ov: dict) -> typing.Optional[dict]:
    p = core.run([core.PY, HARNESS, 'dump'], input=json.dumps({'overrides': ov}), env=core.repo_env({'C09_OVERRIDES': json.dumps(ov)}),
                 timeout=300)
    try:
        return json.loads(p.stdout[p.stdout.index('{"python"'):])
    except Exception:
        return None
