"""C12: regeneration over existing output is safe for every history of runs."""
from __future__ import annotations

import concurrent.futures
import hashlib
import json
import os
import shutil
import stat
import time
import typing

from tools.lib import core

PROP = 'C12'

MANIFEST = dict(
    technique='Coq proof (induction over histories of complete and interrupted runs / target lists / directory chains) about an '
              'output-tree state machine whose overwrite gate, SetFileMode, per-file call skeletons, phase order, support decision '
              'and support selection are translated from the Python source on every run; extracted-model vs. real nnvg '
              'correspondence on random histories including killed runs',
    text='Theorems in coq/theories/Properties/C12.v over tree = path -> option (content id, mode, owner, file|directory) with env = '
         'superuser flag, umask, ancestors, child, symbolic links (followed by exists/is_dir/stat/chmod/open), special entries '
         '(devices, FIFOs, sockets). FIX-STATE OBLIGATIONS on the gate translated on this run: gate_refuses_links_live (84a8551) and '
         'gate_refuses_directories_live (7df01dd) are unconditional theorems, fix_state_guards computes that the witness of every '
         'finding recorded as fixed in known_findings.d/C12.json does not reproduce on the model -- a revert breaks the build; the '
         'check additionally turns a reproducing probe of a fixed finding into a VIOLATION and always generates links/directories at '
         'targets. gate_refuses_special_live (5a15038) likewise: devices, FIFOs and sockets at targets are refused; no statement '
         'carries a premise about links or special entries any more (only the "succeeds" theorems need targets_plain). --pp-run-program is modelled (PPExternal f, '
         'translated call, run in the harness) in the footprint/no-overwrite/directory/link statements; success and equals-fresh are '
         'proved without it (no_external). no_overwrite_ok_iff/error_iff hold with NoDup targets discharged from C11 '
         '(targets_distinct_from_c11). MODEL BOUNDARY (not findings): hard links (no inode identity) and symbolic links in the '
         'directory chain of a target. '
         'render_independent_on_targets_from_c10 / regen_equals_fresh_from_c10 instantiate the content premise from C10_file_indep_real, single_run_entry and '
         'one hypothesis ids_agree_with_c10_keys (what the harness fixes); *_on_targets: independence on the targets of the running configuration suffices. Under the NAMED premise render_independent (text depends on (class, path) only: '
         'C10/C07) and env_wf: after ANY history of runs and crashes from ANY start tree a successful non-dry run with a SetFileMode '
         'leaves every target equal to the run into the empty directory (regen_equals_fresh, regen_canonical, '
         'regen_content_canonical; no exclusion: since fix 7df01dd a directory at the path of any file to generate makes the run '
         'fail and is never written into or chmod-ed: directory_at_target_fails, directory_kept). Every entry '
         'that changes is a target or a newly created directory above a target '
         '(written_in_footprint; targets_derived for every --generate-support/--omit value; targets_distinct_from_c11 from C11\'s '
         'derived list); existing foreign entries never change (foreign_untouched, history_foreign, foreign_dirs_only; the '
         'unconditional round-2 form is refuted: foreign_unconditional_refuted). --no-overwrite changes nothing that exists and '
         'never accepts a conflict (no_overwrite_safe(_history), no_overwrite_conflict_fails). Overwriting runs succeed for '
         'unprivileged users after any history of skeleton-compatible configurations (regen_total_history). Crash points: '
         'interrupted_then_rerun_equals_fresh, interrupted_then_rerun_succeeds, interrupted_touches_only_footprint, '
         'no_overwrite_after_crash. same_gate, dry_run_inert, cli_setfilemode_last. Tie: translator + make on every run; '
         'extracted model vs. real `python -m nunavut` on random histories (sha256 + st_mode of files AND directories after every '
         'step), killed runs injected at three points of a file write; property oracle against fresh runs.',
    note='Trusted: Coq kernel; the C12 translator (tools/translators/gen_c12.py; every call in the scanned functions must be classified '
         'file-system relevant or known harmless, anything else fails closed); the POSIX semantics written in Gen/RegenBase.v (validated, not verified; owner/other classes only, search '
         'permission not modelled); extraction + OCaml driver. Premises not proved here: render_independent (C10/C07), compatible '
         '(frozen directory skeleton; paths are opaque), c11_targets_distinct (C11). The sandbox runs as root: plain histories are '
         'tied with superuser=true; superuser=false is proved and tied through a harness-side shim replacing the kernel permission '
         'check inside the real generator process. SupportGenerator._copy_header is reachable only with a non-template support '
         'resource, which no language of this tree ships: the harness offers one through Language.get_support_files. The corner of '
         'the former finding F-COPY-INTO-DIR (fixed) is exercised in every run and must be refused. Not covered: '
         'a crash point inside the file post-processor list, chains of links, links in the directory chain, concurrent runs, third parties changing the tree between runs.',
    design='§5 C12')

DSDL = {
    'ns/A.1.0.dsdl': 'uint8 a\n@sealed\n',
    'ns/sub/B.1.0.dsdl': 'ns.A.1.0 x\nfloat32[<=3] v\n@extent 64*8\n',
    'ns/sub/C.1.1.dsdl': 'uint16 VALUE = 7\nbool flag\n@sealed\n',
}
EXTRA_RESOURCE = 'line one   \n\n\n\nline two\t\n#define EXTRA_HELPER 1\n'
FILE_MODES = [None, None, 0o644, 0o600, 0o400, 0o664, 0o640, 0o444, 0o755, 0o200, 0o0, 0o100644]
PRE_MODES = [0o444, 0o444, 0o400, 0o644, 0o600, 0o0, 0o555, 0o664, 0o440, 0o464, 0o060, 0o422]   # incl. group/other-writable only
FOREIGN_NAMES = ['README.txt', 'ns/notes.md', 'nunavut/support/local.h', 'zz/keep.dat', 'ns/A_1_0.h.bak', 'ns/sub/.hidden']
GEN_BASE = 1000000
EDIT_BASE = 400000000


# ---------------------------------------------------------------------------------------------
# configurations
# ---------------------------------------------------------------------------------------------
def gen_class(rng, shim: bool) -> dict:
    lang = rng.choice(['c', 'c', 'cpp', 'cpp', 'py', 'html'])
    cl = {'lang': lang, 'omit': rng.random() < 0.3, 'gensup': rng.choice([None, None, 'always', 'never', 'only', 'as-needed']),
          'trim': rng.random() < 0.3, 'maxl': rng.choice([None, None, None, 0, 1, 2]), 'ext': None, 'extra': False,
          'runprog': rng.random() < 0.15}
    if cl['gensup'] == 'always':
        cl['omit'] = False      # rejected by the argument parser ("Logic error")
    if lang == 'cpp' and rng.random() < 0.3:
        cl['ext'] = '.h'       # collides with the C target names: a later run overwrites another language's files
    if lang == 'c' and rng.random() < 0.15:
        cl['ext'] = '.hpp'
    if shim and lang in ('c', 'cpp'):
        cl['extra'] = rng.random() < 0.8
    return cl


def class_key(cl: dict) -> str:
    return json.dumps(cl, sort_keys=True)


def class_argv(cl: dict, nsdir: str, outdir: str) -> typing.List[str]:
    a = ['--target-language', cl['lang'], '--outdir', outdir]
    if cl['lang'] in ('cpp', 'html'):
        a.append('--experimental-languages')
    if cl['omit']:
        a.append('--omit-serialization-support')
    if cl['gensup']:
        a += ['--generate-support', cl['gensup']]
    if cl['trim']:
        a.append('--pp-trim-trailing-whitespace')
    if cl['maxl'] is not None:
        a += ['--pp-max-emptylines', str(cl['maxl'])]
    if cl['ext']:
        a += ['--output-extension', cl['ext']]
    if cl.get('runprog'):
        a += ['--pp-run-program', os.path.join(nsdir, '..', 'editor.py')]     # ExternalProgramEditInPlace
    a.append(os.path.join(nsdir, 'ns'))
    return a


def step_argv(st: dict, cl: dict, nsdir: str, outdir: str) -> typing.List[str]:
    a = class_argv(cl, nsdir, outdir)
    if st['file_mode'] is not None:
        a += ['--file-mode', oct(st['file_mode'])]
    if st['no_overwrite']:
        a.append('--no-overwrite')
    if st['dry_run']:
        a.append('--dry-run')
    return a


# ---------------------------------------------------------------------------------------------
# running the implementation
# ---------------------------------------------------------------------------------------------
def run_harness(doc: dict, timeout: int = 120) -> dict:
    p = core.run([core.PY, os.path.join(core.VERIF, 'tools', 'harness', 'c12_impl.py')], input=json.dumps(doc),
                 env=core.repo_env(), timeout=timeout)
    try:
        return json.loads(p.stdout[p.stdout.rindex('C12OUT') + 6:])
    except Exception:
        return {'harness_error': p.stdout[-600:]}


def run_nnvg(argv: typing.List[str], timeout: int = 120) -> typing.Tuple[str, str]:
    p = core.run([core.PY, '-m', 'nunavut'] + argv, env=core.repo_env(), timeout=timeout)
    if p.returncode == 0:
        return 'ok', ''
    if 'allow_overwrite is False' in p.stdout:
        return 'exists', p.stdout[-300:]
    return 'err', p.stdout[-300:]


EXT = '@ext'


def snapshot(outdir: str) -> dict:
    """rel path -> ['f', sha256, mode, text|None] | ['d', None, mode, None] | ['l', destination, 0, None];
    the sibling directory <outdir>/../ext (destinations of symbolic links, outside the output directory) appears under @ext/"""
    snap = {'.': ['d', None, stat.S_IMODE(os.lstat(outdir).st_mode), None]}
    ext = os.path.join(os.path.dirname(outdir), 'ext')
    if os.path.isdir(ext):
        snap[EXT] = ['d', None, stat.S_IMODE(os.lstat(ext).st_mode), None]
        for n in sorted(os.listdir(ext)):
            full = os.path.join(ext, n)
            with open(full, 'rb') as f:
                data = f.read()
            snap[EXT + '/' + n] = ['f', hashlib.sha256(data).hexdigest(), stat.S_IMODE(os.lstat(full).st_mode), None]
    for root, dirs, files in os.walk(outdir):
        for n in files:
            full = os.path.join(root, n)
            st = os.lstat(full)
            if stat.S_ISLNK(st.st_mode):
                snap[os.path.relpath(full, outdir)] = ['l', os.path.basename(os.readlink(full)), 0, None]
                continue
            if not stat.S_ISREG(st.st_mode):      # device, FIFO, socket: never opened by the snapshot
                snap[os.path.relpath(full, outdir)] = ['s', stat.S_IFMT(st.st_mode), stat.S_IMODE(st.st_mode), None]
                continue
            with open(full, 'rb') as f:
                data = f.read()
            rel = os.path.relpath(full, outdir)
            snap[rel] = ['f', hashlib.sha256(data).hexdigest(), stat.S_IMODE(st.st_mode),
                         data.decode('utf-8', 'replace') if n.endswith('.py') else None]
        for n in dirs:
            full = os.path.join(root, n)
            snap[os.path.relpath(full, outdir)] = ['d', None, stat.S_IMODE(os.lstat(full).st_mode), None]
    return snap


def masked(text: str, vol: typing.Optional[typing.List[int]]) -> str:
    lines = text.split('\n')
    if vol:
        vs = set(vol)
        lines = [l for i, l in enumerate(lines) if i not in vs]
    return hashlib.sha256(('%d\n' % len(text.split('\n')) + '\n'.join(lines)).encode()).hexdigest()


class Fresh:
    """reference runs into empty directories: targets, kinds, content per content class"""

    def __init__(self, base: str, nsdir: str, extra_path: str):
        self.base, self.nsdir, self.extra = base, nsdir, extra_path
        self.by_key: typing.Dict[str, dict] = {}
        self.n = 0

    def _one(self, cl: dict, tag: str) -> dict:
        self.n += 1
        out = os.path.join(self.base, 'fresh-%s-%d' % (tag, self.n))
        os.makedirs(out)
        doc = {'argv': class_argv(cl, self.nsdir, out), 'describe': True}
        if cl['extra']:
            doc['extra_support'] = self.extra
        r = run_harness(doc)
        r['snap'] = snapshot(out)
        shutil.rmtree(out, ignore_errors=True)
        return r

    def prepare(self, classes: typing.List[dict]) -> None:
        todo = [c for c in classes if class_key(c) not in self.by_key]
        uniq = {class_key(c): c for c in todo}
        with concurrent.futures.ThreadPoolExecutor(max_workers=6) as ex:
            a = dict(zip(uniq, ex.map(lambda c: self._one(c, 'a'), uniq.values())))
            py = {k: c for k, c in uniq.items() if c['lang'] == 'py'}
            if py:
                time.sleep(1.1)   # the python target embeds a clock reading (C07's finding): find the volatile lines
            b = dict(zip(py, ex.map(lambda c: self._one(c, 'b'), py.values())))
        for k, r in a.items():
            vol = {}
            if k in b and 'snap' in b[k]:
                for rel, e in r.get('snap', {}).items():
                    e2 = b[k]['snap'].get(rel)
                    if e[0] == 'f' and e2 and e[3] is not None and e2[3] is not None and e[1] != e2[1]:
                        l1, l2 = e[3].split('\n'), e2[3].split('\n')
                        vol[rel] = [i for i in range(min(len(l1), len(l2))) if l1[i] != l2[i]] if len(l1) == len(l2) else None
            r['volatile'] = vol
            self.by_key[k] = r

    def get(self, cl: dict) -> dict:
        return self.by_key[class_key(cl)]

    def matches(self, cl: dict, rel: str, entry: list) -> bool:
        """is the file `entry` (snapshot entry) the text a fresh run of cl puts at rel?"""
        r = self.get(cl)
        ref = r['snap'].get(rel)
        if not ref or ref[0] != 'f' or entry[0] != 'f':
            return False
        if ref[1] == entry[1]:
            return True
        vol = r['volatile'].get(rel, [])
        if vol and ref[3] is not None and entry[3] is not None:
            return masked(ref[3], vol) == masked(entry[3], vol)
        return False


# ---------------------------------------------------------------------------------------------
# histories
# ---------------------------------------------------------------------------------------------
def active_targets(d: dict) -> typing.List[str]:
    t = []
    if d['gen_support']:
        t += [p for p, _ in d['support']]
    if d['gen_types']:
        t += d['types']
    return t


def gen_history(rng, mode: str, pool: typing.List[dict], fresh: Fresh, max_len: int, dir_at_copy_ok: bool = False,
                links_ok: bool = False, specials: typing.Sequence[str] = ()) -> dict:
    # the external program runs in a subprocess, outside the permission shim: not in the emulated-unprivileged mode
    ok_pool = [c for c in pool if (mode != 'plain' or not c['extra']) and (mode != 'nonroot' or not c.get('runprog'))]
    with_extra = [c for c in ok_pool if c['extra']]
    classes = [rng.choice(with_extra if (with_extra and rng.random() < 0.6) else ok_pool) for _ in range(rng.choice([1, 2, 2, 3]))]
    all_targets = sorted({t for c in classes for t in active_targets(fresh.get(c)['describe'])}
                         | {t for c in classes for t in fresh.get(c)['describe']['types']})
    pre = []
    used = set()
    for t in rng.sample(all_targets, min(len(all_targets), rng.choice([0, 1, 2, 3, 5]))):
        pre.append({'path': t, 'kind': 'file', 'content': rng.choice(['leftover 0\n', 'leftover 1\n', 'leftover 2\n', '']),   # '' = a truncated leftover
                    'mode': rng.choice(PRE_MODES), 'owned': True})
        used.add(t)
    for n in rng.sample(FOREIGN_NAMES, rng.choice([0, 1, 2, 3])):
        pre.append({'path': n, 'kind': 'file', 'content': 'foreign %d\n' % rng.randrange(3), 'mode': rng.choice(PRE_MODES), 'owned': True})
        used.add(n)
    # a directory at the target of a copied support file was the corner of F-COPY-INTO-DIR (fixed by 7df01dd); it is generated
    # like any other directory at a target
    copy_targets = {p for c in classes for p, k in fresh.get(c)['describe']['support'] if not k}
    if all_targets and rng.random() < 0.10:
        t = rng.choice(all_targets)
        if t not in used and (dir_at_copy_ok or t not in copy_targets) and not any(u.startswith(t + '/') for u in used):
            pre.append({'path': t, 'kind': 'dir', 'mode': rng.choice([0o755, 0o555, 0o500]), 'owned': True})
            used.add(t)
    if links_ok and mode != 'nonroot' and all_targets and rng.random() < 0.2:
        for n, t in enumerate(rng.sample(all_targets, min(len(all_targets), rng.choice([1, 1, 2])))):
            if t not in used and not any(u.startswith(t + '/') for u in used):
                pre.append({'path': t, 'kind': 'link', 'dest': 'victim%d.h' % n, 'live': rng.random() < 0.5,
                            'mode': rng.choice([0o444, 0o644, 0o400]), 'owned': True})
                used.add(t)
    if specials and all_targets and rng.random() < 0.15:
        t = rng.choice(all_targets)
        if t not in used and not any(u.startswith(t + '/') for u in used):
            pre.append({'path': t, 'kind': 'special', 'what': rng.choice(list(specials)), 'mode': rng.choice([0o444, 0o644, 0o600]), 'owned': True})
            used.add(t)
    if rng.random() < 0.08:
        b = rng.choice(['ns/sub', 'nunavut', 'ns'])
        if b not in used and not any(u.startswith(b + '/') for u in used):
            pre.append({'path': b, 'kind': 'file', 'content': 'in the way\n', 'mode': 0o644, 'owned': True})
            used.add(b)
    rodirs = []
    if mode == 'nonroot':
        for e in pre:
            if e['kind'] == 'file' and rng.random() < 0.2:
                e['owned'] = False
        if rng.random() < 0.35:
            rodirs = rng.sample(['ns', 'ns/sub', 'nunavut/support', 'nunavut', '.'], rng.choice([1, 1, 2]))
    steps = []
    for _ in range(rng.randint(1, max_len)):
        steps.append({'cls': rng.randrange(len(classes)), 'file_mode': rng.choice(FILE_MODES),
                      'no_overwrite': rng.random() < 0.25, 'dry_run': rng.random() < 0.07})
    if mode != 'plain':
        for st in steps:
            d = fresh.get(classes[st['cls']])['describe']
            tg = active_targets(d)
            if tg and rng.random() < 0.25:
                idx = rng.randrange(len(tg))
                kinds = dict((p, k) for p, k in d['support'])
                plain_copy = kinds.get(tg[idx], True) is False and not d['line_pps'][0]
                st['crash'] = {'idx': idx, 'path': tg[idx],
                               # (the model has no crash point INSIDE the file post-processor list: with an external
                               #  program before SetFileMode the "before the final chmod" point is not a prefix of actions)
                               'phase': rng.choice(['before_open', 'after_open'] +
                                                   ([] if plain_copy or classes[st['cls']].get('runprog') else ['before_final_chmod']))}
                st['no_overwrite'] = False
                st['dry_run'] = False
    return {'mode': mode, 'classes': classes, 'pre': pre, 'rodirs': rodirs, 'steps': steps}


def populate(outdir: str, h: dict) -> None:
    os.makedirs(outdir, exist_ok=True)
    for e in h['pre']:
        full = os.path.join(outdir, e['path'])
        os.makedirs(os.path.dirname(full), exist_ok=True)
        if e['kind'] == 'dir':
            os.makedirs(full, exist_ok=True)
        elif e['kind'] == 'special':
            if e['what'] == 'fifo':
                os.mkfifo(full)
            else:
                os.mknod(full, 0o600 | stat.S_IFCHR, os.makedev(1, 3))      # /dev/null's numbers
        elif e['kind'] == 'link':
            ext = os.path.join(os.path.dirname(outdir), 'ext')
            os.makedirs(ext, exist_ok=True)
            dest = os.path.join(ext, e['dest'])
            if e['live']:
                with open(dest, 'w') as f:
                    f.write('foreign outside the output directory\n')
                os.chmod(dest, e['mode'])
            os.symlink(os.path.relpath(dest, os.path.dirname(full)), full)
        else:
            with open(full, 'w') as f:
                f.write(e['content'])
    for e in h['pre']:
        if e['kind'] != 'link':
            os.chmod(os.path.join(outdir, e['path']), e['mode'])
    for d in h.get('rodirs', []):
        full = os.path.join(outdir, d)
        if not os.path.lexists(full):
            try:
                os.makedirs(full)
            except OSError:       # a pre-populated regular file sits where the chain would go
                continue
        if os.path.isdir(full):
            os.chmod(full, 0o555)


def run_history_impl(h: dict, workdir: str, nsdir: str, extra: str) -> typing.List[dict]:
    """-> [{'rc': ok|exists|err, 'snap': {...}, 'detail': str}] with element 0 = the start state"""
    outdir = os.path.join(workdir, 'out')
    populate(outdir, h)
    res = [{'rc': 'start', 'snap': snapshot(outdir), 'detail': ''}]
    not_owned = [os.path.join(outdir, e['path']) for e in h['pre'] if not e.get('owned', True)]
    for st in h['steps']:
        cl = h['classes'][st['cls']]
        argv = step_argv(st, cl, nsdir, outdir)
        if h['mode'] == 'plain':
            rc, detail = run_nnvg(argv)
        else:
            doc = {'argv': argv, 'trace': True, 'trace_root': outdir}
            if cl['extra']:
                doc['extra_support'] = extra
            if h['mode'] == 'nonroot':
                doc['nonroot'] = {'root': outdir, 'not_owned': not_owned}
            if st.get('crash'):
                doc['crash'] = {'path': st['crash']['path'], 'phase': st['crash']['phase']}
            r = run_harness(doc)
            if r.get('crashed'):
                rc, detail = 'crash', ''
            elif 'harness_error' in r or 'rc' not in r:
                rc, detail = 'harness', str(r.get('harness_error'))[-300:]
            elif r['rc'] == 0:
                rc, detail = 'ok', ''
            elif r.get('exc') == 'PermissionError' and 'allow_overwrite is False' in r.get('msg', ''):
                rc, detail = 'exists', r.get('msg', '')
            else:
                rc, detail = 'err', '%s: %s' % (r.get('exc'), r.get('msg'))
        res.append({'rc': rc, 'snap': snapshot(outdir), 'detail': detail})
    # make everything removable again
    for root, dirs, files in os.walk(outdir):
        for n in dirs:
            try:
                os.chmod(os.path.join(root, n), 0o755)
            except OSError:
                pass
    shutil.rmtree(workdir, ignore_errors=True)
    return res


# ---------------------------------------------------------------------------------------------
# model side
# ---------------------------------------------------------------------------------------------
def can_create(rel: str, start: dict, nonroot: bool) -> bool:
    parts = rel.split('/')
    nearest_mode = start['.'][2] if '.' in start else 0o755
    for i in range(1, len(parts)):
        anc = '/'.join(parts[:i])
        e = start.get(anc)
        if e is None:
            break
        if e[0] != 'd':
            return False
        nearest_mode = e[2]
    return bool(nearest_mode & 0o200) if nonroot else True


EMPTY_SHA = hashlib.sha256(b'').hexdigest()
EXTRA_NAME = 'extra_helper.h'
CRASH_ACTS = {'before_open': (2, False), 'after_open': (2, True), 'before_final_chmod': (3, False)}


def parents(rel: str) -> typing.List[str]:
    parts = rel.split('/')
    return ['/'.join(parts[:i]) for i in range(1, len(parts))]


def model_line(h: dict, fresh: Fresh, start: dict, umask: int):
    """-> (driver input line, universe list, foreign content table, class keys)"""
    uni: typing.List[str] = []

    def pid(rel: str) -> int:
        if rel not in uni:
            uni.append(rel)
        return uni.index(rel) + 1

    descs = [fresh.get(c)['describe'] for c in h['classes']]
    children = {}
    for d in descs:
        for p, k in d['sersup'] + d['typesup']:
            pid(p)
            if not k:
                children[p] = p + '/' + EXTRA_NAME
        for p in d['types']:
            pid(p)
    for e in h['pre']:
        pid(e['path'])
    for rel, e in start.items():
        if rel != '.':
            pid(rel)
    linkmap = {}
    for e in h['pre']:
        if e['kind'] == 'link':
            linkmap[e['path']] = EXT + '/' + e['dest']
            pid(EXT + '/' + e['dest'])
    for c in children.values():
        pid(c)
    for rel in list(uni):
        for a in parents(rel):
            pid(a)
    foreign: typing.List[str] = [EMPTY_SHA]
    files = []
    specials: typing.List[str] = []
    owned = {e['path']: e.get('owned', True) for e in h['pre']}
    for rel in list(uni):
        e = start.get(rel)
        if e is None or e[0] == 'l':
            continue            # a symbolic link is part of env.links, not an entry
        if e[0] == 's':
            files.append('%d:0:%d:1:0' % (pid(rel), e[2]))      # device/FIFO: mode and owner only; listed in env.special
            specials.append(str(pid(rel)))
            continue
        if e[0] == 'd':
            files.append('%d:0:%d:1:1' % (pid(rel), e[2]))
        else:
            if e[1] not in foreign:
                foreign.append(e[1])
            files.append('%d:%d:%d:%d:0' % (pid(rel), foreign.index(e[1]) + 1, e[2], 1 if owned.get(rel, True) else 0))
    nonroot = h['mode'] == 'nonroot'
    rootw = bool(start['.'][2] & 0o200) if nonroot else True
    anc = ['%d=%s' % (pid(rel), '+'.join(str(pid(a)) for a in parents(rel))) for rel in list(uni) if parents(rel)]
    chl = ['%d=%d' % (pid(p), pid(c)) for p, c in children.items()]
    lnk = ['%d=%d' % (pid(p), pid(d)) for p, d in linkmap.items()]
    keys = sorted({class_key(c) for c in h['classes']})
    evs = []
    for st in h['steps']:
        cl = h['classes'][st['cls']]
        d = fresh.get(cl)['describe']
        fm = 0o444 if st['file_mode'] is None else st['file_mode']
        resmode = d['res_modes'][-1] if d['res_modes'] else 0o644
        cfg = '/'.join([
            str(keys.index(class_key(cl)) + 1), '0' if st['no_overwrite'] else '1', '1' if st['dry_run'] else '0',
            '1' if d['line_pps'][0] else '0',
            '+'.join('x' if t == 'ExternalProgramEditInPlace' else str(fm) for t in d['file_pps'][0]) or '-',
            (d['gensup'] or 'as-needed').replace('-', ''), '1' if d['omit'] else '0',
            '+'.join('%d:%d' % (pid(p), 1 if k else 0) for p, k in d['sersup']) or '-',
            '+'.join('%d:%d' % (pid(p), 1 if k else 0) for p, k in d['typesup']) or '-',
            '+'.join(str(pid(p)) for p in d['types']) or '-', str(resmode)])
        if st.get('crash'):
            j, junk = CRASH_ACTS[st['crash']['phase']]
            evs.append('C:%d:%d:%s/%s' % (st['crash']['idx'], j, '1' if junk else '-', cfg))
        else:
            evs.append('R/' + cfg)
    line = ' '.join(['0' if nonroot else '1', str(umask), '1' if rootw else '0', ','.join(anc) or '-', ','.join(chl) or '-', ','.join(lnk) or '-', ','.join(specials) or '-',
                     ','.join(files) or '-', ','.join(str(i + 1) for i in range(len(uni))) or '-'] + evs)
    return line, uni, foreign, keys


def parse_model(out: str, uni: typing.List[str]):
    steps = []
    for part in out.strip().split('|'):
        toks = part.split()
        state = {}
        for t in toks[1:]:
            k, v = t.split('=')
            state[uni[int(k) - 1]] = None if v == '-' else [int(x) for x in v.split(':')]
        steps.append((toks[0], state))
    return steps


# ---------------------------------------------------------------------------------------------
# comparison and oracle
# ---------------------------------------------------------------------------------------------
def same_entry(a, b) -> bool:
    if a is None or b is None:
        return a is None and b is None
    return a[0] == b[0] and a[1] == b[1] and a[2] == b[2]


def compare_model(h, fresh, impl, msteps, uni, foreign, keys) -> typing.Optional[dict]:
    cls_of_key = {class_key(c): c for c in h['classes']}
    linkdest = {e['path']: EXT + '/' + e['dest'] for e in h['pre'] if e['kind'] == 'link'}
    for i, (mrc, mstate) in enumerate(msteps, 1):
        real = impl[i]
        if mrc != 'crash' and real['rc'] != mrc:
            return {'step': i, 'what': 'result', 'model': mrc, 'impl': real['rc'], 'detail': real['detail']}
        for rel in uni:
            m, e = mstate.get(rel), real['snap'].get(rel)
            if e is not None and e[0] == 'l':
                if m is not None or not same_entry(e, impl[0]['snap'].get(rel)):
                    return {'step': i, 'what': 'symbolic link changed', 'path': rel, 'model': m, 'impl': e[:3]}
                continue
            if e is not None and e[0] == 's':
                if m is None or m[1] != e[2] or m[2] != 0 or e[1] != (impl[0]['snap'].get(rel) or [None, None])[1]:
                    return {'step': i, 'what': 'special entry', 'path': rel, 'model': m, 'impl': e[:3]}
                continue
            if m is None or e is None:
                if not (m is None and e is None):
                    return {'step': i, 'what': 'presence', 'path': rel, 'model': m, 'impl': e and e[:3]}
                continue
            cid, mode, isdir = m
            if isdir != (1 if e[0] == 'd' else 0) or mode != e[2]:
                return {'step': i, 'what': 'mode/kind', 'path': rel, 'model': m, 'impl': e[:3]}
            if isdir:
                continue
            if cid < GEN_BASE:
                okc = foreign[cid - 1] == e[1]
            else:
                edited = cid >= EDIT_BASE
                cid -= EDIT_BASE if edited else 0
                cl = cls_of_key[keys[(cid - GEN_BASE) // 10000 - 1]]
                src = uni[(cid - GEN_BASE) % 10000 - 1]
                # shutil.copy into a directory: the text of target src is at src/<resource name>
                # ... and open() through a symbolic link: the text of target src is at the link's destination
                okc = ((src == rel or rel == src + '/' + EXTRA_NAME or linkdest.get(src) == rel) and fresh.matches(cl, src, e)
                       and edited == bool(cl.get('runprog')))      # the reference run of the class includes the external program
            if not okc:
                return {'step': i, 'what': 'content', 'path': rel, 'model': m, 'impl': e[:3]}
        extra = [rel for rel, e in real['snap'].items() if rel != '.' and rel not in uni]
        if extra:
            return {'step': i, 'what': 'file outside the modelled universe', 'path': extra[0]}
    return None


def copy_dir_trigger(d: dict, prev: dict) -> typing.List[str]:
    """targets written with shutil.copy at which a directory sits (trigger of F-COPY-INTO-DIR)"""
    if d['line_pps'][0] or not d['gen_support']:
        return []
    return [p for p, k in d['support'] if not k and p in prev and prev[p][0] == 'd']


def oracle(h: dict, fresh: Fresh, impl: typing.List[dict], kf_live: bool = False, kf_hits: typing.Optional[list] = None,
           kf_link_live: bool = False, kf_special_live: bool = False) -> typing.Optional[dict]:
    """the property itself, checked on the implementation's snapshots only (no model involved)"""
    start = dict(impl[0]['snap'])
    nonroot = h['mode'] == 'nonroot'
    owned = {e['path']: e.get('owned', True) for e in h['pre']}
    for i, st in enumerate(h['steps'], 1):
        cl = h['classes'][st['cls']]
        d = fresh.get(cl)['describe']
        tg = active_targets(d)
        prev, cur, rc = impl[i - 1]['snap'], impl[i]['snap'], impl[i]['rc']
        fm = (0o444 if st['file_mode'] is None else st['file_mode']) & 0o7777
        trig = copy_dir_trigger(d, prev) if kf_live else []
        ltrig = [t for t in tg if t in prev and prev[t][0] == 'l'] if kf_link_live else []   # F-SYMLINK-TARGET
        ldest = {EXT + '/' + prev[t][1] for t in ltrig}
        ltrig = ltrig + ([t for t in tg if t in prev and prev[t][0] == 's'] if kf_special_live else [])   # F-NONREGULAR-TARGET
        if (trig or ltrig) and kf_hits is not None:
            kf_hits.append((i, (trig + ltrig)[0]))
        for rel in set(prev) | set(cur):
            if rel in tg or (cur.get(rel) or prev.get(rel))[0] == 'd':
                continue
            if any(rel == t + '/' + EXTRA_NAME for t in trig) or rel in ldest:
                continue    # known finding: the copy landed inside the directory / the write went through the link
            if not same_entry(prev.get(rel), cur.get(rel)):
                return {'step': i, 'law': 'foreign_untouched', 'path': rel, 'before': prev.get(rel) and prev[rel][:3], 'after': cur.get(rel) and cur[rel][:3]}
        if st.get('crash'):
            continue        # an interrupted run promises nothing but the footprint; the next complete run is checked as usual
        if st['dry_run']:
            if rc != 'ok' or any(not same_entry(prev.get(r), cur.get(r)) for r in set(prev) | set(cur)):
                return {'step': i, 'law': 'dry_run_changes_nothing', 'rc': rc}
            continue
        if rc == 'ok':
            for rel in tg:
                if rel in trig or rel in ltrig:
                    continue
                e = cur.get(rel)
                if e is None or e[0] != 'f' or not fresh.matches(cl, rel, e):
                    return {'step': i, 'law': 'regen_canonical(content)', 'path': rel, 'after': e and e[:3]}
                if e[2] != fm:
                    return {'step': i, 'law': 'regen_canonical(mode)', 'path': rel, 'requested': fm, 'after': e[2]}
        if st['no_overwrite']:
            for rel, e in prev.items():
                if e[0] == 'f' and rel not in ldest and not same_entry(e, cur.get(rel)):
                    return {'step': i, 'law': 'no_overwrite_safe', 'path': rel, 'before': e[:3], 'after': cur.get(rel) and cur[rel][:3]}
            existed = [t for t in tg if t in prev]
            if existed and rc == 'ok' and not all(t in ltrig for t in existed):
                return {'step': i, 'law': 'no_overwrite_error_iff (conflict not reported)', 'path': existed[0]}
            if not existed and rc == 'exists' and len(set(tg)) == len(tg):
                return {'step': i, 'law': 'no_overwrite_error_iff (error without conflict)'}
        else:
            # regen_total: overwriting owned regular files (read-only or not) and creating where creation is possible must succeed
            st0 = prev
            feasible = all(((prev[t][0] == 'f' and (owned.get(t, True) or not nonroot)) if t in prev else can_create(t, st0, nonroot)) for t in tg)
            if feasible and rc != 'ok':
                return {'step': i, 'law': 'regen_total (run over existing, possibly read-only, output failed)', 'rc': rc, 'detail': impl[i]['detail']}
    return None


# ---------------------------------------------------------------------------------------------
def shrink_history(h: dict, failing, budget: int = 14) -> dict:
    cur = h
    changed = True
    while changed and budget > 0:
        changed = False
        cands = []
        for i in range(len(cur['steps'])):
            if len(cur['steps']) > 1:
                cands.append(dict(cur, steps=cur['steps'][:i] + cur['steps'][i + 1:]))
        for i in range(len(cur['pre'])):
            cands.append(dict(cur, pre=cur['pre'][:i] + cur['pre'][i + 1:]))
        if cur.get('rodirs'):
            cands.append(dict(cur, rodirs=[]))
        for c in cands:
            budget -= 1
            if budget <= 0:
                break
            if failing(c):
                cur, changed = c, True
                break
    return cur


def main(chk: core.Check, replay: typing.Optional[str] = None) -> int:
    quick = chk.tier == 'quick'
    rng = chk.rng
    base = core.scratch('c12-')
    nsdir = os.path.join(base, 'dsdl')
    for rel, text in DSDL.items():
        os.makedirs(os.path.dirname(os.path.join(nsdir, rel)), exist_ok=True)
        with open(os.path.join(nsdir, rel), 'w') as f:
            f.write(text)
    with open(os.path.join(base, 'editor.py'), 'w') as f:      # a trivial in-place editor for --pp-run-program
        f.write("import sys\nwith open(sys.argv[-1], 'a') as f:\n    f.write('\\n// edited in place by the external program\\n')\n")
    extra = os.path.join(base, 'extra_helper.h')
    with open(extra, 'w') as f:
        f.write(EXTRA_RESOURCE)
    os.chmod(extra, 0o640)
    umask = os.umask(0o022)
    os.umask(umask)
    is_root = os.geteuid() == 0

    # 1. proof obligations against the regenerated translation
    res = core.coq_check('C12', ['regen'])
    chk.proof_coverage(res, [
        'C12 translator tools/translators/gen_c12.py (Python ast -> Gallina) for _handle_overwrite, SetFileMode.__call__, the call '
        'skeletons of the per-file writers, the phase order of ArgparseRunner._generate and the CLI post-processor list',
        'hand-written POSIX semantics of exists/stat/chmod/open("w")/shutil.copy in Gen/RegenBase.v and the skeleton interpreter in '
        'Gen/Regen.v, tied by the correspondence run below',
        'rendering is a function of (configuration, path): assumption of the model (C07/C10 own it); volatile clock-dependent lines of '
        'the python target are masked when contents are compared',
        'extraction: Require Extraction ExtrOcamlBasic only; OCaml 4.13.1; ocaml/c12_driver.ml',
        'non-superuser semantics: the sandbox runs as root, so the kernel check is emulated inside the generator process by '
        'tools/harness/c12_impl.py (open/mkdir/chmod shim); real unprivileged runs are not possible here',
    ])
    broken: typing.List[str] = []
    if not res.ok:
        broken.append('proof obligation: %s %s' % (res.failed_file or 'translator', res.failed_theorem or ''))
    ok_model, exe, log = core.build_extracted('c12', 'ExtractC12.v', 'c12_driver.ml')
    if not ok_model:
        broken.append('model does not build/extract: ' + log[-300:])

    # probe of the (candidate) finding F-COPY-INTO-DIR: a directory at the target of a copied support file
    probe_out = os.path.join(base, 'probe')
    os.makedirs(os.path.join(probe_out, 'nunavut', 'support', 'extra_helper.hpp'))
    pr = run_harness({'argv': ['--target-language', 'cpp', '--experimental-languages', '--outdir', probe_out, os.path.join(nsdir, 'ns')],
                      'extra_support': extra})
    copy_into_dir_reproduces = pr.get('rc') == 0 and os.path.isfile(os.path.join(probe_out, 'nunavut', 'support', 'extra_helper.hpp', EXTRA_NAME))
    for root, dirs, _ in os.walk(probe_out):
        for n in dirs:
            os.chmod(os.path.join(root, n), 0o755)
    shutil.rmtree(probe_out, ignore_errors=True)
    def probe_verdict(fid: str, reproduces: bool, witness: dict) -> bool:
        """-> the finding is listed as known and live.  A witness that reproduces although the finding is recorded as FIXED is a
        violation with the witness as failing input -- never a reason to skip a stratum.  (A candidate that is not in
        known_findings.json at all is neither: its stratum waits until the lead lists or lands it.)"""
        ent = chk.known_entry(fid)
        if not reproduces:
            return False
        if ent is not None and ent.get('status') == 'known':
            chk.report_known(fid)
            return True
        if ent is not None and ent.get('status') == 'fixed':
            chk.violation(dict(witness, finding=fid, what='the witness of a finding recorded as fixed reproduces on /repo (the fix was reverted?)'),
                          found_input=True)
        return False

    kf_live = probe_verdict('F-COPY-INTO-DIR', copy_into_dir_reproduces,
                            {'pre': 'mkdir -p out/nunavut/support/extra_helper.hpp',
                             'argv': '--target-language cpp --experimental-languages --outdir out ns (+ plain support resource extra_helper.h)',
                             'got': 'exit 0, file written inside the directory'})
    kf_hits: typing.List[tuple] = []

    # probe of F-SYMLINK-TARGET: a dangling symbolic link at a target under --no-overwrite
    probe2 = os.path.join(base, 'probe2')
    os.makedirs(os.path.join(probe2, 'out', 'ns'))
    os.makedirs(os.path.join(probe2, 'ext'))
    os.symlink(os.path.join('..', '..', 'ext', 'victim.h'), os.path.join(probe2, 'out', 'ns', 'A_1_0.h'))
    prc, _ = run_nnvg(['--target-language', 'c', '--no-overwrite', '--generate-support', 'never', '--outdir', os.path.join(probe2, 'out'),
                       os.path.join(nsdir, 'ns')])
    symlink_followed = os.path.exists(os.path.join(probe2, 'ext', 'victim.h'))
    shutil.rmtree(probe2, ignore_errors=True)
    kf_link_live = probe_verdict('F-SYMLINK-TARGET', symlink_followed,
                                 {'pre': 'mkdir -p out/ns ext; ln -s ../../ext/victim.h out/ns/A_1_0.h',
                                  'argv': '--target-language c --no-overwrite --generate-support never --outdir out ns',
                                  'got': 'exit 0, no conflict reported, ext/victim.h created'})
    links_ok = True      # symbolic links at targets are always generated: the gate must refuse them (or the finding is live)

    # probe of F-NONREGULAR-TARGET: a character device at a target (a FIFO would hang an unfixed generator)
    special_followed = False
    probe3 = os.path.join(base, 'probe3')
    try:
        os.makedirs(os.path.join(probe3, 'out', 'ns'))
        os.mknod(os.path.join(probe3, 'out', 'ns', 'A_1_0.h'), 0o600 | stat.S_IFCHR, os.makedev(1, 3))
        prc3, _ = run_nnvg(['--target-language', 'c', '--generate-support', 'never', '--outdir', os.path.join(probe3, 'out'),
                            os.path.join(nsdir, 'ns')], timeout=60)
        special_followed = prc3 == 'ok'
        can_mknod = True
    except OSError:
        can_mknod = False
    shutil.rmtree(probe3, ignore_errors=True)
    kf_special_live = probe_verdict('F-NONREGULAR-TARGET', special_followed,
                                    {'pre': 'mkdir -p out/ns; mknod out/ns/A_1_0.h c 1 3',
                                     'argv': '--target-language c --generate-support never --outdir out ns',
                                     'got': 'exit 0, the target is still a character device (no generated text)'})
    # devices at targets are generated when the gate refuses them or the finding is live; FIFOs only when refused (else nnvg hangs)
    specials = (['chr'] if can_mknod and ((not special_followed) or kf_special_live) else []) + (['fifo'] if not special_followed else [])

    # 2. histories
    fresh = Fresh(base, nsdir, extra)
    if replay:
        doc = json.load(open(replay))
        hs = [doc['history']] if 'history' in doc else []
        pool = [c for h in hs for c in h['classes']]
        fresh.prepare(pool)
    else:
        n_pool = 10 if quick else 40
        pool = [gen_class(rng, shim=(i % 2 == 1)) for i in range(n_pool)]
        # always present: the two _copy_header paths (shutil.copy when there is no line post-processor: cpp; line-wise copy: c)
        pool[0] = dict(gen_class(rng, shim=False), runprog=True)      # --pp-run-program is always exercised
        pool[1] = {'lang': 'cpp', 'omit': False, 'gensup': None, 'trim': False, 'maxl': None, 'ext': None, 'extra': True}
        pool[3] = {'lang': 'c', 'omit': False, 'gensup': rng.choice([None, 'always']), 'trim': False, 'maxl': None, 'ext': None, 'extra': True}
        pool[5] = {'lang': 'cpp', 'omit': rng.random() < 0.5, 'gensup': 'only', 'trim': False, 'maxl': None, 'ext': '.h', 'extra': True}
        fresh.prepare(pool)
        bad_fresh = [c for c in pool if 'describe' not in fresh.get(c) or fresh.get(c).get('rc') != 0]
        pool = [c for c in pool if c not in bad_fresh]
        n_hist = 42 if quick else 260
        max_len = 6 if quick else 25
        hs = []
        for i in range(n_hist):
            mode = ['plain', 'plain', 'plain', 'shim', 'nonroot', 'nonroot'][i % 6]
            ml = max_len if (quick or i % 4 == 0) else 8
            hs.append(gen_history(rng, mode, pool, fresh, ml, dir_at_copy_ok=True, links_ok=links_ok, specials=specials))
        if links_ok:  # symbolic links at targets (F-SYMLINK-TARGET): dangling + --no-overwrite, live + overwrite; always exercised
            plain_c = {'lang': 'c', 'omit': False, 'gensup': 'never', 'trim': False, 'maxl': None, 'ext': None, 'extra': False, 'runprog': False}
            fresh.prepare([plain_c])
            for mode, live, noov in (('plain', False, True), ('plain', True, False), ('shim', True, True)):
                hs.append({'mode': mode, 'classes': [plain_c], 'rodirs': [],
                           'pre': [{'path': 'ns/A_1_0.h', 'kind': 'link', 'dest': 'victim0.h', 'live': live, 'mode': 0o444, 'owned': True}],
                           'steps': [{'cls': 0, 'file_mode': None, 'no_overwrite': noov, 'dry_run': False},
                                     {'cls': 0, 'file_mode': 0o644, 'no_overwrite': not noov, 'dry_run': False}]})
        # a zero-length leftover (what an aborted run leaves) at a type target and at a support target under --no-overwrite
        plain_c3 = {'lang': 'c', 'omit': False, 'gensup': 'always', 'trim': False, 'maxl': None, 'ext': None, 'extra': False, 'runprog': False}
        fresh.prepare([plain_c3])
        hs.append({'mode': 'plain', 'classes': [plain_c3], 'rodirs': [],
                   'pre': [{'path': 'ns/A_1_0.h', 'kind': 'file', 'content': '', 'mode': 0o644, 'owned': True}],
                   'steps': [{'cls': 0, 'file_mode': None, 'no_overwrite': True, 'dry_run': False},
                             {'cls': 0, 'file_mode': 0o600, 'no_overwrite': False, 'dry_run': False}]})
        # leftovers that are group/other-writable but not owner-writable, overwritten by an (emulated) unprivileged owner
        hs.append({'mode': 'nonroot', 'classes': [plain_c3], 'rodirs': [],
                   'pre': [{'path': 'ns/A_1_0.h', 'kind': 'file', 'content': 'leftover 0\n', 'mode': 0o060, 'owned': True},
                           {'path': 'nunavut/support/serialization.h', 'kind': 'file', 'content': 'leftover 1\n', 'mode': 0o422, 'owned': True}],
                   'steps': [{'cls': 0, 'file_mode': None, 'no_overwrite': False, 'dry_run': False}]})
        for what in specials:   # devices / FIFOs at targets, always exercised when generated
            plain_c2 = {'lang': 'c', 'omit': False, 'gensup': 'never', 'trim': False, 'maxl': None, 'ext': None, 'extra': False, 'runprog': False}
            fresh.prepare([plain_c2])
            hs.append({'mode': 'plain', 'classes': [plain_c2], 'rodirs': [],
                       'pre': [{'path': 'ns/A_1_0.h', 'kind': 'special', 'what': what, 'mode': 0o444, 'owned': True}],
                       'steps': [{'cls': 0, 'file_mode': None, 'no_overwrite': False, 'dry_run': False},
                                 {'cls': 0, 'file_mode': 0o644, 'no_overwrite': True, 'dry_run': False}]})
        if True:      # the corner of the former finding F-COPY-INTO-DIR (fixed by 7df01dd): must now be refused, always exercised
            for mode in ('shim', 'nonroot'):
                hs.append({'mode': mode, 'classes': [pool[1]], 'rodirs': [],
                           'pre': [{'path': 'nunavut/support/extra_helper.hpp', 'kind': 'dir', 'mode': 0o755, 'owned': True}],
                           'steps': [{'cls': 0, 'file_mode': None, 'no_overwrite': False, 'dry_run': False},
                                     {'cls': 0, 'file_mode': 0o644, 'no_overwrite': True, 'dry_run': False},
                                     {'cls': 0, 'file_mode': 0o600, 'no_overwrite': False, 'dry_run': False}]})
        if bad_fresh and (not pool or any('SystemExit: 2' not in str(fresh.get(c).get('harness_error')) for c in bad_fresh)):
            broken.append('reference run into an empty directory failed: %s %s' % (class_key(bad_fresh[0]), str(fresh.get(bad_fresh[0]))[:300]))

    def run_impl(idx_h):
        idx, h = idx_h
        return run_history_impl(h, os.path.join(base, 'h%d-%d' % (idx, time.time_ns() % 100000)), nsdir, extra)

    with concurrent.futures.ThreadPoolExecutor(max_workers=6) as ex:
        impls = list(ex.map(run_impl, enumerate(hs)))

    stats = {'histories': len(hs), 'steps': 0, 'plain_nnvg_steps': 0, 'shim_root_steps': 0, 'nonroot_emulated_steps': 0,
             'no_overwrite_steps': 0, 'no_overwrite_conflicts': 0, 'dry_run_steps': 0, 'failed_runs_other': 0,
             'overwrites_of_readonly_files': 0, 'overwrites_of_existing_files': 0, 'copy_header_writes': 0,
             'shutil_copy_writes': 0, 'interrupted_runs': 0, 'links_at_targets': 0, 'specials_at_targets': 0, 'run_program_steps': 0, 'dir_at_target': 0, 'blocked_parent': 0, 'readonly_dirs': 0, 'not_owned_files': 0,
             'langs': {}, 'max_history_len': 0, 'content_classes': len(fresh.by_key)}
    distinct = set()
    model_bad, oracle_bad = [], []
    lines, metas = [], []
    for h, impl in zip(hs, impls):
        line, uni, foreign, keys = model_line(h, fresh, impl[0]['snap'], umask)
        lines.append(line)
        metas.append((uni, foreign, keys))
    mouts: typing.List[str] = []
    if ok_model and lines:
        p = core.run([exe], input='\n'.join(lines) + '\n', timeout=600)
        mouts = p.stdout.splitlines()
    validated = 0
    for k, (h, impl) in enumerate(zip(hs, impls)):
        stats['max_history_len'] = max(stats['max_history_len'], len(h['steps']))
        stats['dir_at_target'] += any(e['kind'] == 'dir' for e in h['pre'])
        stats['links_at_targets'] += sum(1 for e in h['pre'] if e['kind'] == 'link')
        stats['specials_at_targets'] += sum(1 for e in h['pre'] if e['kind'] == 'special')
        stats['blocked_parent'] += any(e.get('content') == 'in the way\n' for e in h['pre'])
        stats['readonly_dirs'] += bool(h.get('rodirs'))
        stats['not_owned_files'] += sum(1 for e in h['pre'] if not e.get('owned', True))
        if any(s['rc'] == 'harness' for s in impl):
            broken.append('harness failure: ' + [s['detail'] for s in impl if s['rc'] == 'harness'][0])
            continue
        for i, st in enumerate(h['steps'], 1):
            cl = h['classes'][st['cls']]
            d = fresh.get(cl)['describe']
            tg = active_targets(d)
            prev = impl[i - 1]['snap']
            stats['steps'] += 1
            stats[{'plain': 'plain_nnvg_steps', 'shim': 'shim_root_steps', 'nonroot': 'nonroot_emulated_steps'}[h['mode']]] += 1
            stats['langs'][cl['lang']] = stats['langs'].get(cl['lang'], 0) + 1
            stats['interrupted_runs'] += impl[i]['rc'] == 'crash'
            stats['run_program_steps'] += bool(cl.get('runprog'))
            stats['no_overwrite_steps'] += st['no_overwrite']
            stats['dry_run_steps'] += st['dry_run']
            stats['no_overwrite_conflicts'] += impl[i]['rc'] == 'exists'
            stats['failed_runs_other'] += impl[i]['rc'] == 'err'
            if impl[i]['rc'] == 'ok' and not st['dry_run'] and not st['no_overwrite']:
                ro = sum(1 for t in tg if t in prev and prev[t][0] == 'f' and not prev[t][2] & 0o200)
                ex_ = sum(1 for t in tg if t in prev)
                stats['overwrites_of_readonly_files'] += ro
                stats['overwrites_of_existing_files'] += ex_
                if d['gen_support']:
                    ncopy = sum(1 for _, kd in d['support'] if not kd)
                    stats['copy_header_writes'] += ncopy
                    stats['shutil_copy_writes'] += ncopy if not d['line_pps'][0] else 0
            if (impl[i]['rc'] != 'ok' or any(t in prev for t in tg)) and not st['dry_run']:
                distinct.add(json.dumps([class_key(cl), st['file_mode'], st['no_overwrite'], impl[i]['rc'],
                                         sorted((r, e[1], e[2]) for r, e in prev.items() if r in tg)], sort_keys=True))
        ob = oracle(h, fresh, impl, kf_live, kf_hits, kf_link_live, kf_special_live)
        if ob:
            oracle_bad.append((k, ob))
        if mouts and k < len(mouts) and not mouts[k].startswith('ERR'):
            uni, foreign, keys = metas[k]
            try:
                mb = compare_model(h, fresh, impl, parse_model(mouts[k], uni), uni, foreign, keys)
            except Exception as ex:  # malformed driver output counts as a disagreement
                mb = {'what': 'unparsable model output', 'error': repr(ex), 'line': mouts[k][:200]}
            if mb:
                model_bad.append((k, mb))
            else:
                validated += len(h['steps'])
        elif ok_model:
            model_bad.append((k, {'what': 'model driver produced no result', 'line': (mouts[k] if k < len(mouts) else '')[:200]}))

    def slim(h):
        return {'mode': h['mode'], 'classes': h['classes'], 'pre': h['pre'], 'rodirs': h.get('rodirs', []), 'steps': h['steps']}

    chk.coverage.update({
        'evaluations': stats['steps'],
        'distinct_nontrivial': len(distinct),
        'rule': 'seeded random histories (length <= %d) of nnvg runs over a 3-type namespace into one directory pre-populated with '
                'leftovers at target paths (read-only, mode 0, ...), foreign files, occasionally a directory at a target path or a '
                'regular file in place of a directory; per step random content class (c/cpp/py/html, --omit-serialization-support, '
                '--generate-support, line post-processors, --output-extension collisions), --file-mode, --no-overwrite, --dry-run; '
                'three execution modes: plain `python -m nunavut` (root), in-process with an extra copied support resource (root), '
                'in-process with emulated unprivileged owner (read-only directories, files of another owner); non-trivial = '
                'distinct (configuration, prior state of the targets) where a target pre-existed or the run failed' % (6 if quick else 25),
        'samples': [slim(h) for h in hs[:6]],
        'traces_validated_against_impl': validated,
        'distribution': stats,
        'superuser': is_root,
        'umask': umask,
        'copy_into_dir_reproduces': copy_into_dir_reproduces,
        'symlink_at_target_followed': symlink_followed,
        'special_at_target_followed': special_followed,
        'specials_generated': specials,
        'links_generated': links_ok,
        'known_finding_instances': len(kf_hits),
    })
    chk.notes.append('effective uid %d: the correspondence of plain nnvg histories is checked with superuser=%s in the model; '
                     'the superuser=false model is tied only through the harness-side permission shim (nonroot histories)'
                     % (os.geteuid(), 'true' if is_root else 'false'))
    if not is_root:
        chk.notes.append('not running as root: plain histories were still modelled with superuser=true; disagreements may be due to that')

    if oracle_bad:
        k, ob = oracle_bad[0]

        def failing(hh):
            im = run_history_impl(hh, os.path.join(base, 'shr-%d' % (time.time_ns() % 1000000)), nsdir, extra)
            return oracle(hh, fresh, im, kf_live, None, kf_link_live, kf_special_live) is not None
        small = shrink_history(hs[k], failing)
        im = run_history_impl(small, os.path.join(base, 'shr-final'), nsdir, extra)
        chk.violation({'history': slim(small), 'original_history': slim(hs[k]), 'violated': oracle(small, fresh, im, kf_live, None, kf_link_live, kf_special_live) or ob,
                       'what': 'the real generator violates the property on this history', 'broken': broken,
                       'n_failing_histories': len(oracle_bad),
                       'steps_argv': [step_argv(s, small['classes'][s['cls']], '<dsdl>', '<out>') for s in small['steps']]}, found_input=True)
    elif model_bad:
        k, mb = model_bad[0]
        chk.violation({'history': slim(hs[k]), 'disagreement': mb, 'correspondence': 'Gen/Regen.v step vs nnvg',
                       'what': 'model and implementation disagree but no history violating the property was found',
                       'n_disagreements': len(model_bad), 'broken': broken}, found_input=False)
    elif broken:
        chk.violation({'broken': broken, 'coq_error': res.error_text[-2000:], 'translators': res.translator_msgs,
                       'what': 'proof obligation or model build no longer checks; searched %d histories (%d steps) on the implementation'
                               % (len(hs), stats['steps'])}, found_input=False)
    return chk.finish()
