"""C02: generated deserializers decode every byte string as the specification prescribes."""
from __future__ import annotations

import typing

from tools.lib import core
from tools.harness.codec import campaign

PROP = 'C02'

MANIFEST = dict(
    technique='Coq proof (nested induction on DSDL types) about an executable wire-format specification and a code-shaped walker; '
              'extracted specification vs. real generated C/C++/Python serializers and vs. pydsdl (two independent references)',
    text='Theorems in coq/theories/Properties/C02.v (see design_notes/C02.md).  Tie: Spec/Meta.v vs. the bit-length numbers pydsdl '
         'reports and enc_body vs. pydsdl.serialize on every run; the extracted specification vs. the generated serializers of random '
         'valid namespaces (every primitive kind/width/cast mode, arrays, nested sealed/delimited, unions, services) under an option '
         'matrix (target_endianness any/little/big, serialization asserts, sanitizer builds, C++ standards, Python), with buffers '
         'zero/0xFF/random filled and capacities max, max-1, 0.'
         ' Template bodies: tools/translators/gen_codec_tpl.py rescans the C/C++/Python (de)serialization.j2 macro structure on every '
         'run (fail closed); Codec/TplTie.v proves it equal to the reviewed Codec/TplTieData.v and the C primitive/array case splits equal '
         'to the walker\'s.',
    note='Trusted: Coq kernel; extraction (ExtrOcamlBasic only) + ocaml/codec_driver.ml; pydsdl front end (AST dumped by astdump.py); '
         'harness drivers.  Float16 conversion model is Prims/F16.v (owned by C14, swept bit-for-bit against the C code there).',
    design='§5 C02')

TRUSTED = [
    'extraction: Require Extraction ExtrOcamlBasic only; OCaml 4.13.1; ocaml/codec_driver.ml (token parsing, hex, Int64<->N/Z)',
    'pydsdl 1.25 front end: the type JSON (tools/harness/codec/astdump.py) is what nunavut itself is handed',
    'Spec/Wire.v is validated, not assumed: cross-checked on every run against pydsdl.serialize/deserialize and pydsdl bit-length sets',
    'Prims/F16.v float16 conversion model (C14)',
    'harness: generated per-namespace drivers (tools/harness/codec/target_*.py), gcc/clang/sanitizer runtimes',
]


def main(chk: core.Check, replay: typing.Optional[str] = None) -> int:
    return campaign.run(chk, 'des', ['c01', 'codec_tpl'], TRUSTED, replay)
