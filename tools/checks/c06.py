"""C06: every valid DSDL input yields generated code that builds cleanly on its own."""
from __future__ import annotations

import json
import os
import re
import subprocess
import sys
import typing
from concurrent.futures import ThreadPoolExecutor
from fractions import Fraction

from tools.lib import core
from tools.harness import c06_dsdlgen as dg

PROP = 'C06'

MANIFEST = dict(
    technique='Coq proof about an executable model of include/import generation, output paths, include guards and namespace '
              'open/close (tables regenerated from /repo by a translator); extracted-model vs. nnvg correspondence on hostile-name '
              'DSDL namespaces; real compiler / interpreter runs on every generated file in isolation',
    text='Theorems in coq/theories/Properties/C06.v, for ALL dependency-closed type sets: includes_closed (every #include of a type '
         'header is an output of generating the involved namespaces, a support output or a standard header; include path and '
         'output path go through the same make_path, call sites regenerated from the source), py_imports_closed (every imported '
         'package has its generated __init__ chain), guard_injective (guards differ unless the macro-cased full names fold; full '
         'statement refuted by witness a.b.C / a.b_C = known finding), namespace_braces_balanced (open/close emit the same names, '
         'mirrored), stropping_total (C09 totality imported: the model never takes a totalised arm; all id types used are legal), '
         'py_any_path_agree (any/path strop every DSDL identifier alike) with py_init_imports_closed and py_literal_imports_closed (omit '
         'state follows the template), std_includes_cover_c (all 2^12 feature records incl. those computed from a tdef; tables regenerated: '
         'get_includes, guarded support/base.j2 includes, guarded std names of the templates over gcc\'s C11 universe, filter names, '
         'header->names from gcc) and its POD form as an iff with a boolean the check compares with the compile probe. '
         'Tie: translator gen_c06.py (get_includes of c/cpp, make_path '
         'call sites and id types, support files, template std-name scan) + extracted model vs. real nnvg file sets, include sets, '
         'guards, namespace lines on generated hostile-name namespaces. Falsifier: each C header compiled alone as C11 and in a '
         'C++14 TU, each C++ header alone for c++14/17/20/17-pmr, each Python module compiled and imported in a fresh interpreter, '
         'with the warning flags parsed from /repo/verification/cmake/compiler_flag_sets/common.cmake and -Werror, with and '
         'without serialization support.',
    note='PARTIAL: "compiles without diagnostics" has no Coq model here (no C/C++/Python semantics available: no CompCert/VST); the '
         'compiler and interpreter runs are implementation-side evidence and the source of replayable violations, not covered by '
         'a theorem. Trusted: Coq kernel; translator gen_c06.py; stropping model of C09 (imported); extraction + OCaml driver; '
         'gcc/g++ 12, CPython 3.12 + NumPy as oracles. cetl++14-17 is generation-only (CETL submodule empty offline). A header '
         'that hits a listed known finding is only checked up to that finding (remedy flags or first diagnostic); findings are CLASSES with a '
         'trigger predicate over the DSDL dump / the real headers of the translation unit, probed by a witness at run time. The '
         'property\'s own exclusion (distinct names folded by the one-way stropping) is recognised from the real generator\'s filter_id.',
    design='§5 C06')

STD_HEADERS_C = {'<stdlib.h>', '<stdint.h>', '<stdbool.h>', '<string.h>', '<assert.h>', '<float.h>', '<math.h>', '<stddef.h>'}
STD_HEADERS_CPP = {'<limits>', '<cstdint>', '<array>', '<bitset>', '<variant>', '<vector>', '<memory_resource>', '<memory>', '<cstddef>',
                   '<type_traits>', '<algorithm>', '<cstring>', '<cmath>', '<utility>', '<initializer_list>', '<string>', '<cstdlib>',
                   '<cassert>', '<cfloat>', '<tuple>', '<iterator>', '<new>', '<functional>'}

def iso_tables() -> typing.Dict[str, typing.Set[str]]:
    """the COMMITTED header tables of coq/theories/Gen/IsoHeaders.v (one source of truth for theorem and oracle)"""
    txt = open(os.path.join(core.COQ, 'theories', 'Gen', 'IsoHeaders.v'), encoding='utf-8').read()
    out = {}
    for name in ('iso_c11_headers', 'iso_cpp20_headers', 'cetl_headers'):
        m = re.search(r'Definition %s : list str :=(.*?)\]\.' % name, txt, flags=re.S)
        out[name] = set(re.findall(r'\(\* (\S+) \*\)', m.group(1))) if m else set()
    return out


FALLBACK_C_FLAGS = ['-pedantic', '-Wall', '-Wextra', '-Werror', '-Wfloat-equal', '-Wconversion', '-Wunused-parameter', '-Wunused-variable',
                    '-Wunused-value', '-Wcast-align', '-Wmissing-declarations', '-Wmissing-field-initializers', '-Wdouble-promotion',
                    '-Wswitch-enum', '-Wtype-limits']
FALLBACK_CXX_FLAGS = ['-Wsign-conversion', '-Wsign-promo', '-Wold-style-cast', '-Wzero-as-null-pointer-constant', '-Wnon-virtual-dtor',
                      '-Woverloaded-virtual']


def project_flags() -> typing.Tuple[typing.List[str], typing.List[str], str]:
    """the project's own strict warning set, parsed from the working tree (first unconditional APPEND blocks)"""
    p = os.path.join(core.REPO, 'verification', 'cmake', 'compiler_flag_sets', 'common.cmake')
    try:
        txt = open(p, encoding='utf-8').read()
        mc = re.search(r'list\(APPEND C_FLAG_SET((?:\s*"[^"]+")+)\s*\)', txt)
        mx = re.search(r'list\(APPEND CXX_FLAG_SET((?:\s*"[^"]+")+)\s*\)', txt)
        c = re.findall(r'"([^"]+)"', mc.group(1))
        x = re.findall(r'"([^"]+)"', mx.group(1))
        if '-Werror' in c and '-Wall' in c:
            return c + ['-Wno-stringop-overflow'], x, 'parsed from verification/cmake/compiler_flag_sets/common.cmake'
    except Exception:  # noqa
        pass
    return FALLBACK_C_FLAGS + ['-Wno-stringop-overflow'], FALLBACK_CXX_FLAGS, 'fallback copy (common.cmake not parseable)'


CPP_STDS = ['c++14', 'c++17', 'c++20', 'c++17-pmr']


def all_configs() -> typing.List[dict]:
    cfgs = [{'lang': 'c', 'std': None, 'pod': p} for p in (False, True)]
    cfgs += [{'lang': 'cpp', 'std': s, 'pod': p} for s in CPP_STDS for p in (False, True)]
    cfgs += [{'lang': 'py', 'std': None, 'pod': p} for p in (False, True)]
    return cfgs


def cfg_key(c: dict) -> str:
    k = '%s/%s/%s' % (c['lang'], c.get('std') or '-', 'pod' if c['pod'] else 'ser')
    if c.get('opts'):
        k += '/' + '+'.join(o.lstrip('-') for o in c['opts'])
    if c.get('yaml'):
        k += '/yaml:' + ','.join('%s=%s' % (kk, vv) for sec in sorted(c['yaml']) for kk, vv in sorted(c['yaml'][sec].items()))
    return k


# generic generator flags of the CLI that change the rendered text of every file (the property quantifies over "options")
GENERIC_FLAGS = [['--trim-blocks'], ['--lstrip-blocks'], ['--generate-namespace-types'], ['--pp-max-emptylines', '0'], ['--pp-trim-trailing-whitespace'],
                 ['--embed-auditing-info']]
# (flag, language) pairs a listed finding covers: while its witness reproduces for that pair the configuration is only probed, not swept
FLAG_FINDINGS = {'F-C06-WS-CONTROL': {('--trim-blocks', 'c'), ('--trim-blocks', 'cpp'), ('--trim-blocks', 'py'), ('--lstrip-blocks', 'py')},
                 'F-C06-NS-TYPES': {('--generate-namespace-types', 'c'), ('--generate-namespace-types', 'cpp')}}
LIVE_CFGS: typing.Dict[str, typing.Set[str]] = {}     # finding id -> configuration keys of its witness that reproduced (filled by probe_findings)


def generic_flag_configs(rng, quick: bool) -> typing.Tuple[typing.List[dict], typing.List[str]]:
    """one single-flag configuration per generic flag and language (C++ standard rotating); flags are checked against the CLI (fail closed)"""
    problems = []
    try:
        cli = open(os.path.join(core.REPO, 'src', 'nunavut', 'cli', '__init__.py'), encoding='utf-8').read()
    except OSError as ex:
        return [], ['cannot read cli: %r' % ex]
    out = []
    for i, fl in enumerate(GENERIC_FLAGS):
        if '"%s"' % fl[0] not in cli:
            problems.append('generic flag %s is no longer defined by the CLI' % fl[0])
            continue
        for lang in ('c', 'cpp', 'py'):
            covered = [f for f, pairs in FLAG_FINDINGS.items() if (fl[0], lang) in pairs]
            cfg = {'lang': lang, 'std': (CPP_STDS[i % len(CPP_STDS)] if lang == 'cpp' else None), 'pod': False, 'opts': list(fl)}
            if any(any(k.split('/')[0] == lang and k.endswith(fl[0].lstrip('-')) for k in LIVE_CFGS.get(f, ())) for f in covered):
                continue        # known finding reproduces for this pair
            out.append(cfg)
    if quick and out:
        out = [rng.choice(out)]
    return out, problems


# ---------------------------------------------------------------------------------------------
# language options: regenerated from properties.yaml + the CLI's "language options" argument group; fail closed when unclassified
# ---------------------------------------------------------------------------------------------
FREE_TEXT_OPTIONS = {'cast_format'}      # free text, no CLI flag: reachable through --configuration only; not a matrix dimension
NON_OPTION_FLAGS = {'--configuration', '--list-configuration'}


def language_option_matrix() -> typing.Tuple[typing.Dict[str, typing.List[typing.List[str]]], typing.List[str], dict]:
    """per target language the non-default settings of every boolean / enumerated language option as CLI argument lists, e.g.
    ['--target-endianness', 'big'].  Every option key of properties.yaml must be classified: set by a boolean or enumerated flag of the
    CLI's language-option group, implied by --language-standard (keys of the `defaults` presets, std, std_flavor), or listed free text.
    Every flag of that group must set a known key.  Anything else is reported (fail closed)."""
    import ast
    import yaml
    problems: typing.List[str] = []
    dims: typing.Dict[str, typing.List[typing.List[str]]] = {'c': [], 'cpp': [], 'py': []}
    info: dict = {}
    try:
        props = yaml.safe_load(open(os.path.join(core.REPO, 'src', 'nunavut', 'lang', 'properties.yaml'), encoding='utf-8'))
        tree = ast.parse(open(os.path.join(core.REPO, 'src', 'nunavut', 'cli', '__init__.py'), encoding='utf-8').read())
    except Exception as ex:  # noqa
        return dims, ['cannot read properties.yaml / cli: %r' % ex], info
    flags: typing.Dict[str, dict] = {}
    for n in ast.walk(tree):
        if (isinstance(n, ast.Call) and isinstance(n.func, ast.Attribute) and n.func.attr == 'add_argument' and isinstance(n.func.value, ast.Name)
                and n.func.value.id == 'ln_opt_group'):
            names = [a.value for a in n.args if isinstance(a, ast.Constant) and isinstance(a.value, str)]
            kw = {}
            for k in n.keywords:
                if k.arg in ('action', 'choices', 'nargs'):
                    try:
                        kw[k.arg] = ast.literal_eval(k.value)
                    except ValueError:
                        kw[k.arg] = '?'
            long = [x for x in names if x.startswith('--')]
            if long:
                flags[long[0]] = kw
    if not flags:
        problems.append('no ln_opt_group.add_argument(...) found in cli/__init__.py')
    used_flags = set()
    for lang in ('c', 'cpp', 'py'):
        sec = props.get('nunavut.lang.' + lang) or {}
        opts = sec.get('options') or {}
        presets = sec.get('defaults') or {}
        via_standard = {'std', 'std_flavor'} | {k for p in presets.values() for k in (p or {})}
        for key, default in opts.items():
            flag = '--' + key.replace('_', '-')
            if flag in flags:
                used_flags.add(flag)
                kw = flags[flag]
                if kw.get('action') == 'store_true':
                    if default is not False:
                        problems.append('%s option %s: store_true flag but yaml default %r' % (lang, key, default))
                    dims[lang].append([flag])
                elif isinstance(kw.get('choices'), list):
                    for v in kw['choices']:
                        if v != default:
                            dims[lang].append([flag, str(v)])
                else:
                    problems.append('%s option %s: CLI flag %s is neither boolean nor enumerated: unclassified' % (lang, key, flag))
            elif key in via_standard:
                continue
            elif key in FREE_TEXT_OPTIONS:
                continue
            else:
                problems.append('language option %s of nunavut.lang.%s is unclassified (no CLI flag, not implied by --language-standard, not listed '
                                'free text): the compile matrix does not cover it' % (key, lang))
    for f in flags:
        if f not in used_flags and f not in NON_OPTION_FLAGS and f != '--language-standard':
            problems.append('CLI language-option flag %s sets no option key of properties.yaml: unclassified' % f)
    if '--language-standard' in flags:
        ch = flags['--language-standard'].get('choices') or []
        unknown = [x for x in ch if x not in CPP_STDS + ['c11', 'cetl++14-17']]
        if unknown:
            problems.append('--language-standard has values the compile matrix does not know: %s' % unknown)
    info = {'flags': sorted(flags), 'dims': {k: [' '.join(x) for x in v] for k, v in dims.items()}}
    return dims, problems, info


def option_configs(dims: dict, rng, quick: bool) -> typing.List[dict]:
    """configurations with non-default language options.  thorough: every single setting (C; C++ with the standard rotating) plus the
    combination of all settings that do not exclude a type stratum; quick: that combination (endianness and standard by seed) plus one
    rotating single setting per language."""
    out: typing.List[dict] = []
    for lang in ('c', 'cpp'):
        singles = dims.get(lang) or []
        if not singles:
            continue
        bools = [d for d in singles if len(d) == 1 and d[0] != '--omit-float-serialization-support']   # omit-float excludes float types (documented)
        enums = [d for d in singles if len(d) == 2]
        stds = [None] if lang == 'c' else CPP_STDS
        combo = sum(bools, []) + (rng.choice(enums) if enums else [])
        if quick:
            out.append({'lang': lang, 'std': rng.choice(stds), 'pod': False, 'opts': combo})
            out.append({'lang': lang, 'std': rng.choice(stds), 'pod': False, 'opts': rng.choice(singles)})
        else:
            for i, d in enumerate(singles):
                out.append({'lang': lang, 'std': stds[i % len(stds)], 'pod': False, 'opts': d})
            for e in (enums or [[]]):
                out.append({'lang': lang, 'std': rng.choice(stds), 'pod': False, 'opts': sum(bools, []) + e})
            out.append({'lang': lang, 'std': rng.choice(stds), 'pod': True, 'opts': combo})
    # de-duplicate
    seen, res = set(), []
    for c in out:
        if cfg_key(c) not in seen:
            seen.add(cfg_key(c))
            res.append(c)
    return res


def run_impl(cases, configs, workdir: str, index_base: int = 0, jobs: int = 6) -> typing.List[dict]:
    p = core.run([core.PY, os.path.join(core.VERIF, 'tools', 'harness', 'c06_impl.py')],
                 input=json.dumps({'cases': cases, 'configs': configs, 'workdir': workdir, 'jobs': jobs, 'index_base': index_base}),
                 env=core.repo_env(), timeout=3000)
    try:
        return json.loads(p.stdout[p.stdout.index('@@C06@@') + 7:])['out']
    except Exception:  # noqa
        return [{'valid': True, 'harness_error': p.stdout[-1500:], 'types': [], 'runs': {}} for _ in cases]


# ---------------------------------------------------------------------------------------------
# type information helpers (from the pydsdl dump of the harness)
# ---------------------------------------------------------------------------------------------
def tkey(t: dict) -> str:
    return '%s.%d.%d' % (t['full_name'], t['major'], t['minor'])


def comp_refs(enc: str) -> typing.Optional[str]:
    i = enc.find('C:')
    if i < 0:
        return None
    _, ns, short, ma, mi = enc[i:].split(':')
    return '%s.%s.%s.%s' % (ns, short, ma, mi)


def closure(types: typing.Dict[str, dict], k: str) -> typing.List[dict]:
    seen, todo = [], [k]
    while todo:
        x = todo.pop()
        if x in seen or x not in types:
            continue
        seen.append(x)
        for a in types[x]['attrs']:
            r = comp_refs(a)
            if r:
                todo.append(r)
    return [types[x] for x in seen]


def snake(value: str) -> str:
    """independent re-statement of nunavut.lang.c.filter_to_snake_case (used only to PREDICT guard folding)"""
    p0 = re.sub(r'[\W]+', '_', value.strip())
    p1 = re.sub(r'(?<=[A-Z])([A-Z][a-z]+)', lambda x: '_' + x.group(0).lower(), p0)
    p2 = re.sub(r'(?<=_)([A-Z])+', lambda x: x.group(0).lower(), p1)
    return re.sub(r'(?<=[a-z])([A-Z])+', lambda x: '_' + x.group(0).lower(), p2).lower()


def guard_key(t: dict) -> str:
    return '%s_%d_%d' % (snake(t['full_name']).upper(), t['major'], t['minor'])


def names_of(ts: typing.List[dict]) -> typing.Set[str]:
    out: typing.Set[str] = set()
    for t in ts:
        out.update(t['names'])
        out.update(c['name'] for c in t['consts'])
        out.add(t['short'])
        out.update(t['ns'])
    return out


def attr_names_of(ts: typing.List[dict]) -> typing.Set[str]:
    return {n for t in ts for n in list(t['names']) + [c['name'] for c in t['consts']]}


def big_float_const(ts: typing.List[dict]) -> bool:
    lim = 1 << 1024
    return any(c['kind'] == 'f' and (abs(int(c['num'])) >= lim or int(c['den']) >= lim) for t in ts for c in t['consts'])


# ---------------------------------------------------------------------------------------------
# known findings: trigger predicates, remedies, signatures (entries live in known_findings.d/C06.json)
# ---------------------------------------------------------------------------------------------
class Job:
    def __init__(self, ci, cfg, variant, rel, out, tinfo, clos, types=None, chains=None, rels=None):
        self.ci, self.cfg, self.variant, self.rel, self.out, self.t, self.clos = ci, cfg, variant, rel, out, tinfo, clos
        self.rels = rels or {}            # tkey -> generated file of that type (relative to out)
        self.strop: typing.Dict[str, typing.Dict[str, typing.Optional[str]]] = {}     # lang -> DSDL name -> Language.filter_id(name) of the real generator
        self.types = types or {}          # tkey -> type dump (whole case)
        self.chains = chains or {}        # tkey -> namespace chain the real C++ header opens (stropped; + the service's own namespace)
        self.rc = 0
        self.output = ''
        self.cmd: typing.List[str] = []

    @property
    def lang(self):
        return self.cfg['lang']


def has_union(ts) -> bool:
    return any(t['kind'] == 'U' or t['req_union'] or t['resp_union'] for t in ts)


def has_hidden_union(ts) -> bool:
    """a union that DependencyBuilder does not see as pydsdl.UnionType: a service section or a delimited (non-sealed) union"""
    return any(t['req_union'] or t['resp_union'] or (t['kind'] == 'U' and not t['isinstance_union']) for t in ts)


def stropped_differs(job: Job, name: str) -> bool:
    # cheap, language-independent over-approximation is not acceptable for a trigger; use the signature's captured name instead
    return True


FINDINGS: typing.Dict[str, dict] = {
    'F-C06-C-POD': dict(
        trigger=lambda j: j.lang == 'c' and j.cfg['pod'],
        remedy=lambda j: ['-include', 'assert.h', '-include', 'stdint.h', '-include', 'stdbool.h'] + pod_defines(j)),
    'F-C06-CPP-POD': dict(
        trigger=lambda j: j.lang == 'cpp' and j.cfg['pod'],
        remedy=lambda j: ['-include', 'cstdint', '-include', 'cstddef', '-include', 'type_traits', '-include', 'utility', '-include', 'new', '-include', 'memory']),
    'F-C06-CPP-VARIANT': dict(
        trigger=lambda j: j.lang == 'cpp' and j.cfg['std'] != 'c++14' and has_hidden_union(j.clos),
        remedy=lambda j: ['-include', 'variant']),
    'F-C06-GUARD-FOLD': dict(
        trigger=lambda j: j.lang in ('c', 'cpp') and len({guard_key(t) for t in j.clos}) < len(j.clos),
        # the first diagnostic must be about one of the types whose guards fold (its definition was skipped / met twice)
        match=lambda j, out: mentions(diag_head(out), folded_type_names(j))),
    'F-C06-C-BITPACKED': dict(
        trigger=lambda j: j.lang == 'c' and not j.cfg['pod'] and any(t['bool_array_names'] for t in j.clos),
        signature=r"has no member named ['‘]_\w+_bitpacked_['’]"),
    'F-C06-CPP-FLOATCONST': dict(
        trigger=lambda j: j.lang == 'cpp' and big_float_const(j.clos),
        signature=r'floating constant exceeds range'),
    'F-C06-CPP-DEPRECATED': dict(
        trigger=lambda j: j.lang == 'cpp' and any(t['deprecated'] for t in j.clos),
        signature=r'is deprecated.*\[-Werror=deprecated-declarations\]'),
    'F-C06-STD-MACRO': dict(
        trigger=lambda j: j.lang in ('c', 'cpp') and bool(macro_names(j)),
        # the first diagnostic (message, context or the source line it points at) must name one of the macro-named identifiers
        match=lambda j, out: mentions(diag_head(out), macro_names(j))),
    'F-C06-CPP-GLOBAL-CLASH': dict(
        trigger=lambda j: j.lang == 'cpp' and bool(clashing_roots(j)),
        signature=r'declared as non-function|redeclared as different kind of|conflicts with a previous declaration|is ambiguous|does not name a type|has not been declared|is not a (class|namespace)|expected'),
    'F-C06-CPP-MEMBER-CLASH': dict(
        trigger=lambda j: (j.lang == 'cpp' or (j.lang == 'c' and j.variant == 'cxx14')) and bool(member_clash_names(j)),
        # diagnostics of these clashes vary (allocator traits, template lookup), but the first one with its instantiation context and
        # source line must name the clashing identifier
        match=lambda j, out: mentions(diag_head(out), member_clash_names(j))),
    'F-C06-CPP-DOC': dict(
        trigger=lambda j: j.lang == 'cpp' and any(bad_doc(d) for t in j.clos for d in t.get('docs', [])),
        signature=r'\[-Werror=comment\]|\[-Werror=trigraphs\]|trigraph'),
    'F-C06-C-GENERATED-NAME': dict(
        trigger=lambda j: j.lang == 'c' and bool(generated_name_clashes(j)),
        match=lambda j, out: bool(re.search(r'redefined|expected identifier|expected unqualified-id|conflicting types|redeclared|redefinition|expected declaration', first_error(out)))
        and any(('_' + n) in diag_head(out) for n in generated_name_clashes(j))),      # `<T>_<NAME>`: the name follows the type's reference name
    'F-C06-WS-CONTROL': dict(trigger=lambda j: False, signature=r'$^'),      # configuration-level: live pairs are not swept (FLAG_FINDINGS)
    'F-C06-NS-TYPES': dict(trigger=lambda j: False, signature=r'$^'),
    'F-C06-YAML-KEYS': dict(trigger=lambda j: False, signature=r'$^'),
    'F-C06-CPP-PADONLY': dict(
        trigger=lambda j: j.lang == 'cpp' and not j.cfg['pod'] and any(t.get('padding_only_sections') for t in j.clos),
        signature=r"unused parameter .obj."),
    'F-C06-CPP-NS-SHADOW': dict(
        trigger=lambda j: ns_shadow(j),
        signature=r'is not a member of|does not name a type|is not a type|has not been declared|is not a (class|namespace)|names the constructor'),
    'F-C06-PY-MODULE-SHADOW': dict(
        trigger=lambda j: j.lang == 'py' and bool(py_shadowing_packages(j)),
        # the exception must be about the shadowing package: its name in the message or its directory in the traceback
        match=lambda j, out: any(re.search(r"['\"/ ]%s['\"/.]" % re.escape(p), '\n'.join(out.splitlines()[-25:])) for p in py_shadowing_packages(j))),
    'F-C06-PY-POD': dict(
        trigger=lambda j: j.lang == 'py' and j.cfg['pod'],
        signature=r"No module named 'nunavut_support'"),
}

_pod_define_cache: typing.Dict[str, typing.List[str]] = {}


def pod_defines(j: Job) -> typing.List[str]:
    """-D for the option macros the generated static_asserts compare against (values read from the header under test)"""
    if j.out not in _pod_define_cache:
        defs: typing.Dict[str, str] = {}
        try:
            txt = open(os.path.join(j.out, j.rel), encoding='utf-8').read()
            for m in re.finditer(r'static_assert\(\s*(NUNAVUT_SUPPORT_LANGUAGE_OPTION\w+)\s*==\s*(\d+)', txt):
                defs[m.group(1)] = m.group(2)
        except OSError:
            pass
        _pod_define_cache[j.out] = ['-D%s=%s' % kv for kv in sorted(defs.items())]
    return _pod_define_cache[j.out]


def macro_names(j: Job) -> typing.Set[str]:
    """names of the closure that are object/function-like macros after preprocessing this very translation unit"""
    if not hasattr(j, '_macros'):
        cmd = [x for x in getattr(j, 'last_cmd', j.cmd) if x != '-fsyntax-only'] + ['-dM', '-E']
        p = subprocess.run(cmd, input='#include "%s"\n' % j.rel, stdout=subprocess.PIPE, stderr=subprocess.DEVNULL, text=True, errors='replace')
        macros = set(re.findall(r'^#define (\w+)', p.stdout, flags=re.M))
        j._macros = verbatim_names(j, {n for n in names_of(j.clos) if n in macros})
    return j._macros


_code_cache: typing.Dict[str, str] = {}


def code_text(path: str) -> str:
    """a generated C/C++ file without comments and string literals"""
    if path not in _code_cache:
        try:
            txt = open(path, encoding='utf-8', errors='replace').read()
        except OSError:
            txt = ''
        txt = re.sub(r'"(?:\\.|[^"\\\n])*"', '""', txt)
        txt = re.sub(r'//[^\n]*', '', txt)
        txt = re.sub(r'/\*.*?\*/', '', txt, flags=re.S)
        _code_cache[path] = txt
    return _code_cache[path]


def verbatim_names(j: Job, names: typing.Iterable[str]) -> typing.Set[str]:
    """those DSDL names that the generated code of the translation unit (the header and the headers of its dependencies) contains as an
    identifier token as they are, i.e. that stropping left unchanged"""
    texts = [code_text(os.path.join(j.out, j.rels[tkey(t)])) for t in j.clos if tkey(t) in j.rels]
    if not texts:
        texts = [code_text(os.path.join(j.out, j.rel))]
    out = set()
    for n in names:
        rx = re.compile(r'(?<![A-Za-z0-9_])' + re.escape(n) + r'(?![A-Za-z0-9_])')
        if any(rx.search(t) for t in texts):
            out.add(n)
    return out


def strop_folded(j: Job) -> typing.List[typing.Tuple[str, str, str]]:
    """THE DOCUMENTED EXCLUSION of the property: two distinct attribute names of one section (fields and constants of one generated
    struct/class) that the real generator's one-way stropping maps to the same identifier, in the header's type or a dependency"""
    tbl = j.strop.get(j.lang) or {}
    out = []
    for t in j.clos:
        for sec in t.get('section_names', []):
            seen: typing.Dict[str, str] = {}
            for n in sec:
                s_ = tbl.get(n)
                if s_ is None:
                    continue
                if s_ in seen and seen[s_] != n:
                    out.append((tkey(t), seen[s_], n))
                seen.setdefault(s_, n)
    return out


def bad_doc(d: str) -> bool:
    return bool(re.search(r'\\(?=\s|\Z)', d)) or '??' in d


def generated_name_clashes(j: Job) -> typing.Set[str]:
    """attribute / constant names of the closure equal to a name the C templates append to the SAME type's reference name: `NAME_`, or
    `<field>_ARRAY_CAPACITY_`-style around a field of that type, or `is_<field>_` / `select_<field>_`"""
    gen_names = set(dg.generated_c_names(core.REPO))
    suf, pre = dg.generated_c_field_names(core.REPO)
    out = set()
    for t in j.clos:
        names = set(t['names']) | {c['name'] for c in t['consts']}
        fields = set(t['names'])
        for n in names:
            if n in gen_names or any(n == f + '_' + s_ for f in fields for s_ in suf) or any(n == p_ + f + '_' for f in fields for p_ in pre):
                out.add(n)
    return out


def py_shadowing_packages(j: Job) -> typing.Set[str]:
    """top-level packages of the output directory (= stropped root namespaces, of the module's own root or of any other root generated
    into the same directory) that are named like a standard-library module: with the output directory on sys.path they shadow it, or
    are shadowed by a built-in module"""
    try:
        tops = {n for n in os.listdir(j.out) if os.path.isdir(os.path.join(j.out, n))}
    except OSError:
        tops = set()
    return tops & (set(getattr(sys, 'stdlib_module_names', ())) | set(dg.PY_SUPPORT_ROOTS))


def ns_shadow(j: Job) -> bool:
    """C++ unqualified lookup of the FIRST component of a reference `r::...::T` emitted inside namespace chain C finds, before the global
    root `r`, a namespace `r` declared in an enclosing non-global scope (a deeper namespace component, or a service's own namespace,
    named like the root) -- decided on the namespace chains the real headers of the translation unit open"""
    if j.lang != 'cpp':
        return False
    for d in j.clos:
        kd = tkey(d)
        chain = j.chains.get(kd)
        if not chain:
            continue
        declared = set()
        for x in closure(j.types, kd):
            ch = j.chains.get(tkey(x)) or []
            for i in range(1, len(ch) + 1):
                declared.add(tuple(ch[:i]))
        # first components of the qualified names the header of d emits: the templates' own std:: (and nunavut::support:: with
        # serialization), and the root namespace of every referenced composite
        roots = {'std', 'size_t'} | (set() if j.cfg['pod'] else {'nunavut'})      # size_t: used unqualified by the variant helper templates
        for a in d['attrs']:
            r = comp_refs(a)
            if r and j.chains.get(r):
                roots.add(j.chains[r][0])
        for r in roots:
            for m in range(len(chain), 0, -1):
                if tuple(chain[:m]) + (r,) in declared:
                    return True
        # (b) class scope: the allocator-aware flavours declare `using allocator_type` in every class
        if (j.cfg.get('std') or '').endswith('pmr') and 'allocator_type' in roots:
            return True
        # (c) class scope: _traits_::TypeOf declares `using <field> = <type>` per field; a field of class type (composite, array) named
        #     like the root namespace of a composite referenced by a LATER field of the same section hides that root
        for sec in d.get('fields', []):
            for i, (name, enc) in enumerate(sec):
                if enc[0] not in 'AVC':
                    continue
                for _, later in sec[i + 1:]:
                    r = comp_refs(later)
                    if r and r.split('.')[0] == name:
                        return True
    return False


_clash_cache: typing.Dict[typing.Tuple[typing.Tuple[str, ...], str], bool] = {}


def clashing_roots(j: Job) -> typing.Set[str]:
    """namespace chains of the translation unit (as the real headers open them, e.g. index, tolower, std::isalpha) that cannot be declared
    after the standard headers under the project's -Wall -Werror: a component collides with a library entity of the enclosing scope
    (libc globals, gcc built-ins, and -- for a root spelled std -- the members of ::std)"""
    out = set()
    std = (j.cfg.get('std') or 'c++14').replace('-pmr', '')
    chains = set()
    for t in j.clos:
        ch = j.chains.get(tkey(t))
        if ch:
            # the service's own namespace is not part of the probe: keep the DSDL namespace part only
            chains.add(tuple(ch[:len(t['ns'])]))
    for ch in chains:
        if (ch, std) not in _clash_cache:
            hdrs = ['cstring', 'cstdlib', 'cmath', 'cstdint', 'limits', 'array', 'vector', 'bitset', 'algorithm', 'utility', 'type_traits', 'climits',
                    'cfloat', 'cctype', 'cstdio', 'cwchar', 'cwctype', 'ctime', 'csignal', 'cerrno', 'clocale', 'memory', 'new']
            if std != 'c++14':
                hdrs += ['variant', 'memory_resource']
            tu = ''.join('#include <%s>\n' % h for h in hdrs) + ''.join('namespace %s { ' % c for c in ch) + '}' * len(ch) + '\n'
            # -Wall -Werror as in the project flags: gcc built-ins (memcpy, tolower, ...) clash even without their header
            p = subprocess.run(['g++', '-std=' + std, '-Wall', '-Wextra', '-Werror', '-fsyntax-only', '-x', 'c++', '-'], input=tu, stdout=subprocess.PIPE,
                               stderr=subprocess.STDOUT, text=True)
            _clash_cache[(ch, std)] = p.returncode != 0
        if _clash_cache[(ch, std)]:
            out.add('::'.join(ch))
    return out


def diag_head(out: str) -> str:
    """the first diagnostic with its context: everything up to (not including) the second `error:` line, plus every source line of a
    generated file that this part points at (the error location and the `required from` / `In instantiation` locations)"""
    lines = out.splitlines()
    idx = [i for i, l in enumerate(lines) if ': error:' in l or 'fatal error' in l]
    head = lines[:idx[1]] if len(idx) > 1 else lines
    txt = '\n'.join(head)
    seen = set()
    for l in head:
        m = re.match(r'\s*(\S+?):(\d+):\d+: ', l)
        if m and (m.group(1), m.group(2)) not in seen and not m.group(1).startswith('/usr/'):
            seen.add((m.group(1), m.group(2)))
            try:
                txt += '\n' + open(m.group(1), encoding='utf-8', errors='replace').read().splitlines()[int(m.group(2)) - 1]
            except (OSError, IndexError):
                pass
    return txt


def mentions(text: str, names: typing.Iterable[str]) -> bool:
    return any(re.search(r'(?<![A-Za-z0-9_])' + re.escape(n) + r'(?![A-Za-z0-9_])', text) for n in names)


def folded_type_names(j: Job) -> typing.Set[str]:
    by: typing.Dict[str, typing.List[dict]] = {}
    for t in j.clos:
        by.setdefault(guard_key(t), []).append(t)
    out = set()
    for ts in by.values():
        if len(ts) > 1:
            for t in ts:
                out.add('%s_%d_%d' % (t['short'], t['major'], t['minor']))
                out.add(t['short'])
    return out


def member_clash_names(j: Job) -> typing.Set[str]:
    """fields / constants of the closure named like a member the C++ templates declare in the generated class (set derived from the templates:
    type aliases, nested classes, static members, member functions; plus the unqualified `size_t` / `std` the templates rely on), emitted
    verbatim.  For a C header in a C++ TU only `size_t` / `std` apply."""
    base = {'size_t', 'std'}
    if j.lang == 'cpp':
        base |= set(dg.generated_cpp_members(core.REPO))
    return verbatim_names(j, base & attr_names_of(j.clos))


ERR_RE = re.compile(r'(?:error|Error)\b')


def first_error(output: str) -> str:
    for l in output.splitlines():
        if ': error:' in l or 'fatal error' in l:
            return l
    ls = [l for l in output.strip().splitlines() if l.strip()]
    return ls[-1] if ls else ''


# ---------------------------------------------------------------------------------------------
# compile jobs
# ---------------------------------------------------------------------------------------------
class Builder:
    def __init__(self):
        self.cflags, self.cxxflags, self.flag_source = project_flags()

    def command(self, j: Job, extra: typing.Sequence[str] = ()) -> typing.Tuple[typing.List[str], typing.Optional[str], typing.Optional[dict]]:
        tu = '#include "%s"\n' % j.rel
        if '--enable-serialization-asserts' in (j.cfg.get('opts') or []):
            # documented usage of the option: the user defines NUNAVUT_ASSERT (the support header #errors otherwise)
            extra = list(extra) + (['-DNUNAVUT_ASSERT(x)=assert(x)'] if j.lang == 'c' else ['-DNUNAVUT_ASSERT(x)=static_cast<void>(x)'])
        if j.lang == 'c' and j.variant == 'c11':
            return ['gcc', '-std=c11'] + self.cflags + list(extra) + ['-fsyntax-only', '-I', j.out, '-x', 'c', '-'], tu, None
        if j.lang == 'c':
            return ['g++', '-std=c++14'] + self.cflags + self.cxxflags + list(extra) + ['-fsyntax-only', '-I', j.out, '-x', 'c++', '-'], tu, None
        if j.lang == 'cpp':
            std = j.cfg['std'].replace('-pmr', '')
            return ['g++', '-std=' + std] + self.cflags + self.cxxflags + list(extra) + ['-fsyntax-only', '-I', j.out, '-x', 'c++', '-'], tu, None
        mod = j.rel[:-3].replace('/', '.')
        if mod.endswith('.__init__'):
            mod = mod[:-9]
        env = dict(os.environ)
        env['PYTHONPATH'] = j.out + ':' + os.path.join(core.BUILD, 'pydeps')
        env['PYTHONDONTWRITEBYTECODE'] = '1'
        env.pop('PYTHONHASHSEED', None)
        code = PY_JOB_CODE
        return [core.PY, '-W', 'error::SyntaxWarning', '-c', code, os.path.join(j.out, j.rel), mod], None, env

    def run(self, j: Job, extra: typing.Sequence[str] = ()) -> typing.Tuple[int, str]:
        cmd, inp, env = self.command(j, extra)
        j.last_cmd = cmd
        if not extra:
            j.cmd = cmd
        try:
            p = subprocess.run(cmd, input=inp, stdout=subprocess.PIPE, stderr=subprocess.STDOUT, text=True, errors='replace', env=env, timeout=300)
            return p.returncode, p.stdout
        except subprocess.TimeoutExpired:
            return 124, 'timeout'


def header_type(types: typing.Dict[str, dict], info: dict) -> typing.Optional[str]:
    if 'full_name' in info and 'version' in info:
        k = '%s.%d.%d' % (info['full_name'], info['version'][0], info['version'][1])
        if k in types:
            return k
    return None


SUPPORT_CASES = {0}

# compile the module, import it in a fresh interpreter, then CALL the generated entry points of every class it defines once (model
# restoration, repr, serialize, deserialize) so that lazy imports inside function bodies execute.  Import-type failures propagate;
# other runtime exceptions are not C06's business (C18/C01 are) and are only noted.
PY_JOB_CODE = r'''
import sys, pathlib, importlib, inspect
src = pathlib.Path(sys.argv[1]).read_text(encoding="utf-8")
compile(src, sys.argv[1], "exec")
m = importlib.import_module(sys.argv[2])
if sys.argv[2] != "nunavut_support" and not sys.argv[1].endswith("__init__.py"):
    import nunavut_support as ns
    def classes(o, depth=0):
        for c in list(vars(o).values()):
            if inspect.isclass(c) and getattr(c, "__module__", None) == m.__name__ and depth < 3:
                yield c
                yield from classes(c, depth + 1)
    called = 0
    for c in classes(m):
        if not hasattr(c, "_serialize_"):
            continue
        steps = [("model", lambda: ns.get_model(c)), ("repr", lambda: repr(c())),
                 ("serialize", lambda: b"".join(ns.serialize(c()))),
                 ("deserialize", lambda: ns.deserialize(c, [memoryview(b"".join(ns.serialize(c())))]))]
        for name, f in steps:
            try:
                f()
                called += 1
            except ImportError:          # incl. ModuleNotFoundError: the only failures of a CALL that are C06's (a lazy import executed)
                raise
            except Exception as ex:      # anything else is a run-time defect of the generated code, owned by other properties: recorded only
                print("C06-RUNTIME-NOTE %s %s.%s: %s" % (type(ex).__name__, c.__qualname__, name, str(ex)[:120].replace("\n", " ")))
    print("C06-RUNTIME-NOTE called %d" % called)
'''


def make_jobs(ci: int, res: dict, cfgs: typing.List[dict]) -> typing.List[Job]:
    types = {tkey(t): t for t in res['types']}
    jobs = []
    for cfg in cfgs:
        r = res['runs'].get(cfg_key(cfg))
        if not r or not r['ok']:
            continue
        chains = {}
        rels = {}
        for rel, info in r['files'].items():
            k = header_type(types, info)
            if k:
                rels[k] = rel
            if k and cfg['lang'] == 'cpp':
                chains[k] = list(info.get('ns_open') or [])
        for rel, info in sorted(r['files'].items()):
            support = rel.startswith('nunavut/') or rel == 'nunavut_support.py'
            if support and ci not in SUPPORT_CASES:
                continue        # the support files do not depend on the DSDL: compiled on their own once per configuration (first cases)
            k = header_type(types, info)
            clos = [] if support else (closure(types, k) if k else list(types.values()))
            for variant in (['c11', 'cxx14'] if cfg['lang'] == 'c' else ['own']):
                jobs.append(Job(ci, cfg, variant, rel, r['out'], types.get(k) if k else None, clos, types, chains, rels))
                jobs[-1].strop = res.get('strop') or {}
    return jobs


# ---------------------------------------------------------------------------------------------
# the property's closure oracle on the real outputs (falsifier, independent of the Coq model)
# ---------------------------------------------------------------------------------------------
PY_ALLOWED_THIRD_PARTY = {'numpy', 'pydsdl'}      # documented prerequisites of the generated Python code


def closure_oracle(res: dict, cfg: dict) -> typing.List[str]:
    """the last sentence of the property on the REAL outputs: every #include of a generated type header / every import statement of a
    generated module (any depth, parsed with ast by the harness) is (a) a file this generation produced, (b) an ISO standard header /
    a standard-library module, (c) an allowed third-party file under the option that selects it; anything else is reported"""
    bad = []
    r = res['runs'].get(cfg_key(cfg))
    if not r or not r['ok']:
        return bad
    files = set(r['files'])
    iso = iso_tables()
    if cfg['lang'] == 'c':
        std = iso['iso_c11_headers']
    else:
        std = iso['iso_cpp20_headers'] | (iso['cetl_headers'] if cfg.get('std') == 'cetl++14-17' else set())
    stdlib = set(getattr(sys, 'stdlib_module_names', ()))
    for rel, info in r['files'].items():
        if info.get('syntax_error'):
            bad.append('%s is not valid Python: %s' % (rel, info['syntax_error']))
        support = rel.startswith('nunavut/') or rel == 'nunavut_support.py'
        for inc in info['includes']:
            path = inc[1:-1]
            if path in files:
                continue
            if inc in std:
                continue
            bad.append('%s includes %s which is neither generated nor an ISO standard header%s' % (rel, inc, ' (support file)' if support else ''))
        for imp in info.get('all_imports', []):
            mod = imp['module']
            if mod == '?dynamic' and rel == 'nunavut_support.py':
                continue        # nunavut_support.get_class(): run-time lookup of a generated package by its DSDL name (documented API)
            if imp['level']:
                bad.append('%s line %d: relative import (level %d) is not modelled' % (rel, imp['line'], imp['level']))
                continue
            top = mod.split('.')[0]
            p = mod.replace('.', '/')
            if p + '/__init__.py' in files or p + '.py' in files:
                parts = mod.split('.')
                for i in range(1, len(parts)):
                    if '/'.join(parts[:i]) + '/__init__.py' not in files:
                        bad.append('%s imports %s but package %s has no __init__.py' % (rel, mod, '.'.join(parts[:i])))
                continue
            if top in stdlib or top in PY_ALLOWED_THIRD_PARTY:
                continue
            if top == 'pytest' and re.match(r'(_unittest_|test_|_test_)', imp.get('func') or ''):
                continue        # embedded self-tests of the support module: only a test runner ever calls them
            if top == 'nunavut_support' and cfg['pod']:
                continue        # known finding F-C06-PY-POD (probed by its witness); the py/pod configuration is not run while it is live
            bad.append('%s line %d imports %s (depth %d) which is neither generated, standard library nor an allowed third-party module'
                       % (rel, imp['line'], mod, imp['depth']))
    return bad


# ---------------------------------------------------------------------------------------------
# model (extracted from Coq) vs implementation
# ---------------------------------------------------------------------------------------------
def model_lines(case_res: dict, cfg: dict, quirk_svc: bool) -> typing.List[str]:
    std = {'c++14': '14', 'c++17': '17', 'c++20': '20', 'c++17-pmr': '17'}.get(cfg.get('std') or '', '0')
    flavor = 'pmr' if (cfg.get('std') or '').endswith('pmr') else 'std'
    lines = ['CASE %s %s %s %d %d %d' % (cfg['lang'], std, flavor, int(cfg['pod']), int(quirk_svc), len(case_res['types']))]
    for t in case_res['types']:
        kind = t['kind']
        u = int(t['isinstance_union'])
        lines.append('TYPE %s %s %d %d %s %d %d %d %s' % ('.'.join(t['ns']), t['short'], t['major'], t['minor'], kind, u, int(t['req_union']),
                                                         int(t['resp_union']), ' '.join(t['attrs']) if t['attrs'] else '-'))
    return lines


def parse_model(out: str) -> typing.List[dict]:
    res, cur = [], None
    for l in out.splitlines():
        tk = l.split(' ')
        if tk[0] == 'BEGIN':
            cur = {'files': {}, 'ns_files': [], 'support': [], 'err': None}
            res.append(cur)
        elif cur is None:
            continue
        elif tk[0] == 'FILE':
            cur['files'][tk[1]] = {'includes': [], 'imports': [], 'guard': None, 'ns_open': [], 'ns_close': []}
            last = cur['files'][tk[1]]
        elif tk[0] == 'INC':
            last['includes'] = [x for x in tk[1:] if x]
        elif tk[0] == 'IMP':
            last['imports'] = [x for x in tk[1:] if x]
        elif tk[0] == 'GUARD':
            last['guard'] = tk[1]
        elif tk[0] == 'NSO':
            last['ns_open'] = [x for x in tk[1:] if x]
        elif tk[0] == 'NSC':
            last['ns_close'] = [x for x in tk[1:] if x]
        elif tk[0] == 'NSFILE':
            cur['ns_files'].append(tk[1])
        elif tk[0] == 'SUPPORT':
            cur['support'].append(tk[1])
        elif tk[0] == 'FACT':
            cur.setdefault('facts', {})[tk[1]] = tk[2] == '1'
        elif tk[0] == 'ERR':
            cur['err'] = l
    return res


def compare_model(model: dict, run: dict, cfg: dict, types: typing.Dict[str, dict]) -> typing.List[str]:
    diffs = []
    if model['err']:
        return ['model error: ' + model['err']]
    real_files = set(run['files'])
    exp = set(model['files']) | set(model['support']) | (set(model['ns_files']) if cfg['lang'] == 'py' else set())
    if exp != real_files:
        diffs.append('file set: model-only %s, implementation-only %s' % (sorted(exp - real_files)[:4], sorted(real_files - exp)[:4]))
    for rel, m in model['files'].items():
        r = run['files'].get(rel)
        if r is None:
            continue
        if cfg['lang'] in ('c', 'cpp'):
            if sorted(m['includes']) != sorted(r['includes']):
                diffs.append('%s includes: model %s, implementation %s' % (rel, sorted(m['includes']), sorted(r['includes'])))
            g = r['guard'][0] if r['guard'] else None
            if m['guard'] != g:
                diffs.append('%s guard: model %s, implementation %s' % (rel, m['guard'], g))
            if r['guard'] and r['guard'][1] != '#define ' + r['guard'][0]:
                diffs.append('%s: #ifndef %s not followed by its #define' % (rel, r['guard'][0]))
            if cfg['lang'] == 'cpp':
                # base.j2's own open/close: the outermost len(namespace) opens and the last len(namespace) closes
                # (ServiceType.j2 opens one more namespace of its own inside)
                n = len(m['ns_open'])
                ro, rc = r['ns_open'][:n], (r['ns_close'][-n:] if n else [])
                if m['ns_open'] != ro or m['ns_close'] != rc:
                    diffs.append('%s namespaces: model %s/%s, implementation %s/%s' % (rel, m['ns_open'], m['ns_close'], r['ns_open'], r['ns_close']))
                if ro != list(reversed(rc)):
                    diffs.append('%s: namespace open %s and close %s are not mirrored' % (rel, r['ns_open'], r['ns_close']))
        else:
            if sorted(m['imports']) != sorted(r['imports']):
                diffs.append('%s imports: model %s, implementation %s' % (rel, sorted(m['imports']), sorted(r['imports'])))
    return diffs


def run_model(exe: str, requests: typing.List[typing.List[str]]) -> typing.List[dict]:
    p = core.run([exe], input='\n'.join('\n'.join(r) for r in requests) + '\n', timeout=1200)
    return parse_model(p.stdout)


# ---------------------------------------------------------------------------------------------
# shrinking: restrict the case to the offending type and what it depends on, then drop its attributes
# ---------------------------------------------------------------------------------------------
def restrict_case(case: dict, res: dict, tk: typing.Optional[str]) -> dict:
    if tk is None:
        return case
    types = {tkey(t): t for t in res['types']}
    keep = {(t['root'], tkey(t)) for t in closure(types, tk)}
    roots: typing.Dict[str, typing.Dict[str, str]] = {r: {} for r in case['roots']}
    for root, files in case['roots'].items():
        for rel, text in files.items():
            m = re.match(r'^(?:(.*)/)?(?:\d+\.)?(\w+)\.(\d+)\.(\d+)\.dsdl$', rel)
            if not m:
                continue
            ns = [root] + (m.group(1).split('/') if m.group(1) else [])
            k = '%s.%s.%s.%s' % ('.'.join(ns), m.group(2), m.group(3), m.group(4))
            if (root, k) in keep:
                roots[root][rel] = text
    main = case['main']
    return {'roots': {r: f for r, f in roots.items() if f or r == main}, 'main': main,
            'lookup': [l for l in case.get('lookup', []) if roots.get(l)]}


def check_one(case: dict, cfgs: typing.List[dict], builder: Builder, live: typing.Set[str], want: typing.Optional[typing.Tuple[str, str]] = None
              ) -> typing.List[dict]:
    """generate + compile one case under the given configurations; returns the list of unexplained failures"""
    wd = core.scratch('c06-one-')
    res = run_impl([case], cfgs, wd, jobs=4)[0]
    if not res.get('valid', False):
        return []
    fails = []
    for cfg in cfgs:
        r = res['runs'].get(cfg_key(cfg))
        if r and not r['ok']:
            fails.append({'kind': 'generation', 'config': cfg_key(cfg), 'log': r['log'][-1500:]})
    for j in make_jobs(0, res, cfgs):
        v = judge(j, builder, live, {})
        if v:
            fails.append(v)
    return fails


def shrink(case: dict, res: dict, fail: dict, builder: Builder, live: typing.Set[str]) -> dict:
    cfg = fail['cfg']
    small = restrict_case(case, res, fail.get('type'))
    again = check_one(small, [cfg], builder, live)
    if not again:
        return case
    cur = small
    # greedy removal of attribute / constant lines in the offending definition
    target = None
    for root, files in cur['roots'].items():
        for rel in files:
            if fail.get('source') and rel.endswith(fail['source']):
                target = (root, rel)
    budget = 12
    if target:
        changed = True
        while changed and budget > 0:
            changed = False
            lines = cur['roots'][target[0]][target[1]].splitlines()
            for i, l in enumerate(lines):
                if l.startswith('@') or l == '---' or not l.strip():
                    continue
                cand = json.loads(json.dumps(cur))
                cand['roots'][target[0]][target[1]] = '\n'.join(lines[:i] + lines[i + 1:]) + '\n'
                budget -= 1
                if budget <= 0:
                    break
                if check_one(cand, [cfg], builder, live):
                    cur = cand
                    changed = True
                    break
    return cur


# ---------------------------------------------------------------------------------------------
def judge(j: Job, builder: Builder, live: typing.Set[str], stats: dict) -> typing.Optional[dict]:
    """run one job; None if clean or fully explained by live known findings whose trigger holds"""
    rc, out = builder.run(j)
    j.rc, j.output = rc, out
    if j.lang == 'py':
        notes = [l for l in out.splitlines() if l.startswith('C06-RUNTIME-NOTE')]
        for l in notes:
            if l.startswith('C06-RUNTIME-NOTE called '):
                stats['py_entry_points_called'] = stats.get('py_entry_points_called', 0) + int(l.rsplit(' ', 1)[1])
            else:
                typ = l.split(' ')[1]
                ce = stats.setdefault('call_exceptions', {})
                ent = ce.setdefault(typ, {'count': 0, 'example': '%s: %s' % (j.rel, l[len('C06-RUNTIME-NOTE '):])})
                ent['count'] += 1
        out = '\n'.join(l for l in out.splitlines() if not l.startswith('C06-RUNTIME-NOTE'))
    if rc == 0 and not out.strip():
        return None
    explained_by = None
    used: typing.List[str] = []
    extra: typing.List[str] = []
    for f in FINDINGS:
        if f in live and 'remedy' in FINDINGS[f] and FINDINGS[f]['trigger'](j):
            extra += FINDINGS[f]['remedy'](j)
            used.append(f)
    if extra:
        rc2, out2 = builder.run(j, extra)
        if rc2 == 0 and not out2.strip():
            explained_by = used
        else:
            out = out2
    applicable = list(used)
    if explained_by is None:
        fe = first_error(out)
        for f in FINDINGS:
            sig, mt = FINDINGS[f].get('signature'), FINDINGS[f].get('match')
            if f in live and (sig or mt) and FINDINGS[f]['trigger'](j):      # evaluated on the translation unit as last compiled
                applicable.append(f)
                if (mt(j, out) if mt else re.search(sig, fe)):
                    explained_by = used + [f]
                    break
    if explained_by is not None:
        for f in explained_by:
            stats[f] = stats.get(f, 0) + 1
        return None
    # documented exclusion of an option: --omit-float-serialization-support "will result in errors if floating point types are used"
    if '--omit-float-serialization-support' in (j.cfg.get('opts') or []) and any('f' in re.sub(r'C:.*', '', a) for t in j.clos for a in t['attrs']):
        stats['EXCLUDED-OMIT-FLOAT'] = stats.get('EXCLUDED-OMIT-FLOAT', 0) + 1
        return None
    # the property's own exclusion (not a finding): names folded onto one identifier by the documented one-way stropping
    folded = strop_folded(j)
    if folded:
        fe = first_error(out)
        idents = {(j.strop.get(j.lang) or {}).get(a) for _, a, _ in folded}
        if re.search(r'duplicate member|redeclaration of|redefinition of|conflicting declaration|redefined|conflicts with a previous declaration', fe) \
                and any(i and i in fe for i in idents):
            stats['EXCLUDED-STROP-FOLD'] = stats.get('EXCLUDED-STROP-FOLD', 0) + 1
            return None
    return {'kind': 'diagnostic', 'cfg': j.cfg, 'config': cfg_key(j.cfg), 'variant': j.variant, 'header': j.rel,
            'type': tkey(j.t) if j.t else None, 'source': j.t['source'] if j.t else None, 'command': ' '.join(j.cmd),
            'first_error': first_error(out), 'compiler_output': out[-3000:], 'findings_considered': applicable, 'case_index': j.ci}


def probe_findings(chk: core.Check, builder: Builder) -> typing.Tuple[typing.Set[str], typing.Dict[str, str]]:
    """reproduce each listed finding's witness on the implementation; a finding is live iff its witness still fails as recorded"""
    live: typing.Set[str] = set()
    detail: typing.Dict[str, str] = {}
    entries = [e for e in chk.known if e.get('status') == 'known' and e['id'] in FINDINGS]
    if not entries:
        return live, detail
    cases = [e['witness']['case'] for e in entries]
    cfgs = []
    for e in entries:
        for c in e['witness']['configs']:
            if c not in cfgs:
                cfgs.append(c)
    wd = core.scratch('c06-probe-')
    outs = run_impl(cases, cfgs, wd, jobs=6)
    for e, res in zip(entries, outs):
        fid = e['id']
        if not res.get('valid'):
            detail[fid] = 'witness no longer valid DSDL: ' + res.get('reason', '')[:200]
            continue
        hit = False
        for cfg in e['witness']['configs']:
            run = res['runs'].get(cfg_key(cfg))
            if run is not None and not run['ok']:
                # a witness of "generation does not complete"
                if e['witness'].get('expect_generation_failure') and re.search(e['witness']['expect'], run['log']):
                    hit = True
                    LIVE_CFGS.setdefault(fid, set()).add(cfg_key(cfg))
                    detail[fid] = run['log'].strip().splitlines()[-1][:200]
                continue
            for j in make_jobs(0, res, [cfg]):
                if j.rel != e['witness']['header'].get(cfg['lang']):
                    continue
                rc, out = builder.run(j)
                if (rc != 0 or out.strip()) and re.search(e['witness']['expect'], out):
                    hit = True
                    LIVE_CFGS.setdefault(fid, set()).add(cfg_key(cfg))
                    detail[fid] = first_error(out)[:200]
        if hit:
            live.add(fid)
    return live, detail


def load_own_known(chk: core.Check) -> None:
    """entries of known_findings.d/C06.json that the merged known_findings.json does not carry yet"""
    p = os.path.join(core.VERIF, 'known_findings.d', 'C06.json')
    if os.path.exists(p):
        have = {e['id'] for e in chk.known}
        for e in json.load(open(p, encoding='utf-8'))['findings']:
            if e['id'] not in have:
                chk.known.append(e)


def main(chk: core.Check, replay: typing.Optional[str] = None) -> int:
    quick = chk.tier == 'quick'
    load_own_known(chk)
    builder = Builder()

    # 1. proof obligations against the regenerated tables
    import time as _time
    _t0 = _time.time()
    res = core.coq_check('C06', ['closure'])
    _t_coq = _time.time() - _t0
    chk.proof_coverage(res, [
        'translator tools/translators/gen_c06.py (get_includes of c/cpp -> condition tables; make_path call sites and id types; support '
        'file lists; std-name scan of the templates)',
        'stropping model Gen/Strop.v + Generated/Gen_Strop.v of C09 (imported; its own correspondence is C09\'s)',
        'hand model Gen/Closure.v of DependencyBuilder.direct, IncludeGenerator, Namespace paths, filter_imports, include guards and '
        'open/close_namespace, tied by the correspondence run below',
        'table of which standard header declares which name (Gen/Closure.v, from the C11 / C++ standards)',
        'extraction: Require Extraction ExtrOcamlBasic only; OCaml 4.13.1; ocaml/c06_driver.ml',
        'gcc/g++ 12 and CPython 3.12 + NumPy as the oracle for "compiles/imports without diagnostics" (no Coq model: partial)',
    ])
    broken: typing.List[str] = []
    if not res.ok:
        broken.append('proof obligation: %s %s' % (res.failed_file or 'translator', res.failed_theorem or ''))
    ok_model, exe, log = core.build_extracted('c06', 'ExtractC06.v', 'c06_driver.ml')
    if not ok_model:
        broken.append('model does not build/extract: ' + log[-300:])

    # 2. known findings: which still reproduce
    live, probe_detail = probe_findings(chk, builder)
    for fid in sorted(live):
        chk.report_known(fid)
    # facts the model computes from the regenerated tables, compared with what the implementation does (both states of the tree)
    facts = {}
    if ok_model:
        fr = run_model(exe, [['FACTS']])
        facts = (fr[0].get('facts') or {}) if fr else {}
        if 'c_pod_selfsufficient' not in facts:
            broken.append('model driver does not report its facts')
        else:
            # status known: the tables must agree with the probe; status fixed / not listed: they must say self-sufficient
            pod_live = 'F-C06-C-POD' in live
            if facts['c_pod_selfsufficient'] == pod_live:
                broken.append('C06_std_includes_cover_c_pod_iff: the regenerated tables say POD C headers are %sself-sufficient but the compile probe of '
                              'F-C06-C-POD says the finding %s' % ('' if facts['c_pod_selfsufficient'] else 'NOT ', 'reproduces' if pod_live else 'does not reproduce'))
    quirk_union = bool(facts.get('q_union_live', False))

    # 3. cases
    gen = dg.Gen(chk.rng, core.REPO)
    if replay:
        doc = json.load(open(replay))
        cases = [doc['case']] if 'case' in doc else dg.corpus()
    else:
        n_random = 3 if quick else 24
        cases = dg.corpus() + dg.witness_corpus() + [gen.case(chk.rng.choice([5, 8, 8, 10])) for _ in range(n_random)]
    configs = all_configs()
    if 'F-C06-PY-POD' in live:
        configs = [c for c in configs if not (c['lang'] == 'py' and c['pod'])]     # probed by the witness only
    wd = core.scratch('c06-')
    outs: typing.List[dict] = []
    batch = 8
    n_wit = 0 if replay else len(dg.witness_corpus())
    # quick tier: the minimised class witnesses (cases 2 .. 2+n_wit-1) are generated for the configurations their classes live in only
    wit_cfgs = [c for c in configs if cfg_key(c) in ('c/-/ser', 'cpp/c++14/ser', 'cpp/c++17/ser', 'cpp/c++17-pmr/ser', 'cpp/c++17/pod', 'py/-/ser')] \
        if quick else configs
    for b in range(0, len(cases), batch):
        chunk = list(range(b, min(b + batch, len(cases))))
        for off, sel, cf in ((0, [i for i in chunk if not (2 <= i < 2 + n_wit)], configs), (batch, [i for i in chunk if 2 <= i < 2 + n_wit], wit_cfgs)):
            if sel:
                res_sel = run_impl([cases[i] for i in sel], cf, wd, index_base=b * 2 + off, jobs=6)
                for i, r_ in zip(sel, res_sel):
                    while len(outs) <= i:
                        outs.append(None)
                    outs[i] = r_

    # language options (regenerated; fail closed): extra configurations on the fixed corpora (quick) / those + the first random cases (thorough)
    opt_dims, opt_problems, opt_info = language_option_matrix()
    for pr in opt_problems:
        broken.append('language option matrix: ' + pr)
    extra_cfgs = option_configs(opt_dims, chk.rng, quick) if not replay else []
    gf_cfgs, gf_problems = generic_flag_configs(chk.rng, quick) if not replay else ([], [])
    for pr in gf_problems:
        broken.append('generic flag matrix: ' + pr)
    extra_cfgs += gf_cfgs
    opt_cases = [i for i in range(len(cases)) if i < (1 if quick else 2) or (not quick and i < 2 + n_wit + 8)] if extra_cfgs else []
    opt_cases = [i for i in opt_cases if outs[i] is not None and outs[i].get('valid')]
    for b in range(0, len(opt_cases), batch):
        sel = opt_cases[b:b + batch]
        res_sel = run_impl([cases[i] for i in sel], extra_cfgs, wd, index_base=5000 + b, jobs=6)
        for i, r_ in zip(sel, res_sel):
            if r_.get('valid') and 'runs' in r_:
                outs[i]['runs'].update(r_['runs'])
    opt_case_set = set(opt_cases)

    stats: typing.Dict[str, typing.Any] = {'cases': len(cases), 'valid': 0, 'rejected_by_pydsdl': 0, 'types': 0, 'nnvg_runs': 0, 'compile_jobs': 0,
                                           'known_finding_instances': {}, 'model_files_compared': 0, 'kinds': {'S': 0, 'U': 0, 'V': 0},
                                           'deprecated': 0, 'empty_sections': 0, 'cross_root_refs': 0, 'max_namespace_depth': 0}
    failures: typing.List[dict] = []
    model_diffs: typing.List[dict] = []
    oracle_bad: typing.List[dict] = []
    jobs: typing.List[Job] = []
    distinct = set()
    requests, req_index = [], []
    for ci, (case, r) in enumerate(zip(cases, outs)):
        if 'harness_error' in r:
            broken.append('harness failure: ' + r['harness_error'][-300:])
            continue
        if not r['valid']:
            stats['rejected_by_pydsdl'] += 1
            if not replay and ci < 2 + n_wit:
                broken.append('fixed corpus case %d (%s) is rejected by pydsdl: %s' % (ci, case['main'], r.get('reason', '')[:200]))
            continue
        stats['valid'] += 1
        stats['types'] += len(r['types'])
        for t in r['types']:
            stats['kinds'][t['kind']] += 1
            stats['deprecated'] += t['deprecated']
            stats['empty_sections'] += t['empty_sections']
            stats['max_namespace_depth'] = max(stats['max_namespace_depth'], len(t['ns']))
            stats['cross_root_refs'] += sum(1 for a in t['attrs'] if 'C:' in a and not a[a.index('C:') + 2:].startswith(t['root'] + '.')
                                            and not a[a.index('C:') + 2:].startswith(t['root'] + ':'))
            distinct.add(json.dumps([t['full_name'], t['kind'], t['attrs'], sorted(t['names'])]))
        cfgs_here = configs + (extra_cfgs if ci in opt_case_set else [])
        for cfg in cfgs_here:
            run = r['runs'].get(cfg_key(cfg))
            if run is None:
                continue
            stats['nnvg_runs'] += len(run['cmds'])
            if not run['ok']:
                failures.append({'kind': 'generation', 'cfg': cfg, 'config': cfg_key(cfg), 'case_index': ci, 'log': run['log'][-2000:],
                                 'commands': run['cmds']})
                continue
            for msg in closure_oracle(r, cfg):
                oracle_bad.append({'case_index': ci, 'config': cfg_key(cfg), 'cfg': cfg, 'what': msg})
            if ok_model:
                requests.append(model_lines(r, cfg, quirk_union))
                req_index.append((ci, cfg))
        ccfgs = cfgs_here
        if quick:
            # quick tier: the fixed corpus (cases 0, 1) is compiled for every standard; POD C++ for c++14 + one rotating standard; random cases
            # and class witnesses for c++14 + two rotating standards
            keep_pod = {'c++14', chk.rng.choice(CPP_STDS[1:])}
            keep_ser = set(CPP_STDS) if ci < 2 else {'c++14'} | set(chk.rng.sample(CPP_STDS[1:], 2))
            ccfgs = [c for c in cfgs_here if c.get('opts') or c['lang'] != 'cpp' or (c['std'] in (keep_pod if c['pod'] else keep_ser))]
        jobs += make_jobs(ci, r, ccfgs)

    # model vs implementation
    if ok_model and requests:
        models = run_model(exe, requests)
        if len(models) != len(requests):
            broken.append('model driver answered %d of %d requests' % (len(models), len(requests)))
        for (ci, cfg), m in zip(req_index, models):
            r = outs[ci]
            run = r['runs'][cfg_key(cfg)]
            types = {tkey(t): t for t in r['types']}
            if cfg['pod'] and cfg['lang'] == 'py' and 'F-C06-PY-POD' in live:
                continue
            d = compare_model(m, run, cfg, types)
            stats['model_files_compared'] += len(m['files'])
            if d:
                model_diffs.append({'case_index': ci, 'config': cfg_key(cfg), 'diffs': d[:6]})

    _t_gen = _time.time() - _t0 - _t_coq
    # compile / import every generated file on its own
    stats['compile_jobs'] = len(jobs)
    with ThreadPoolExecutor(max_workers=8) as ex:
        for v in ex.map(lambda j: judge(j, builder, live, stats['known_finding_instances']), jobs):
            if v:
                failures.append(v)

    stats['by_config'] = {}
    for j in jobs:
        k = cfg_key(j.cfg) + ('+' + j.variant if j.variant != 'own' else '')
        stats['by_config'][k] = stats['by_config'].get(k, 0) + 1
    names = sorted(gen.used_names)
    cov = dg.pattern_coverage(core.REPO, names + [n for c in dg.corpus() for t in c['roots'].values() for txt in t.values() for n in re.findall(r'\w+', txt)])
    stats['reserved_patterns_hit'] = sum(1 for v in cov.values() if v)
    stats['reserved_patterns_total'] = len(cov)
    stats['hostile_names_used'] = len(names)
    stats['flags'] = builder.flag_source
    stats['call_exceptions'] = stats['known_finding_instances'].pop('call_exceptions', {})
    stats['py_entry_points_called'] = stats['known_finding_instances'].pop('py_entry_points_called', 0)
    stats['wall_breakdown_s'] = {'coq_incl_lock_wait': round(_t_coq, 1), 'extract_probe_generate_model': round(_t_gen, 1),
                                 'compile_import': round(_time.time() - _t0 - _t_coq - _t_gen, 1)}
    stats['language_options'] = opt_info
    stats['option_configs'] = [cfg_key(c) for c in extra_cfgs]
    stats['probe'] = probe_detail

    chk.coverage.update({
        'evaluations': len(jobs) + stats['nnvg_runs'], 'distinct_nontrivial': len(distinct),
        'rule': 'fixed regression corpus (extreme constants incl. int64 min, empty/wide/deprecated types, services, unions, 5-level namespaces, '
                'hand-picked keyword names) + seeded random hostile-name namespaces (names from every reserved list and a hand list hitting every '
                'reserved/encoding pattern of properties.yaml, filtered by pydsdl.check_name), accepted by pydsdl.read_namespace; x {c, cpp '
                'c++14/17/20/17-pmr, py} x {serialization, --omit-serialization-support}; every generated file compiled/imported alone; '
                'non-trivial = distinct (type name, kind, attribute shapes, attribute names)',
        'samples': [{'main': c['main'], 'files': sorted(sum(([r + '/' + f for f in fs] for r, fs in c['roots'].items()), []))[:12]} for c in cases[:6]],
        'traces_validated_against_impl': stats['model_files_compared'],
        'distribution': stats,
    })
    if not quick:
        chk.notes.append('cetl++14-17 flavour: generation only (CETL submodule empty offline), not compiled')

    # verdicts
    if failures:
        f = failures[0]
        ci = f['case_index']
        small = cases[ci]
        if f['kind'] == 'diagnostic':
            try:
                small = shrink(cases[ci], outs[ci], f, builder, live)
            except Exception as ex:  # noqa
                chk.notes.append('shrinker failed: %r' % ex)
        chk.violation({'case': small, 'original_case': cases[ci], 'failure': {k: v for k, v in f.items() if k != 'cfg'},
                       'what': 'generated file does not build cleanly on its own' if f['kind'] == 'diagnostic' else 'nnvg failed on a namespace pydsdl accepts',
                       'n_failing': len(failures), 'other_failures': [{k: v for k, v in x.items() if k in ('config', 'variant', 'header', 'first_error', 'case_index')}
                                                                      for x in failures[1:8]], 'broken': broken, 'live_known_findings': sorted(live)},
                      found_input=True)
    elif oracle_bad:
        o = oracle_bad[0]
        chk.violation({'case': cases[o['case_index']], 'failure': {k: v for k, v in o.items() if k != 'cfg'}, 'what': 'generated file refers to a header/module that '
                       'generating the involved namespaces does not produce', 'n_failing': len(oracle_bad), 'broken': broken}, found_input=True)
    elif model_diffs:
        d = model_diffs[0]
        chk.violation({'case': cases[d['case_index']], 'correspondence': 'Gen/Closure.v (extracted) vs nnvg ' + d['config'], 'diffs': d['diffs'],
                       'n_disagreements': len(model_diffs), 'what': 'model and implementation disagree on file set / includes / guard / namespaces but no '
                       'file failing to build was found', 'broken': broken}, found_input=False)
    elif broken:
        chk.violation({'broken': broken, 'coq_error': res.error_text[-2000:], 'translators': res.translator_msgs,
                       'what': 'proof obligation or model build no longer checks; compiled %d generated files without finding a failing input' % len(jobs)},
                      found_input=False)
    return chk.finish()
