"""Independent keyword tables for C09 (and for c06_dsdlgen.pools): NOT derived from /repo's properties.yaml.

Sources: ISO/IEC 9899:2011 6.4.1 (C11 keywords); ISO/IEC 14882:2020 [lex.key] Table 5 + [lex.digraph]/[lex.operators]
alternative tokens (C++20); Python 3.12 `keyword.kwlist` (hard keywords) and `keyword.softkwlist`.
The Coq copy is coq/theories/Gen/StropKeywords.v (committed; `python -m tools.checks.c09_keywords --coq` prints it and the
C09 check compares the two on every run).  Soft keywords of Python (`_`, `case`, `match`, `type`) are ordinary identifiers
everywhere except at the head of a match/type statement, so an attribute or class named `match` is legal Python: they are
listed but NOT required to be stropped."""
import sys

C11_KEYWORDS = """auto break case char const continue default do double else enum extern float for goto if inline int long
register restrict return short signed sizeof static struct switch typedef union unsigned void volatile while
_Alignas _Alignof _Atomic _Bool _Complex _Generic _Imaginary _Noreturn _Static_assert _Thread_local""".split()

CPP20_KEYWORDS = """alignas alignof asm auto bool break case catch char char8_t char16_t char32_t class concept const consteval
constexpr constinit const_cast continue co_await co_return co_yield decltype default delete do double dynamic_cast else enum
explicit export extern false float for friend goto if inline int long mutable namespace new noexcept nullptr operator private
protected public register reinterpret_cast requires return short signed sizeof static static_assert static_cast struct switch
template this thread_local throw true try typedef typeid typename union unsigned using virtual void volatile wchar_t while""".split()

CPP20_ALTERNATIVE_TOKENS = "and and_eq bitand bitor compl not not_eq or or_eq xor xor_eq".split()

PYTHON_VERSION = '3.12'
PY_KEYWORDS = """False None True and as assert async await break class continue def del elif else except finally for from global
if import in is lambda nonlocal not or pass raise return try while with yield""".split()
PY_SOFT_KEYWORDS = "_ case match type".split()


def _coq_list(name, words, comment):
    rows = ['   [%s]%s (* %s *)' % ('; '.join(str(ord(c)) for c in w), ';' if i + 1 < len(words) else '', w) for i, w in enumerate(words)]
    return '(* %s *)\nDefinition %s : list str :=\n  [\n%s\n  ]%%N.\n' % (comment, name, '\n'.join(rows))


def coq_text() -> str:
    return ('(* C09 -- INDEPENDENT keyword tables (committed; NOT derived from /repo).  Source of this text: tools/checks/c09_keywords.py\n'
            '   (`python -m tools.checks.c09_keywords --coq`); the C09 check compares the two on every run. *)\n'
            'From Verif Require Import Str.\nOpen Scope N_scope.\n\n'
            + _coq_list('c11_keywords', C11_KEYWORDS, 'ISO/IEC 9899:2011 6.4.1') + '\n'
            + _coq_list('cpp20_keywords', CPP20_KEYWORDS, 'ISO/IEC 14882:2020 [lex.key]') + '\n'
            + _coq_list('cpp20_alternative_tokens', CPP20_ALTERNATIVE_TOKENS, 'ISO/IEC 14882:2020 [lex.digraph]') + '\n'
            + _coq_list('py312_keywords', PY_KEYWORDS, 'keyword.kwlist of Python %s' % PYTHON_VERSION) + '\n'
            + _coq_list('py312_soft_keywords', PY_SOFT_KEYWORDS, 'keyword.softkwlist of Python %s (not required to be stropped)' % PYTHON_VERSION))


if __name__ == '__main__':
    if sys.argv[1:] == ['--coq']:
        sys.stdout.write(coq_text())
